"""mccheck.py - shared driver for the model-checking properties C01-C03 (and reused by others)."""
from common import *
import ref


def succ_of(kd):
    s = {v: [] for v in kd['S']}
    for (a, b) in kd['R']:
        s.setdefault(a, [])
        s.setdefault(b, [])
        if b not in s[a]:
            s[a].append(b)
    return s


def ref_check(kd, f, fair=None):
    succ = succ_of(kd)
    states = list(succ.keys())
    labels = {v: set(kd['L'].get(v, [])) for v in states}
    return ref.check(states, succ, labels, f, fair)


def impl_mc(logic, K, f, F=None, as_text=False, num=None, parser=None):
    """num: map from K's states to the model's numbers (states that are not 0..n-1: strings, tuples, mixed types)"""
    L = lang_module(logic)
    if as_text:
        arg = f
    else:
        arg = to_py(f, L)
    kw = {}
    if F is not None:
        kw['F'] = F
    if parser is not None:
        kw['parser'] = parser
    r = call(lambda: L.modelcheck(K, arg, **kw))
    return canon_answer(r, num)


def canon_answer(r, num=None):
    """('ok', set of states) -> ('ok', sorted list of state numbers)"""
    if r[0] == 'ok':
        v = r[1]
        if not isinstance(v, set):
            return ('err', 'other:not-a-set:' + type(v).__name__)
        if num is None:
            try:
                return ('ok', sorted(v))
            except TypeError:
                return ('err', 'other:unsortable-result')
        try:
            return ('ok', sorted(num(s) for s in v))
        except (KeyError, TypeError):
            return ('err', 'other:result-contains-a-non-state')
    return r


def model_cmd(logic, K, f, F=None, num=None, objlang='CTLS'):
    ks = kripke_sx(K, num)
    if F is None:
        if logic == 'CTL':
            return ['ctl', ks, fsx(f)]
        if logic == 'LTL':
            return ['ltl', ks, fsx(f)]
        return ['ctls', objlang, ks, fsx(f)]
    Fs = [sorted(P) for P in F]
    return [{'CTL': 'ctlf', 'LTL': 'ltlf', 'CTLS': 'ctlsf'}[logic], ks, fsx(f), Fs]


def model_obs(o):
    if o[0] == 'ok':
        return ('ok', sorted(ints(o[1])))
    return ('err', o[1])


def has_temporal(f):
    return any(g[0] in TEMPORAL for g in subformulas(f))


def kd_py_aliased(kd):
    """the same structure, labels installed with shared set objects (common.alias_labels)"""
    return alias_labels(kd_py({k: v for k, v in kd.items() if k != 'alias'}))


# ---------- fork pool (deterministic: results are re-assembled in order) ----------
def n_jobs():
    try:
        n = len(os.sched_getaffinity(0))
    except Exception:  # noqa
        n = os.cpu_count() or 1
    return max(1, min(12, n - 2))


def pmap_chunks(fn, items, jobs=None, per=6):
    """ordered map of fn (list -> list) over chunks of items in a fork pool"""
    jobs = n_jobs() if jobs is None else jobs
    chunks = [items[i:i + per] for i in range(0, len(items), per)]
    if jobs <= 1 or len(chunks) < 2:
        res = [fn(c) for c in chunks]
    else:
        for lg in ('CTL', 'LTL', 'CTLS'):
            lang_module(lg)                     # imported once, in the parent
        import multiprocessing as mp
        with mp.get_context('fork').Pool(jobs) as pool:
            res = pool.map(fn, chunks, chunksize=1)
    return [x for r in res for x in r]


_PARSERS = {}


def shared_parser(logic):
    if logic not in _PARSERS:
        _PARSERS[logic] = lang_module(logic).Parser()
    return _PARSERS[logic]


# ---------- presentations of one structure: states that are not 0..n-1, label containers that are not sets ----------
_STATE_NAMES = ['idle', 'busy', 'err', 'wait', 'done', 'init', 'halt', 'run']
RENAMES = {
    'int1': lambda i: i + 1,                                            # 1-based
    'sparse': lambda i: (-3 * i - 1) if i % 2 else 10 * i + 7,          # negative / sparse ints
    'str': lambda i: _STATE_NAMES[i] if i < len(_STATE_NAMES) else 's%d' % i,
    'tuple': lambda i: ('cpu', None) if i == 0 else (('cpu', i) if i % 2 else (None, i)),     # product states with an optional field
    'mixed': lambda i: (i, str(i - 1), (i, None), frozenset([i]))[i % 4],        # mutually unorderable; '0' next to 0
}
RENAME_CYCLE = ['int1', 'str', 'tuple', 'mixed', 'sparse', 'mixed', 'str', 'tuple']
CONTAINER_CYCLE = [None, 'frozenset', None, 'list', 'mixed', None]


def renaming(name):
    return RENAMES[name] if name else (lambda i: i)


def install_containers(K, kind):
    """re-install K's labelling through Kripke.replace_labelling_function (which stores the caller's dict as it is) with label
    containers that are not sets: frozensets (immutable), lists, or a mixture incl. tuples; states without labels are omitted
    in every other structure (the method completes the dict)"""
    L = {}
    for i, s in enumerate(list(K.states())):
        ls = sorted(K.labels(s))
        k = kind if kind != 'mixed' else ('set', 'frozenset', 'list', 'tuple')[i % 4]
        if not ls and kind == 'list' and i % 2:
            continue
        L[s] = {'set': set, 'frozenset': frozenset, 'list': lambda x: list(reversed(x)), 'tuple': tuple}[k](ls)
    K.replace_labelling_function(L)
    return K


def build_K(kd, alias=False, rename=None, containers=None):
    """live Kripke object of kd (states 0..n-1) under a renaming of the states; returns (K, num) with num: state -> number"""
    ren = renaming(rename)
    inv = {}
    for s in list(kd['S']) + [x for e in kd['R'] for x in e]:
        inv[ren(s)] = s
    kd2 = {'S': [ren(s) for s in kd['S']], 'S0': [ren(s) for s in kd['S0']], 'R': [(ren(a), ren(b)) for a, b in kd['R']],
           'L': {ren(s): list(ls) for s, ls in kd['L'].items()}}
    K = kd_py(kd2)
    if containers:
        install_containers(K, containers)
    elif alias or kd.get('alias'):
        alias_labels(K)
    return K, inv


def _mc_chunk(chunk):
    """worker: [(logic, kd, f, alias, rename, containers)] -> [(answer, model command, K unchanged, number of states)]"""
    out = []
    for logic, kd, f, alias, rename, containers in chunk:
        K, inv = build_K(kd, alias, rename, containers)
        num = inv.__getitem__
        snap0 = kripke_snapshot(K)
        r = impl_mc(logic, K, f, num=num)
        out.append((tuple(r), model_cmd(logic, K, f, num=num), kripke_snapshot(K) == snap0, len(K.states())))
    return out


def run_mc(R, logic, cases, label='', alias_every=5, varied=False):
    """cases: list of (kd, f).  Compares implementation and model; on a difference consults the
    reference semantics to say which side violates exactness.  Returns number of mismatches.
    varied: EVERY case is presented with renamed states (1-based / sparse ints, strings, tuples with a None field, mutually
    unorderable mixed types; the model stays on numbers through kripke_sx(K, num)) and every other one with label containers
    that are not sets (install_containers)."""
    items = []
    for ci, (kd, f) in enumerate(cases):
        aliased = bool(alias_every and ci % alias_every == alias_every - 1)
        rename = RENAME_CYCLE[ci % len(RENAME_CYCLE)] if varied else None
        containers = CONTAINER_CYCLE[ci % len(CONTAINER_CYCLE)] if varied else None
        if aliased and not containers:
            R.count('structures_with_shared_label_set_objects')
        if varied:
            R.count('states_renamed:' + rename)
            if containers:
                R.count('label_containers:' + containers)
        items.append((logic, kd, f, aliased, rename, containers))
    res = pmap_chunks(_mc_chunk, items, per=max(6, min(40, len(items) // (4 * n_jobs()) + 1)))
    outs = model_batch_parallel([c for _, c, _, _ in res])
    bad = 0
    for (_, kd, f, aliased, rename, containers), (r, _, unchanged, n), o in zip(items, res, outs):
        R.evaluations += 1
        m = model_obs(o)
        if tuple(r) != m or not unchanged:
            bad += 1
            try:
                rr = sorted(ref_check(kd, f))
            except Exception as e:  # noqa
                rr = 'ref-failed: %r' % e
            R.violation('%s.modelcheck differs from the proved model%s' % (logic, '' if unchanged else ' (and modified K)'),
                        {'logic': logic, 'kripke': kd_json(kd), 'formula': f, 'formula_str': fstr(f),
                         'impl': r, 'model': m, 'reference': rr, 'labels_installed_with_shared_set_objects': bool(aliased),
                         'states_renamed': rename, 'label_containers': containers,
                         'states_as_given': None if not rename else [repr(renaming(rename)(s)) for s in kd['S']],
                         'impl_wrong_by_reference': (r[0] != 'ok' or r[1] != rr)})
            continue
        R.count('agree_' + logic + label)
        w = max([len(g) - 1 for g in subformulas(f) if g[0] in NARY] or [0])
        if w:
            wh = R.cov.setdefault('cases_by_widest_or_and_node', {})
            wh[str(w)] = wh.get(str(w), 0) + 1
        if r[0] == 'ok' and has_temporal(f) and 0 < len(r[1]) < n:
            R.nontriv((logic, json.dumps(kd_json(kd), sort_keys=True), f) + ((rename, containers) if varied else ()))
            R.sample({'logic': logic, 'kripke': kd_json(kd), 'formula': fstr(f), 'result': r[1]})
    return bad


def replay_mc(R, data):
    d = data['data']
    if d.get('stream') == 'long structures':
        print('long structures re-run: %d difference(s)' % long_structures(R, data.get('property', '?'), d['logic']))
        return
    if d.get('stream') == 'live structures':
        return replay_session(R, d)
    if d.get('stream') == 'text channel':
        return replay_text(R, d)
    kd = kd_from_json(d['kripke'])
    f = detuple(d['formula'])
    K, inv = build_K(kd, bool(d.get('labels_installed_with_shared_set_objects')), d.get('states_renamed'), d.get('label_containers'))
    num = inv.__getitem__
    r = impl_mc(d['logic'], K, f, num=num)
    m = model_obs(model_batch([model_cmd(d['logic'], K, f, num=num)])[0])
    rr = sorted(ref_check(kd, f))
    print('formula  :', fstr(f))
    if d.get('states_renamed') or d.get('label_containers'):
        print('K        :', K, '  (state numbers: %s)' % {repr(k): v for k, v in inv.items()})
    print('impl     :', r)
    print('model    :', m)
    print('reference:', rr)
    if tuple(r) != m:
        R.violation('replayed: implementation differs from the proved model', d)


def detuple(x):
    if isinstance(x, list):
        return tuple(detuple(y) for y in x)
    return x


# ---------- formula pools ----------
def ctl_formulas_depth(d, aps=('p', 'q')):
    """all CTL state formulas with quantifier/connective nesting <= d (or/and binary)"""
    leaves = [('true',), ('false',)] + [('ap', a) for a in aps]
    cur = list(leaves)
    for _ in range(d):
        new = list(cur)
        seen = set(cur)
        for f in cur:
            cand = [('not', f)] + [(q, (o, f)) for q in 'AE' for o in 'XFG']
            for c in cand:
                if c not in seen:
                    seen.add(c); new.append(c)
        for f in cur:
            for g in cur:
                cand = [('or', f, g), ('and', f, g), ('imp', f, g)] + [(q, (o, f, g)) for q in 'AE' for o in 'UR']
                for c in cand:
                    if c not in seen:
                        seen.add(c); new.append(c)
        cur = new
    return cur


def path_formulas_ops(k, aps=('p', 'q'), quant=False):
    """all path formulas with at most k operators (or/and binary)"""
    leaves = [('true',), ('false',)] + [('ap', a) for a in aps]
    by_ops = {0: leaves}
    un = ['not', 'X', 'F', 'G'] + (['A', 'E'] if quant else [])
    bi = ['or', 'and', 'imp', 'U', 'R']
    for n in range(1, k + 1):
        out = []
        for u in un:
            out += [(u, f) for f in by_ops[n - 1]]
        for a in range(0, n):
            b = n - 1 - a
            for op in bi:
                out += [(op, f, g) for f in by_ops[a] for g in by_ops[b]]
        by_ops[n] = out
    return [f for n in range(k + 1) for f in by_ops[n]]


# ---------- long structures: "every finite total Kripke structure" includes structures with thousands of states ----------
def long_structures(R, pid, logic):
    """a ring 0 -> 1 -> ... -> n-1 -> 0 with p exactly at state 0 and q elsewhere: answers are known in closed form (the extracted
    model works with unary numbers and is not run at this size).  Exactness must not depend on the length of paths: no helper may
    recurse along them (RecursionError), no fixpoint may be cut off after a fixed number of rounds."""
    from pyModelChecking.kripke import Kripke
    M = lang_module(logic)
    bad = 0
    for n in (1400, 2300):
        K = Kripke(R=[(i, (i + 1) % n) for i in range(n)], L=dict([(0, {'p'})] + [(i, {'q'}) for i in range(1, n)]))
        everything, nothing, only0, rest = list(range(n)), [], [0], list(range(1, n))
        if logic == 'CTL':
            qs = [('E F p', everything), ('A F p', everything), ('E G q', nothing), ('A G (E F p)', everything), ('E (q U p)', everything),
                  ('A X q', [i for i in range(n) if i != n - 1]), ('not E (q U p) or p', only0), ('A (q R (q or p))', everything), ('E G (q or p)', everything)]
        elif logic == 'LTL':
            qs = [('A G F p', everything), ('A F p', everything), ('A G q', nothing), ('A (q U p)', everything), ('A X q', [i for i in range(n) if i != n - 1])]
        else:
            qs = [('A G F p', everything), ('E F G q', nothing), ('A F (p and X q)', everything), ('E (q U (p and E X q))', everything)]
        if n > 2000:
            qs = qs[:4]
        for text, want in qs:
            R.evaluations += 1
            r = call(lambda: M.modelcheck(K, text))
            if r[0] != 'ok' or not isinstance(r[1], set) or sorted(r[1]) != want:
                bad += 1
                R.violation('on a ring of %d states %s.modelcheck(K, %r) %s' % (n, logic, text, ('raised ' + str(r[1])) if r[0] != 'ok' else
                                                                               'is not exact (%d states returned, %d expected)' % (len(r[1]), len(want))),
                            {'stream': 'long structures', 'logic': logic, 'n_states': n, 'formula_text': text,
                             'impl': list(r) if r[0] != 'ok' else ['ok', '%d states' % len(r[1])], 'expected': '%d states' % len(want)})
            else:
                R.nontriv(('ring', n, logic, text))
    R.cov['long_structures'] = {'ring_sizes': [1400, 2300], 'differences': bad}
    return bad


# ---------- long quantified subformulas that share a long prefix ----------
def long_prefix_cases(rng, n):
    """(structure, CTL state formula) with two DIFFERENT quantified subformulas whose printed forms agree on their first 40+
    characters (Q(x U a) next to Q(x U b) for a long propositional x), one of them with an empty or full truth set, combined
    non-monotonically: anything that identifies subformulas by a truncated / hashed printed form (fresh label names, memo keys)
    confuses them.  The formulas are CTL, so all three checkers apply."""
    out = []
    aps = ('p', 'q', 'r')
    while len(out) < n:
        k = rng.randint(3, 5)
        x = (rng.choice(['and', 'or']),) + tuple((rng.choice(['or', 'and']), ('ap', rng.choice(aps)), rng.choice([('ap', rng.choice(aps)), ('not', ('ap', rng.choice(aps)))]))
                                                for _ in range(k))
        a, b = rng.sample([('ap', 'p'), ('ap', 'q'), ('ap', 'r'), ('not', ('ap', 'p')), ('false',), ('true',)], 2)
        q1, q2 = rng.choice('AE'), rng.choice('AE')
        o = rng.choice(['U', 'U', 'R', 'G', 'F'])
        mk = (lambda q, t: (q, (o, x, t))) if o in 'UR' else (lambda q, t: (q, (o, ('and', x, t))))
        g1, g2 = mk(q1, a), mk(q2, b)
        f = rng.choice([('and', g1, g2), ('and', g1, ('not', g2)), ('or', ('not', g1), g2), ('imp', g1, g2), ('and', g2, g1)])
        out.append((rand_kripke(rng, rng.randint(1, 3), aps=aps), f))
    return out


# ---------- dense structures x nested temporal path formulas ----------
def dense_cases(rng, n, kind):
    """structures with 3-5 states in which most transitions are present (the tableau then has large, nested strongly connected
    components, where an error in how components are delimited shows up) x path formulas with two or three nested temporal
    operators under A / E"""
    ops2 = [g for g in path_formulas_ops(2) if sum(1 for h in subformulas(g) if h[0] in TEMPORAL) >= 2]
    out = []
    while len(out) < n:
        m = rng.randint(3, 5)
        st = list(range(m))
        R_ = [(a, b) for a in st for b in st if rng.random() < 0.75]
        for a in st:
            if not any(x == a for x, _ in R_):
                R_.append((a, rng.choice(st)))
        rng.shuffle(R_)
        kd = {'S': st, 'S0': [], 'R': R_, 'L': {a: [p for p in ('p', 'q') if rng.random() < 0.4] for a in st}}
        if rng.random() < 0.65:
            # simple properties (G a, F a, a U b, a R b, G F a, F G a) spelled so that they are NOT CTL path formulas and go through
            # the tableau: an operand x is written (x or (x U false)) - cheap tableaux, many structures
            lit = lambda: rng.choice([('ap', 'p'), ('ap', 'q'), ('not', ('ap', 'p')), ('not', ('ap', 'q')), ('true',)])
            a, b = lit(), lit()
            # persistence shapes (F G a, b U G a, ...) are over-weighted: their tableau has a 'waiting' component above a
            # 'committed' one, i.e. a multi-node component that finishes while another one is still open
            g = rng.choice([('G', a), ('F', a), ('U', a, b), ('R', a, b), ('G', ('F', a)), ('R', ('U', a, ('false',)), b)] +
                           [('F', ('G', a))] * 5 + [('U', b, ('G', a))] * 4 + [('F', ('and', b, ('G', a)))] * 2 + [('G', ('F', ('G', a)))])
            x = g[1]
            g = (g[0], ('or', x, ('U', x, ('false',)))) + tuple(g[2:])
        else:
            g = rng.choice(ops2)
            if rng.random() < 0.3:
                g = (rng.choice(['U', 'R']), g, rng.choice(ops2[:40]))
        out.append((kd, (('A' if kind == 'LTL' else rng.choice('AE')), g)))
    return out


# ---------- wide connectives: Or/And are VARIADIC (the parsers fold 'a or b or c' into one node) ----------
def wide_cases(rng, n, kind):
    """(structure, formula) cases whose or/and nodes have 3-5 operands (1 operand in a few cases), every operand a distinct
    temporal formula, so that an operand in position >= 3 matters.  kind: 'LTL' (A over a wide path connective),
    'CTLS' (A/E over a wide path connective, operands possibly quantified), 'CTL' (wide connective of quantified CTL formulas)"""
    ops1 = [g for g in path_formulas_ops(1) if g[0] in ('X', 'F', 'G', 'U', 'R')]
    ops2 = [g for g in path_formulas_ops(2) if g[0] in ('X', 'F', 'G', 'U', 'R') and g[1][0] != 'true']
    out = []
    leaves = [('ap', 'p'), ('ap', 'q'), ('true',), ('not', ('ap', 'p')), ('not', ('ap', 'q'))]
    while len(out) < n // 4:
        # a wide connective TOGETHER WITH ITS PREFIX (a or b or c next to a or b), both under temporal operators: the two are
        # different formulas (a printer / comparison that looks at the first two operands only would conflate them)
        k = rng.choice([3, 3, 4])
        gs = rng.sample(leaves + ([g for g in ops1 if g[0] == 'X'] if kind != 'CTL' else []), k)
        op = rng.choice(['or', 'and'])
        w3, w2 = (op,) + tuple(gs), (op,) + tuple(gs[:rng.choice([2, k - 1])])
        if kind == 'CTL':
            qa, qb = rng.choice('AE'), rng.choice('AE')
            f = rng.choice([('imp', (qa, ('X', w3)), (qb, ('X', w2))), (qa, ('U', w3, w2)), ('and', (qa, ('F', w3)), ('not', (qb, ('F', w2)))),
                            (qa, ('G', ('or', w2, (qb, ('X', w3)))))])
        else:
            body = rng.choice([('imp', ('X', w3), ('X', w2)), ('U', w3, w2), ('and', ('F', w3), ('G', ('not', w2))), ('or', ('X', w2), ('not', ('X', w3))),
                               ('U', ('X', w2), ('X', w3))])
            f = ((rng.choice('AE') if kind == 'CTLS' else 'A'), body)
        out.append((rand_kripke(rng, rng.randint(1, 3), aps=('p', 'q')), f))
    while len(out) < n:
        # (the tableau is exponential in the number of temporal operands: keep LTL/CTL* bodies small)
        k = rng.choice([3, 3, 3, 4, 4, 5, 1]) if kind == 'CTL' else rng.choice([3, 3, 3, 3, 4, 1])
        pool = ops1 if (rng.random() < 0.6 if kind == 'CTL' else (k > 3 or rng.random() < 0.85)) else ops2
        gs = rng.sample(pool, k)
        if kind == 'CTL':
            gs = [(rng.choice('AE'), g) for g in gs]
            gs = [g for g in gs if is_ctl_state(g)]
            if len(gs) != k:
                continue
        elif kind == 'CTLS':
            gs = [(rng.choice('AE'), g) if rng.random() < 0.3 else g for g in gs]
        gs = [('not', g) if rng.random() < 0.25 else g for g in gs]
        rng.shuffle(gs)
        w = (rng.choice(['or', 'and']),) + tuple(gs)
        if rng.random() < 0.3:
            w = rng.choice([('not', w), ('X', w), ('G', w), ('F', w)]) if kind != 'CTL' else ('not', w)
        f = w if kind == 'CTL' else ((rng.choice('AE') if kind == 'CTLS' else 'A'), w)
        m = rng.randint(2, 4)
        out.append((rand_kripke(rng, m, aps=('p', 'q')), f))
    return out


# ---------- stacked negations: 'not not phi' / 'not not not phi' at every position of a formula ----------
def stack_negations(rng, f, kind, p=0.3):
    """f with 2-4 negations stacked on some of its subformulas (anywhere a formula of the language may stand: under a quantifier,
    under and between temporal operators, over derived operators, over constants, over another connective)"""
    t = f[0]
    if t in ('true', 'false', 'ap'):
        g = f
    elif t in ('A', 'E') and kind in ('CTL', 'LTL'):
        o = f[1]
        if kind == 'LTL':
            return (t, stack_negations(rng, o, 'path', p))
        g = (t, (o[0],) + tuple(stack_negations(rng, x, kind, p) for x in o[1:]))
    else:
        g = (t,) + tuple(stack_negations(rng, x, kind, p) for x in f[1:])
    if rng.random() < p:
        for _ in range(rng.choice([2, 2, 2, 2, 3, 4])):
            g = ('not', g)
    return g


def stacked_negation_cases(rng, n, kind):
    """(structure, formula): random formulas of the language (depth 1-3) in which negations are stacked at random positions"""
    out = []
    while len(out) < n:
        d = rng.randint(1, 3)
        if kind == 'CTL':
            f = gen_until(rng, lambda: rand_ctl(rng, d), has_temporal)
        elif kind == 'LTL':
            f = ('A', gen_until(rng, lambda: rand_path(rng, d), has_temporal))
        else:
            f = gen_until(rng, lambda: rand_ctls_state(rng, d), has_temporal)
        if f is None:
            continue
        g = stack_negations(rng, f, kind, rng.choice([0.2, 0.35, 0.5]))
        if g == f or sum(1 for h in subformulas(g) if h[0] in TEMPORAL) > 5:
            continue
        out.append((rand_kripke(rng, rng.randint(1, 4)), g))
    return out


# ---------- atom names that are concatenations / joins / prefixes of one another ----------
JOIN_FAMILIES = [('p', 'q', 'pq'), ('a', 'b', 'ab', 'ba'), ('p', 'q', 'p q'), ('p', 'q', 'p,q'), ('p', 'q', "p', 'q"), ('x', 'xx', 'xxx'),
                 ('p', 'q', 'p|q'), ('p', 'q', 'pq', 'qp', ''), ('p', 'P', 'q', 'Q'), ('1', '2', '12', '21')]


def joined_name_cases(rng, n, kind):
    """(structure, formula) over atom names of which one is the concatenation (or a ' ' / ',' / ', ' join, or a repetition, or a
    case variant) of others: {p, q} and {pq} are DIFFERENT label sets, and most structures here contain a state of each kind
    with different futures.  Object channel only (the names need not be writable in the concrete syntax)."""
    out = []
    while len(out) < n:
        fam = rng.choice(JOIN_FAMILIES)
        parts, joined = fam[:2], fam[2]
        m = rng.randint(2, 4)
        kd = rand_kripke(rng, m, aps=fam)
        if rng.random() < 0.8:
            a, b = rng.sample(range(m), 2)
            kd['L'][a], kd['L'][b] = sorted(parts), [joined]
            if rng.random() < 0.5:
                kd['R'] = [e for e in kd['R'] if e[0] not in (a, b)] + [(a, a), (b, b)]
        d = rng.randint(1, 2)
        if kind == 'CTL':
            f = gen_until(rng, lambda: rand_ctl(rng, d, aps=fam), has_temporal)
        elif kind == 'LTL':
            f = ('A', gen_until(rng, lambda: rand_path(rng, d, aps=fam), has_temporal))
        else:
            f = gen_until(rng, lambda: rand_ctls_state(rng, d + 1, aps=fam), has_temporal)
        if rng.random() < 0.3:
            g = rng.choice([('ap', joined), ('not', ('ap', joined)), ('ap', parts[0]), ('X', ('ap', joined)), ('F', ('not', ('ap', parts[1]))), ('G', ('ap', parts[0]))])
            f = ('A', g) if kind != 'CTL' or g[0] in ('X', 'F', 'G') else g
            if kind == 'CTL' and not is_ctl_state(f):
                continue
        out.append((kd, f))
    return out


# ---------- exotic atom names: the faithful (printed-form) models of coq/Model/Memo.v ----------
def run_print_stream(R, pid, logic, nform, kf_id='KF-print-a'):
    """formulas whose ATOM NAMES collide with printed subformulas / reserved words (known finding
    KF-print-a).  Three observers: implementation, FAITHFUL model (memo dict / set membership keyed by
    printed form, proved equal to the exact model on identifier atoms: MemoP.v), EXACT model.
      impl == exact                      fine
      impl == faithful != exact          the known finding (counted, never an alarm)
      impl != faithful and != exact      VIOLATION (a new way of being wrong)
      impl == exact != faithful          no alarm; recorded as known_finding_no_longer_reproduces"""
    import memo_probe
    rng = random.Random(R.seed + 77)
    faithful_cmd = {'CTL': 'ctlmemo', 'LTL': 'ltlprint'}[logic]
    clean_cmd = {'CTL': 'ctl', 'LTL': 'ltl'}[logic]
    cases = [(kd, f) for kd, f, _ in memo_probe.HAND[logic]]
    seen = set()
    while len(seen) < nform:
        f = memo_probe.gen_formula(rng, logic)
        if f in seen:
            continue
        seen.add(f)
        for kd in memo_probe.structures(rng, f, 2, False):
            cases.append((kd, f))
    cmds, impls = [], []
    for kd, f in cases:
        K = kd_py(kd)
        impls.append(tuple(memo_probe.impl(logic, K, f)))
        ks = kripke_sx(K)
        cmds.append([faithful_cmd, ks, fsx(f)])
        cmds.append([clean_cmd, ks, fsx(f)])
    outs = model_batch_parallel(cmds)
    kf = stale = 0
    example = None
    for i, (kd, f) in enumerate(cases):
        R.evaluations += 1
        r, fa, cl = impls[i], memo_probe.obs(outs[2 * i]), memo_probe.obs(outs[2 * i + 1])
        if r == cl:
            R.count('exotic_atoms_agree_with_exact_model')
            continue
        if r == fa:
            kf += 1
            if example is None:
                example = (kd, f, r, cl)
            continue
        if r != fa and r != cl:
            R.violation('%s.modelcheck on exotic atom names differs from the faithful (printed-form) model and from the exact model' % logic,
                        {'logic': logic, 'kripke': kd_json(kd), 'formula': f, 'formula_str': fstr(f), 'impl': r,
                         'faithful_model': fa, 'exact_model': cl, 'stream': 'exotic atom names'})
    if kf:
        R.known_hits[kf_id] = R.known_hits.get(kf_id, 0) + kf
        kd, f, r, cl = example
        known_finding_line(pid, kf_id, '%s: formulas compared by printed form - %d explored inputs with atoms named like printed subformulas are answered as the '
                           'faithful model predicts, not exactly (e.g. %s on %s: got %s, exact %s)' % (logic, kf, fstr(f), json.dumps(kd_json(kd)), r, cl))
    R.cov['exotic_atom_stream'] = {'cases': len(cases), 'known_finding_cases': kf}


# ---------- concrete syntax ----------
def hand_text(f, logic, rng):
    """hand-written concrete syntax of tree f in the grammar of `logic` (alternative operator symbols, quoted atoms,
    irregular spacing, optional outer parentheses); CTL needs a blank between quantifier and temporal operator"""
    def sym(t):
        if t == 'not':
            return rng.choice(['not ', '~', '~ ', 'not  '])
        if t == 'or':
            return rng.choice([' or ', ' | ', '|', '  or '])
        if t == 'and':
            return rng.choice([' and ', ' & ', '&', ' and  '])
        return rng.choice([' --> ', '-->', ' -->'])

    def unit(f):
        t = f[0]
        if t in ('true', 'false'):
            return t
        if t == 'ap':
            return f[1] if rng.random() < 0.85 else '"%s"' % f[1]
        if t == 'not':
            return sym('not') + unit(f[1])
        if t in ('X', 'F', 'G'):
            if logic == 'CTL':
                raise ValueError('bare path formula in CTL text')
            return t + ' ' + unit(f[1])
        if t in ('A', 'E'):
            if logic == 'CTL':
                g = f[1]
                if g[0] in 'XFG':
                    return t + ' ' + g[0] + ' ' + unit(g[1])
                return t + rng.choice(['', ' ']) + '(' + unit(g[1]) + ' ' + g[0] + ' ' + unit(g[2]) + ')'
            return t + ' ' + unit(f[1])
        if t in ('U', 'R'):
            return '(' + unit(f[1]) + ' ' + t + ' ' + unit(f[2]) + ')'
        return '(' + sym(t).join(unit(g) for g in f[1:]) + ')'
    s = unit(f)
    if f[0] in ('or', 'and', 'imp', 'U', 'R') and rng.random() < 0.5:
        s = s[1:-1]                      # the outermost operator needs no parentheses
    elif logic != 'LTL' and rng.random() < 0.15:
        s = '(' + s + ')'
    return s


# atom names of the documented grammar /[a-zA-Z_][a-zA-Z_0-9]*/: several characters, digits, underscores, names that BEGIN with an
# operator letter or a reserved word
ATOM_NAMES = ['req_1', 'ack2', '_x', 'Ab_9c', 'p0', 'q_', 'grant', 'x1y2', 'Up', 'Xs', 'Gnt_3', 'a', 'Rdy', 'E1', 'F_', 'not_p', 'or2',
              'true_', 'Until', '__', 'z9', 'A_0']


def rename_atoms(f, amap):
    if f[0] == 'ap':
        return ('ap', amap.get(f[1], f[1]))
    if f[0] in ('true', 'false'):
        return f
    return (f[0],) + tuple(rename_atoms(g, amap) for g in f[1:])


def rename_atoms_kd(kd, amap):
    return dict(kd, L={s: [amap.get(a, a) for a in ls] for s, ls in kd['L'].items()})


def flat1(f):
    """the tree without its one-operand or/and nodes (the concrete syntax cannot express them: '(x)' is x)"""
    if f[0] in ('true', 'false', 'ap'):
        return f
    if f[0] in NARY and len(f) == 2:
        return flat1(f[1])
    return (f[0],) + tuple(flat1(g) for g in f[1:])


def _text_chunk(chunk):
    out = []
    for logic, kd, f, text, own_parser in chunk:
        K = kd_py(kd)
        snap0 = kripke_snapshot(K)
        rt = impl_mc(logic, K, text, as_text=True, parser=None if own_parser else shared_parser(logic))
        ro = impl_mc(logic, K, f)
        out.append((tuple(rt), tuple(ro), model_cmd(logic, K, f), kripke_snapshot(K) == snap0, len(K.states())))
    return out


def run_text(R, logic, cases, label='_text'):
    """the TEXT channel: every case (kd, f) gets multi-character atom names (ATOM_NAMES, in the labels of the structure and in
    the formula) and is passed to modelcheck as hand-written concrete syntax (every operator incl. R and -->, alternative symbols,
    quoted atoms) - with the caller's Parser and, in one case out of eight, with the default one.  The answer must be the model's
    answer on the tree that the model's parser (proved print/parse model) reads from the text - which must be the intended tree -
    and the answer of the object channel."""
    rng = R.rng
    items = []
    for ci, (kd, f) in enumerate(cases):
        names = rng.sample(ATOM_NAMES, 3)
        amap = dict(zip(('p', 'q', 'r'), names))
        f2, kd2 = rename_atoms(f, amap), rename_atoms_kd(kd, amap)
        items.append((logic, kd2, f2, hand_text(f2, logic, rng), ci % 8 == 5))
    res = pmap_chunks(_text_chunk, items, per=max(6, min(40, len(items) // (4 * n_jobs()) + 1)))
    outs = model_batch_parallel([c for _, _, c, _, _ in res] + [['parse', lg, Q(t)] for lg, _, _, t, _ in items])
    bad = skipped = 0
    for i, ((_, kd, f, text, own), (rt, ro, _, unchanged, n)) in enumerate(zip(items, res)):
        R.evaluations += 1
        m = model_obs(outs[i])
        pr = outs[len(items) + i]
        if pr[0] != 'ok' or flat1(fparse(pr[1])) != flat1(f):
            skipped += 1                    # (the writer produced something the proved parser reads differently: not a case)
            continue
        if rt != m or ro != m or not unchanged:
            bad += 1
            if bad <= 8:
                R.violation('%s.modelcheck given TEXT %r: text channel %s, object channel %s, proved model %s' % (logic, text, rt, ro, m),
                            {'stream': 'text channel', 'logic': logic, 'kripke': kd_json(kd), 'formula': f, 'formula_str': fstr(f), 'text': text,
                             'default_parser': bool(own), 'impl_text': rt, 'impl_object': ro, 'model': m, 'K_unchanged': unchanged})
            continue
        R.count('agree_' + logic + label)
        ops = R.cov.setdefault('text_channel_operators', {})
        for g in subformulas(f):
            if g[0] not in ('ap', 'true', 'false'):
                ops[g[0]] = ops.get(g[0], 0) + 1
        if rt[0] == 'ok' and has_temporal(f) and 0 < len(rt[1]) < n:
            R.nontriv(('text', logic, json.dumps(kd_json(kd), sort_keys=True), text))
    R.cov['text_channel'] = {'cases': len(items), 'differences': bad, 'skipped_model_parser_reads_another_tree': skipped}
    return bad


def replay_text(R, d):
    kd, f, logic = kd_from_json(d['kripke']), detuple(d['formula']), d['logic']
    K = kd_py(kd)
    rt = impl_mc(logic, K, d['text'], as_text=True, parser=None if d.get('default_parser') else shared_parser(logic))
    ro = impl_mc(logic, K, f)
    outs = model_batch([model_cmd(logic, K, f), ['parse', logic, Q(d['text'])]])
    m = model_obs(outs[0])
    print('text          :', repr(d['text']))
    print('intended tree :', fstr(f))
    print('model parser  :', outs[1][0], fstr(fparse(outs[1][1])) if outs[1][0] == 'ok' else outs[1][1])
    r = call(lambda: shared_parser(logic)(d['text']))
    print('library parser:', r[0], fstr(tree_of(r[1])) if r[0] == 'ok' else r[1])
    print('impl (text)   :', rt)
    print('impl (object) :', ro)
    print('model         :', m)
    if tuple(rt) != m or tuple(ro) != m:
        R.violation('replayed: implementation differs from the proved model', d)


# ---------- structures that already carry labels spelled like the fresh names of the CTL* elimination ----------
def stale_label_cases(rng, n, gen):
    """structures that ALREADY carry labels spelled like the fresh names the elimination will generate for the quantified
    subformulas of the very formula being checked ('[' + str(subformula) + ']' and its first fallback), on arbitrary states"""
    import pyModelChecking.CTLS as CTLS
    out = []
    for _ in range(n):
        kd = rand_kripke(rng, rng.randint(2, 5))
        f = gen()
        qs = [g for g in subformulas(f) if g[0] in ('A', 'E')]
        if not qs:
            continue
        kd = dict(kd)
        kd['L'] = {s: list(ls) for s, ls in kd['L'].items()}
        for g in rng.sample(qs, min(len(qs), 2)):
            name = '[%s]' % str(to_py(g, CTLS))
            for nm in ([name] if rng.random() < 0.7 else [name, '[%s(0)]' % name]):
                for s in kd['S']:
                    if rng.random() < 0.5:
                        kd['L'][s].append(nm)
        out.append((kd, f))
    return out


# ---------- live structures: ONE Kripke object queried, edited by its owner, queried again; formula OBJECTS reused ----------
def relation_holds(rel, states, lhs, rhs):
    """lhs, rhs answers ('ok', sorted list); the identity as sets within K.states()"""
    if lhs[0] != 'ok' or any(r[0] != 'ok' for r in rhs):
        return False
    S = set(states)
    a = set(lhs[1])
    rs = [set(r[1]) for r in rhs]
    if rel == 'eq':
        return a == rs[0]
    if rel == 'compl':
        return a == S - rs[0]
    if rel == 'inter':
        b = set(S)
        for r in rs:
            b &= r
        return a == b
    if rel == 'union':
        b = set()
        for r in rs:
            b |= r
        return a == b
    if rel == 'cunion':
        return a == (S - rs[0]) | rs[1]
    raise ValueError(rel)


def checkers_for(tree, objlang):
    """the modelcheck functions an object of language module objlang with this tree may be passed to (the casts C04 exercises:
    CTL <- PL/CTLS/LTL, LTL <- CTLS, CTLS <- CTL/LTL)"""
    out = []
    if is_ctl_state(tree) and (objlang in ('CTL', 'CTLS') or (objlang == 'LTL' and is_ltl_state(tree)) or (objlang == 'PL' and is_pl(tree))):
        out.append('CTL')
    if is_ltl_state(tree) and objlang in ('LTL', 'CTLS'):
        out.append('LTL')
    if is_ctls_state(tree) and objlang in ('CTLS', 'CTL', 'LTL') and (objlang != 'LTL' or is_ltl_state(tree)) and (objlang != 'CTL' or is_ctl_state(tree)):
        out.append('CTLS')
    return out


def subst_refs(t, parts):
    if t[0] == 'ref':
        return parts[t[1]]
    if t[0] in ('true', 'false', 'ap'):
        return t
    return (t[0],) + tuple(subst_refs(g, parts) for g in t[1:])


def tcount(f):
    return sum(1 for x in subformulas(f) if x[0] in TEMPORAL)


def gen_until(rng, gen, ok, tries=200):
    for _ in range(tries):
        x = gen()
        if ok(x):
            return x
    return x


def gen_session(rng, mode, aps=('p', 'q')):
    """one session = (structure, presentation, parts/pool of formulas, steps).  mode: 'CTL' | 'LTL' | 'CTLS' (the checker under
    test; the others are called now and then on the same objects) | 'ALL' (every formula goes through every checker it belongs to)"""
    REF0, REF1, REF2 = ('ref', 0), ('ref', 1), ('ref', 2)
    kind = rng.choice({'ALL': ['TRI', 'TRI', 'CTL', 'LTL', 'CTLS'], 'CTL': ['CTL'] * 8 + ['TRI'] * 2, 'LTL': ['LTL'] * 8 + ['TRI'] * 2,
                       'CTLS': ['CTLS'] * 7 + ['CTL', 'LTL', 'TRI']}[mode])        # (formulas of a smaller logic reach the checker under test through its casts)
    bop = rng.choice(['and', 'or'])
    brel = {'and': 'inter', 'or': 'union'}[bop]
    if kind == 'CTL':
        f = gen_until(rng, lambda: rand_ctl(rng, rng.randint(1, 2), aps), has_temporal)
        g = rand_ctl(rng, rng.randint(0, 1), aps)
        parts = [f, g]
        q, op = rng.choice('AE'), rng.choice('XFGUR')
        a, b = rng.sample([REF0, REF1], 2)
        tq = (q, (op, a)) if op in 'XFG' else (q, (op, a, b))
        pool = [(REF0, None), (REF1, None), (('not', REF0), ('compl', [0])), ((bop, REF0, REF1), (brel, [0, 1])), (tq, None),
                (('imp', REF1, tq), ('cunion', [1, 4]))]
        objlang = 'CTL' if rng.random() < 0.7 else 'CTLS'
    elif kind == 'LTL':
        g = gen_until(rng, lambda: rand_path(rng, rng.randint(1, 2), aps), lambda x: has_temporal(x) and tcount(x) <= 2)
        h = gen_until(rng, lambda: rand_path(rng, 1, aps), lambda x: tcount(x) <= 1)
        parts = [g, h]
        op = rng.choice('XFGUR')
        a, b = rng.sample([REF0, REF1], 2)
        body = (op, a) if op in 'XFG' else (op, a, b)
        pool = [(('A', REF0), None), (('A', REF1), None), (('A', ('not', REF0)), None),
                (('A', ('and', REF0, REF1)), ('inter', [0, 1])), (('A', body), None), (('A', ('or', REF1, REF0)), None)]
        objlang = 'LTL' if rng.random() < 0.7 else 'CTLS'
    elif kind == 'CTLS':
        f = gen_until(rng, lambda: rand_ctls_state(rng, rng.randint(1, 3), aps),
                       lambda x: has_temporal(x) and tcount(x) <= 2 and any(y[0] in 'AE' and not is_ctl_state(y) for y in subformulas(x)))
        g = gen_until(rng, lambda: rand_ctls_state(rng, rng.randint(0, 2), aps), lambda x: tcount(x) <= 1)
        p = gen_until(rng, lambda: rand_path(rng, rng.randint(1, 2), aps, quant=True), lambda x: has_temporal(x) and tcount(x) <= 2)
        parts = [f, g, p]
        q, op = rng.choice('AE'), rng.choice('XFGUR')
        a, b = rng.sample([REF0, REF1], 2)
        tq = (q, (op, a)) if op in 'XFG' else (q, (op, a, b))
        pool = [(REF0, None), (REF1, None), (('not', REF0), ('compl', [0])), ((bop, REF0, REF1), (brel, [0, 1])), (tq, None),
                ((rng.choice('AE'), REF2), None), (('E', ('and', REF0, REF2)), None)]
        objlang = 'CTLS'
    else:   # TRI: A over a CTL path formula with propositional operands: a formula of all three logics
        f, g = rand_pl(rng, rng.randint(0, 1), aps), rand_pl(rng, rng.randint(0, 1), aps)
        parts = [f, g]
        ops = rng.sample('XFGUR', 3)
        pool = []
        for op in ops:
            a, b = rng.sample([REF0, REF1], 2)
            pool.append((('A', (op, a) if op in 'XFG' else (op, a, b)), None))
        objlang = rng.choice(['CTLS', 'CTLS', 'LTL', 'CTL'] if mode != 'LTL' else ['LTL', 'CTLS'])
        if objlang != 'LTL':
            pool.append((('not', pool[0][0]), ('compl', [0])))
            pool.append((('E', pool[1][0][1]), None))
    share = rng.random() < 0.6
    entries = []
    for t, rel in pool:
        tree = subst_refs(t, parts)
        if tcount(tree) > 4:
            tree, t, rel = subst_refs(pool[0][0], parts), pool[0][0], None
        entries.append({'tmpl': t if share else tree, 'tree': tree, 'rel': rel, 'checkers': checkers_for(tree, objlang)})
    n = rng.randint(1, 4)
    kd = rand_kripke(rng, n, aps)
    S, E, L = list(kd['S']), set(kd['R']), {s: set(ls) for s, ls in kd['L'].items()}
    steps, asked = [], []
    main = mode if mode != 'ALL' else None

    def logics_of(idx):
        cs = entries[idx]['checkers']
        if main is None:
            ls = list(cs)
        else:
            if main not in cs:
                return None
            ls = [main] + [c for c in cs if c != main and rng.random() < 0.15]
        rng.shuffle(ls)
        return ls

    def add_query():
        for _ in range(20):
            idx = rng.choice(asked) if asked and rng.random() < 0.65 else rng.randrange(len(entries))
            ls = logics_of(idx)
            if ls:
                break
        else:
            return
        texts = None
        if rng.random() < 0.2:
            try:
                texts = {lg: hand_text(entries[idx]['tree'], lg, rng) for lg in ls}
            except ValueError:
                texts = None
        asked.append(idx)
        steps.append(['q', idx, ls, 'text' if texts else 'obj', rng.choice(['clear', 'junk', 'all', 'pop', 'none']), texts])

    def add_sweep():
        qs = []
        for idx in range(len(entries)):
            cs = entries[idx]['checkers'] if main is None else [c for c in entries[idx]['checkers'] if c == main]
            if cs:
                qs.append([idx, rng.choice(cs)])
                asked.append(idx)
        steps.append(['sweep', qs, rng.choice(['clear', 'junk', 'all', 'none'])])

    def add_edit():
        r = rng.random()
        if r < 0.3:
            s, a = rng.choice(S), rng.choice(aps)
            if a in L[s]:
                L[s].discard(a)
                steps.append(['discard', s, a])
            else:
                L[s].add(a)
                steps.append(['add', s, a])
        elif r < 0.55:
            newL = {s: sorted(a for a in aps if rng.random() < 0.5) for s in S}
            cont = rng.choice(['set', 'set', 'frozenset', 'list', 'shared', 'mixed'])
            omit = [s for s in S if not newL[s] and rng.random() < 0.5]
            for s in S:
                L[s] = set(newL[s])
            steps.append(['relabel', [[s, newL[s]] for s in S if s not in omit], cont, rng.random() < 0.3])
        elif r < 0.8 or len(S) >= 6:
            free = [(a, b) for a in S for b in S if (a, b) not in E]
            if not free:
                return add_edit()
            e = rng.choice(free)
            E.add(e)
            steps.append(['edge', e[0], e[1]])
        else:
            new = len(S)
            succs = rng.sample(S + [new], rng.randint(1, min(2, len(S) + 1)))
            preds = rng.sample(S, rng.randint(0, min(2, len(S))))
            labs = sorted(a for a in aps if rng.random() < 0.5)
            S.append(new)
            L[new] = set(labs)
            for d in succs:
                E.add((new, d))
            for s in preds:
                E.add((s, new))
            steps.append(['newstate', new, succs, preds, labs, rng.choice(['dict', 'replace'])])

    for _ in range(rng.randint(1, 3)):
        add_query()
    if rng.random() < 0.5:
        add_sweep()
    for _ in range(rng.randint(2, 4)):
        for _ in range(rng.randint(1, 2)):
            add_edit()
        if rng.random() < 0.35:
            add_sweep()
        for _ in range(rng.randint(1, 3)):
            add_query()
    return {'mode': mode, 'kind': kind, 'kd': kd_json(kd), 'rename': rng.choice([None, None, None] + sorted(RENAMES)), 'alias': rng.random() < 0.2,
            'containers': rng.choice([None, None, None, 'frozenset', 'list', 'mixed']), 'objlang': objlang, 'parts': parts, 'pool': entries, 'steps': steps}


def _build_shared(t, L, partobjs):
    if t[0] == 'ref':
        return partobjs[t[1]]
    if t[0] in ('true', 'false', 'ap'):
        return to_py(t, L)
    return getattr(L, PYNAME[t[0]])(*[_build_shared(g, L, partobjs) for g in t[1:]])


def _safe_tree(o):
    try:
        return tree_of(o)
    except Exception as e:  # noqa
        return ('unreadable', type(e).__name__)


def _set_labels(K, s, labs):
    """the owner of K changes the label set of state s to labs through the public API, whatever container holds it"""
    cur = K.labels(s)
    if isinstance(cur, set):
        for a in list(cur):
            if a not in labs:
                cur.discard(a)
        for a in labs:
            cur.add(a)
    elif isinstance(cur, list):
        for a in list(cur):
            if a not in labs:
                cur.remove(a)
        for a in labs:
            if a not in cur:
                cur.append(a)
    else:
        K.labelling_function()[s] = type(cur)(sorted(labs))


def run_session(spec):
    """executes one session on the real library; returns the list of observation records (one per modelcheck call / failed edit)"""
    spec = detuple_spec(json.loads(json.dumps(spec)))
    kd = kd_from_json(spec['kd'])
    K, inv = build_K(kd, spec.get('alias'), spec.get('rename'), spec.get('containers'))
    ren = renaming(spec.get('rename'))
    num = inv.__getitem__
    L = lang_module(spec['objlang'])
    partobjs = [to_py(t, L) for t in spec['parts']]
    objs = [_build_shared(e['tmpl'], L, partobjs) for e in spec['pool']]
    watched = [(o, t) for o, t in zip(partobjs, spec['parts'])] + [(o, e['tree']) for o, e in zip(objs, spec['pool'])]
    recs = []

    def query(si, idx, logic, channel, clobber, text):
        M = lang_module(logic)
        ks = kripke_sx(K, num)
        states = sorted(num(s) for s in K.states())
        snap0 = kripke_snapshot(K)
        if channel == 'text':
            r = call(lambda: M.modelcheck(K, text, parser=shared_parser(logic)))
        else:
            r = call(lambda: M.modelcheck(K, objs[idx]))
        ans = canon_answer(r, num)
        snap1 = kripke_snapshot(K)
        if r[0] == 'ok' and isinstance(r[1], set):
            v = r[1]
            if clobber == 'clear':
                v.clear()
            elif clobber == 'junk':
                v.add('#junk')
            elif clobber == 'all':
                v.update(list(K.states()))
                v.add(('#', 0))
            elif clobber == 'pop' and v:
                v.pop()
        changed = [i for i, (o, t) in enumerate(watched) if _safe_tree(o) != t]
        recs.append({'step': si, 'idx': idx, 'logic': logic, 'channel': channel, 'ans': tuple(ans), 'ks': ks, 'states': states,
                     'unchanged': snap1 == snap0, 'result_is_callers': kripke_snapshot(K) == snap1,
                     'changed': [('part %d' % i) if i < len(partobjs) else ('pool %d' % (i - len(partobjs))) for i in changed],
                     'changed_to': [fstr(_safe_tree(watched[i][0])) if _safe_tree(watched[i][0])[0] != 'unreadable' else 'unreadable' for i in changed[:2]]})

    for si, st in enumerate(spec['steps']):
        k = st[0]
        try:
            if k == 'q':
                for lg in st[2]:
                    query(si, st[1], lg, st[3], st[4], (st[5] or {}).get(lg))
            elif k == 'sweep':
                for idx, lg in st[1]:
                    query(si, idx, lg, 'obj', st[2], None)
            elif k == 'add':
                _set_labels(K, ren(st[1]), set(map(str, K.labels(ren(st[1])))) | {st[2]})
            elif k == 'discard':
                _set_labels(K, ren(st[1]), set(map(str, K.labels(ren(st[1])))) - {st[2]})
            elif k == 'relabel':
                cont, newL, shared = st[2], {}, {}
                for i, (s, labs) in enumerate(st[1]):
                    c = cont if cont != 'mixed' else ('set', 'frozenset', 'list', 'tuple')[i % 4]
                    if c == 'shared':
                        newL[ren(s)] = shared.setdefault(tuple(labs), set(labs))
                    else:
                        newL[ren(s)] = {'set': set, 'frozenset': frozenset, 'list': list, 'tuple': tuple}[c](labs)
                if st[3]:
                    newL[('not', 'a', 'state')] = {'p', 'q', 'zz'}
                K.replace_labelling_function(newL)
            elif k == 'edge':
                K.add_edge(ren(st[1]), ren(st[2]))
            elif k == 'newstate':
                new = ren(st[1])
                inv[new] = st[1]
                for d in st[2]:
                    K.add_edge(new, ren(d))
                for s in st[3]:
                    K.add_edge(ren(s), new)
                if st[5] == 'dict':
                    K.labelling_function()[new] = set(st[4])
                else:
                    nl = dict(K.labelling_function())
                    if st[4]:
                        nl[new] = set(st[4])
                    K.replace_labelling_function(nl)
        except Exception as e:  # noqa  (an edit of the owner through the public API must not fail)
            recs.append({'step': si, 'edit_error': '%s: %s' % (type(e).__name__, str(e)[:200])})
    return recs


def detuple_spec(spec):
    spec['parts'] = [detuple(t) for t in spec['parts']]
    for e in spec['pool']:
        e['tmpl'] = detuple(e['tmpl'])
        e['tree'] = detuple(e['tree'])
    return spec


def _session_chunk(chunk):
    return [run_session(spec) for spec in chunk]


def _rec_model_cmd(spec, rec):
    tree = detuple(spec['pool'][rec['idx']]['tree'])
    if rec['logic'] == 'CTL':
        return ['ctl', rec['ks'], fsx(tree)]
    if rec['logic'] == 'LTL':
        return ['ltl', rec['ks'], fsx(tree)]
    return ['ctls', spec['objlang'], rec['ks'], fsx(tree)]


def describe_step(st):
    k = st[0]
    if k == 'q':
        return 'query pool[%d] through %s (%s channel), then %s the returned set' % (st[1], '/'.join(st[2]), st[3], st[4])
    if k == 'sweep':
        return 'query ' + ', '.join('pool[%d] by %s' % (i, lg) for i, lg in st[1])
    if k in ('add', 'discard'):
        return 'owner: labels(%s) %s %r' % (st[1], k, st[2])
    if k == 'relabel':
        return 'owner: replace_labelling_function(%s) with %s containers%s' % (dict((s, l) for s, l in st[1]), st[2], ' + an entry for a non-state' if st[3] else '')
    if k == 'edge':
        return 'owner: add_edge(%s, %s)' % (st[1], st[2])
    return 'owner: new state %s with edges to %s and from %s, labels %s (installed via %s)' % (st[1], st[2], st[3], st[4], st[5])


def judge_session(spec, recs, outs):
    """-> list of (step, kind, message, details) problems of one session; outs: model answers of the query records in order"""
    probs = []
    qrecs = [r for r in recs if 'edit_error' not in r]
    for r in recs:
        if 'edit_error' in r:
            probs.append((r['step'], 'edit', 'an edit of the owner through the public API raised %s' % r['edit_error'], {}))
    by_step = {}
    for r, o in zip(qrecs, outs):
        m = model_obs(o)
        r['model'] = m
        what = 'pool[%d] = %s' % (r['idx'], fstr(detuple(spec['pool'][r['idx']]['tree'])))
        det = {'query': what, 'logic': r['logic'], 'channel': r['channel'], 'impl': r['ans'], 'model': m}
        if r['changed']:
            probs.append((r['step'], 'formula', '%s.modelcheck rewrote a formula object of the caller in place (%s is now %s)' % (r['logic'], r['changed'][0], r['changed_to'][:1]), det))
        if not r['unchanged']:
            probs.append((r['step'], 'K', '%s.modelcheck modified the structure it was given' % r['logic'], det))
        if not r['result_is_callers']:
            probs.append((r['step'], 'alias', 'the set returned by %s.modelcheck is part of K: editing it changed the structure' % r['logic'], det))
        if tuple(r['ans']) != m:
            probs.append((r['step'], 'answer', '%s.modelcheck on a live structure (queried, edited by its owner, queried again; formula objects reused) '
                          'differs from the proved model on the structure AS IT IS NOW: %s' % (r['logic'], what), det))
        by_step.setdefault(r['step'], []).append(r)
    for si, rs in by_step.items():
        st = spec['steps'][si]
        if st[0] == 'q' and len(rs) > 1:
            a0 = rs[0]
            for r in rs[1:]:
                if not relation_holds('eq', a0['states'], a0['ans'], [r['ans']]):
                    probs.append((si, 'law', 'the SAME formula object through %s and %s on the same structure: different sets' % (a0['logic'], r['logic']),
                                  {'query': 'pool[%d]' % a0['idx'], a0['logic']: a0['ans'], r['logic']: r['ans']}))
        if st[0] == 'sweep':
            ans = {r['idx']: r for r in rs}
            for idx, r in ans.items():
                rel = spec['pool'][idx]['rel']
                if rel and all(j in ans for j in rel[1]):
                    if not relation_holds(rel[0], r['states'], r['ans'], [ans[j]['ans'] for j in rel[1]]):
                        probs.append((si, 'law', 'law %s fails on a live structure: pool[%d] vs pool%s' % (rel[0], idx, rel[1]),
                                      {'lhs': r['ans'], 'rhs': [ans[j]['ans'] for j in rel[1]], 'checkers': [r['logic']] + [ans[j]['logic'] for j in rel[1]]}))
    probs.sort(key=lambda p: p[0])
    return probs


def run_live(R, mode, n, label=''):
    """n sessions on live structures (gen_session/run_session); every answer against the proved model on the presentation read back at
    the time of the call; formula objects, K and the caller's ownership of results monitored directly"""
    rng = R.rng
    specs = [gen_session(rng, mode) for _ in range(n)]
    allrecs = pmap_chunks(_session_chunk, specs, per=max(2, min(10, n // (3 * n_jobs()) + 1)))
    cmds, spans = [], []
    for spec, recs in zip(specs, allrecs):
        q = [_rec_model_cmd(spec, r) for r in recs if 'edit_error' not in r]
        spans.append((len(cmds), len(cmds) + len(q)))
        cmds += q
    outs = model_batch_parallel(cmds)
    bad = 0
    failing = []
    hist = R.cov.setdefault('live_structures' + label, {'sessions': 0, 'modelcheck_calls': 0, 'calls_after_an_edit': 0, 'calls_repeating_an_earlier_query_after_an_edit': 0,
                                                         'edits': {}, 'state_presentations': {}, 'label_containers': {}, 'object_language': {}, 'checker': {},
                                                         'text_channel_calls': 0, 'sessions_with_problems': 0})
    for spec, recs, (a, b) in zip(specs, allrecs, spans):
        probs = judge_session(spec, recs, outs[a:b])
        hist['sessions'] += 1
        for st in spec['steps']:
            if st[0] not in ('q', 'sweep'):
                hist['edits'][st[0]] = hist['edits'].get(st[0], 0) + 1
        for key, val in (('state_presentations', spec['rename'] or '0..n-1'), ('label_containers', spec['containers'] or ('shared sets' if spec['alias'] else 'sets')),
                         ('object_language', spec['objlang'])):
            hist[key][val] = hist[key].get(val, 0) + 1
        first_edit = min([i for i, st in enumerate(spec['steps']) if st[0] not in ('q', 'sweep')] or [10 ** 9])
        seen_before = set()
        for r in recs:
            if 'edit_error' in r:
                continue
            R.evaluations += 1
            hist['modelcheck_calls'] += 1
            hist['checker'][r['logic']] = hist['checker'].get(r['logic'], 0) + 1
            if r['channel'] == 'text':
                hist['text_channel_calls'] += 1
            if r['step'] > first_edit:
                hist['calls_after_an_edit'] += 1
                if (r['idx'], r['logic']) in seen_before:
                    hist['calls_repeating_an_earlier_query_after_an_edit'] += 1
                if not probs and r['ans'][0] == 'ok' and 0 < len(r['ans'][1]) < len(r['states']):
                    R.nontriv(('live', mode, json.dumps(spec['kd'], sort_keys=True), repr(spec['steps'][:r['step'] + 1]), r['idx'], r['logic']))
            seen_before.add((r['idx'], r['logic']))
        if probs:
            bad += 1
            hist['sessions_with_problems'] += 1
            own = [p for p in probs if mode == 'ALL' or p[3].get('logic') == mode]      # headline: a problem of the checker under test
            failing.append((0 if own else 1, bad, spec, (own or probs)[0], probs))
        elif hist['sessions'] <= 2:
            R.sample({'live_session': {'structure': spec['kd'], 'states_presented_as': spec['rename'] or '0..n-1', 'object_language': spec['objlang'],
                                       'pool': [fstr(detuple(e['tree'])) for e in spec['pool']], 'steps': [describe_step(st) for st in spec['steps']]}}, limit=8)
    for _, _, spec, (si, kind, msg, det), probs in sorted(failing, key=lambda x: x[:2])[:6]:
        R.violation(msg, {'stream': 'live structures', 'logic': mode, 'session': spec, 'step': si, 'step_description': describe_step(spec['steps'][si]),
                          'kind': kind, 'details': det, 'all_problems': [(p[0], p[1], p[2][:160]) for p in probs[:8]]})
    return bad


def replay_session(R, d):
    spec = d['session']
    recs = run_session(spec)
    spec = detuple_spec(json.loads(json.dumps(spec)))
    outs = model_batch([_rec_model_cmd(spec, r) for r in recs if 'edit_error' not in r])
    probs = judge_session(spec, recs, outs)
    print('structure:', spec['kd'], ' states presented as:', spec['rename'] or '0..n-1', ' label containers:', spec['containers'] or ('shared sets' if spec['alias'] else 'sets'))
    print('formula objects (language module %s, %s):' % (spec['objlang'], 'composed from shared part objects' if any('ref' in json.dumps(e['tmpl']) for e in spec['pool']) else 'built separately'))
    for i, e in enumerate(spec['pool']):
        print('   pool[%d] = %s' % (i, fstr(e['tree'])))
    by = {}
    for r in recs:
        by.setdefault(r['step'], []).append(r)
    for si, st in enumerate(spec['steps']):
        print('step %2d: %s' % (si, describe_step(st)))
        for r in by.get(si, []):
            if 'edit_error' in r:
                print('          RAISED', r['edit_error'])
            else:
                print('          %-4s pool[%d]  impl %s   model %s%s%s' % (r['logic'], r['idx'], r['ans'], r['model'], '' if tuple(r['ans']) == r['model'] else '   <-- DIFFERENT',
                                                                      ('   formula objects changed: %s -> %s' % (r['changed'], r['changed_to'])) if r['changed'] else ''))
    for p in probs[:6]:
        print('PROBLEM at step %d: %s' % (p[0], p[2]))
    if probs:
        R.violation('replayed: ' + probs[0][2], d)
