"""C04 - the three checkers agree with each other and obey the semantic laws.
Theorems (Properties/C04.v): corollaries of C01-C03 (exactness), C05 (rewriting) and C09 (print/parse):
agreement on the shared fragments, text = object, not/and/or/implies = complement/intersection/union/
complement-union, A g = not E not g (and the CTL pairs), the fixpoint expansion laws.

Correspondence: every law is evaluated PURELY ON THE IMPLEMENTATION - both sides go through the real
CTL/LTL/CTLS.modelcheck (as native objects, as objects of another language module that are cast, as text in
CTL* notation `str(f)` and as hand-written concrete syntax) and the two sides are compared as sets.  A failing
identity is a violation with (K, law, f, g) as replay.  In addition every individual answer is compared with
the proved model run on the same presentation of K, so that a law that holds "by accident" on two equally
wrong answers is still caught."""
from common import *
from mccheck import *
from c04_extra import *
LEVEL = 'proof'

T = ('true',)
FALSE = ('false',)
P, QQ = ('ap', 'p'), ('ap', 'q')
LEAVES = [P, QQ, T, FALSE]


def N(f):
    return ('not', f)


def AND(*a):
    return ('and',) + tuple(a)


def OR(*a):
    return ('or',) + tuple(a)


def IMP(a, b):
    return ('imp', a, b)


def QO(q, op, *a):
    return (q, (op,) + tuple(a))


# ----------------------------------------------------------------------------------------
# concrete syntax (hand_text: mccheck)
# ----------------------------------------------------------------------------------------
def star_text(f):
    """str(f) of the CTL* object: the library's own printed notation"""
    import pyModelChecking.CTLS as CTLS
    return str(to_py(f, CTLS))


# ----------------------------------------------------------------------------------------
# queries: (logic, kind, formula tree, text)    kind: obj | x:<Lang> | text | text0
# ----------------------------------------------------------------------------------------
def q_obj(logic, f):
    return (logic, 'obj', f, None)


def q_x(logic, lang, f):
    return (logic, 'x:' + lang, f, None)


def q_ops(logic, f, k):
    """f built through the operator overloads &, |, ~ with raw str / bool shorthands (c04_extra.to_py_ops, choices from Random(k))"""
    return (logic, 'ops:%d' % k, f, None)


def eval_query(kd, q):
    """a fresh Kripke object of kd (under kd['states']: identity-hashed objects, strings, tuples, ...) for every query; the answer is
    reported in state NUMBERS (a returned element that is not a state of K - e.g. a copy of an identity-hashed state - is an error)"""
    logic, kind, f, text = q
    L = lang_module(logic)
    K, num = present(kd)
    if kind == 'obj':
        arg = to_py(f, L)
        r = call(lambda: L.modelcheck(K, arg))
    elif kind.startswith('x:'):
        arg = to_py(f, lang_module(kind[2:]))
        r = call(lambda: L.modelcheck(K, arg))
    elif kind.startswith('ops:'):
        r = call(lambda: to_py_ops(f, L, int(kind[4:])))
        if r[0] == 'ok':
            arg = r[1]
            r = call(lambda: L.modelcheck(K, arg))
        else:
            r = ('err', 'building-with-operators:' + r[1])
    elif kind == 'text':
        r = call(lambda: L.modelcheck(K, text, parser=shared_parser(logic)))
    else:
        r = call(lambda: L.modelcheck(K, text))
    return canon_answer(r, num)


def model_cmd_q(ks, q):
    logic, kind, f, _ = q
    if logic == 'CTL':
        return ['ctl', ks, fsx(f)]
    if logic == 'LTL':
        return ['ltl', ks, fsx(f)]
    return ['ctls', kind[2:] if kind.startswith('x:') else 'CTLS', ks, fsx(f)]


def eval_chunk(chunk):
    """worker: [(kd, [query...])] -> [(kripke_sx, states, [answers])]"""
    out = []
    for kd, qs in chunk:
        K, num = present(kd)
        out.append((kripke_sx(K, num), sorted((num or (lambda v: v))(s) for s in K.states()), [eval_query(kd, q) for q in qs]))
    return out


# ----------------------------------------------------------------------------------------
# law instances
# ----------------------------------------------------------------------------------------
class Laws:
    """collects, for one (K, f, g, h), the law instances (name, relation, lhs query, rhs queries)"""

    def __init__(self, rng, family, params):
        self.rng = rng
        self.family = family
        self.params = params
        self.items = []

    def add(self, name, rel, lhs, rhs):
        self.items.append((name, rel, lhs, list(rhs)))

    def eq(self, name, a, b):
        self.add(name, 'eq', a, [b])

    def texts(self, logic, f, tag=''):
        """text = object, both for the printed CTL* notation and for hand-written syntax"""
        o = q_obj(logic, f)
        s = star_text(f)
        kind = 'text0' if self.rng.random() < 0.12 else 'text'     # text0: modelcheck builds its own default Parser
        self.eq('text:str(f):' + logic + tag, (logic, kind, f, s), o)
        self.eq('text:handwritten:' + logic + tag, (logic, 'text', f, hand_text(f, logic, self.rng)), o)

    def boolean(self, logic, wrap, f, g, h):
        """not/and/or/implies of state formulas; wrap embeds the operand (identity, or A(.) for LTL over PL operands)"""
        o = lambda x: q_obj(logic, wrap(x))
        self.add('not:' + logic, 'compl', o(N(f)), [o(f)])
        self.add('and:' + logic, 'inter', o(AND(f, g)), [o(f), o(g)])
        self.add('or:' + logic, 'union', o(OR(f, g)), [o(f), o(g)])
        self.add('implies:' + logic, 'cunion', o(IMP(f, g)), [o(f), o(g)])
        if h is not None:
            self.add('and3:' + logic, 'inter', o(AND(f, g, h)), [o(f), o(g), o(h)])
            self.add('or3:' + logic, 'union', o(OR(f, g, h)), [o(f), o(g), o(h)])
            self.add('not-not:' + logic, 'eq', o(N(N(f))), [o(f)])


def unfold_state(q, op, f, g):
    """right-hand side of the fixpoint expansion of q(op f g) with state-formula operands"""
    if op == 'U':
        me = QO(q, 'U', f, g)
        return me, OR(g, AND(f, QO(q, 'X', me)))
    if op == 'R':
        me = QO(q, 'R', f, g)
        return me, AND(g, OR(f, QO(q, 'X', me)))
    if op == 'G':
        me = QO(q, 'G', f)
        return me, AND(f, QO(q, 'X', me))
    me = QO(q, 'F', f)
    return me, OR(f, QO(q, 'X', me))


def unfold_path(op, g, h):
    """path-level expansion: (body, expanded body)"""
    if op == 'U':
        me = ('U', g, h)
        return me, OR(h, AND(g, ('X', me)))
    if op == 'R':
        me = ('R', g, h)
        return me, AND(h, OR(g, ('X', me)))
    if op == 'G':
        me = ('G', g)
        return me, AND(g, ('X', me))
    me = ('F', g)
    return me, OR(g, ('X', me))


def ctl_duals(f, g):
    """(name, lhs, rhs) CTL duality pairs"""
    return [
        ('AX=notEXnot', QO('A', 'X', f), N(QO('E', 'X', N(f)))),
        ('AF=notEGnot', QO('A', 'F', f), N(QO('E', 'G', N(f)))),
        ('AG=notEFnot', QO('A', 'G', f), N(QO('E', 'F', N(f)))),
        ('EG=notAFnot', QO('E', 'G', f), N(QO('A', 'F', N(f)))),
        ('EF=E(trueU)', QO('E', 'F', f), QO('E', 'U', T, f)),
        ('AF=A(trueU)', QO('A', 'F', f), QO('A', 'U', T, f)),
        ('AU=not(EU or EG)', QO('A', 'U', f, g), N(OR(QO('E', 'U', N(g), AND(N(f), N(g))), QO('E', 'G', N(g))))),
        ('AR=notEUnot', QO('A', 'R', f, g), N(QO('E', 'U', N(f), N(g)))),
        ('ER=notAUnot', QO('E', 'R', f, g), N(QO('A', 'U', N(f), N(g)))),
        ('EU=notARnot', QO('E', 'U', f, g), N(QO('A', 'R', N(f), N(g)))),
    ]


def laws_pl(rng, g, h, k):
    """g, h, k propositional: they are formulas of all logics (as `A g` in LTL)"""
    W = Laws(rng, 'PL', (g, h, k))
    base = q_obj('CTL', g)
    W.eq('agree:CTL=CTLS', base, q_obj('CTLS', g))
    W.eq('agree:CTL=LTL(A.)', base, q_obj('LTL', ('A', g)))
    W.eq('agree:CTL=CTLS(A.)', base, q_obj('CTLS', ('A', g)))
    W.eq('agree:CTL=CTLS(E.)', base, q_obj('CTLS', ('E', g)))
    W.eq('cast:CTL<-PL', q_x('CTL', 'PL', g), base)
    W.eq('cast:CTL<-CTLS', q_x('CTL', 'CTLS', g), base)
    W.eq('cast:CTL<-LTL', q_x('CTL', 'LTL', g), base)
    W.eq('cast:CTLS<-CTL', q_x('CTLS', 'CTL', g), base)
    W.eq('cast:LTL<-CTLS', q_x('LTL', 'CTLS', ('A', g)), base)
    W.eq('cast:CTLS<-LTL', q_x('CTLS', 'LTL', ('A', g)), base)
    W.texts('CTL', g)
    W.texts('CTLS', g)
    W.texts('LTL', ('A', g))
    ident = lambda x: x
    W.boolean('CTL', ident, g, h, k)
    W.boolean('CTLS', ident, g, h, k)
    W.boolean('LTL', lambda x: ('A', x), g, h, k)
    return W


def laws_ctl(rng, f, g, h):
    """f, g, h CTL state formulas (also CTL* state formulas)"""
    W = Laws(rng, 'CTL', (f, g, h))
    for x in (f, g):
        W.eq('agree:CTL=CTLS', q_obj('CTL', x), q_obj('CTLS', x))
    W.eq('cast:CTL<-CTLS', q_x('CTL', 'CTLS', f), q_obj('CTL', f))
    W.eq('cast:CTLS<-CTL', q_x('CTLS', 'CTL', f), q_obj('CTLS', f))
    W.texts('CTL', f)
    W.texts('CTLS', f)
    ident = lambda x: x
    W.boolean('CTL', ident, f, g, h)
    W.boolean('CTLS', ident, f, g, h)
    for logic in ('CTL', 'CTLS'):
        for name, l, r in ctl_duals(f, g):
            W.eq('dual:%s:%s' % (name, logic), q_obj(logic, l), q_obj(logic, r))
        for q in 'AE':
            for op in 'URGF':
                l, r = unfold_state(q, op, f, g)
                W.eq('unfold:%s%s:%s' % (q, op, logic), q_obj(logic, l), q_obj(logic, r))
    # the quantified formulas themselves through both checkers
    for q in 'AE':
        for op in 'XFGUR':
            x = QO(q, op, f) if op in 'XFG' else QO(q, op, f, g)
            W.eq('agree:CTL=CTLS', q_obj('CTL', x), q_obj('CTLS', x))
    x = QO(rng.choice('AE'), rng.choice('UR'), f, g)
    W.texts('CTL', x, ':quantified')
    W.texts('CTLS', x, ':quantified')
    return W


def laws_ltl(rng, g, h, f, n_unfold=4):
    """g, h LTL path formulas, f propositional; n_unfold of the four path-level expansions are included"""
    W = Laws(rng, 'LTL', (g, h, f))
    Ag, Ah = ('A', g), ('A', h)
    for x in (Ag, Ah):
        W.eq('agree:LTL=CTLS', q_obj('LTL', x), q_obj('CTLS', x))
    W.eq('cast:LTL<-CTLS', q_x('LTL', 'CTLS', Ag), q_obj('LTL', Ag))
    W.eq('cast:CTLS<-LTL', q_x('CTLS', 'LTL', Ag), q_obj('CTLS', Ag))
    W.texts('LTL', Ag)
    W.texts('CTLS', Ag)
    for logic in ('LTL', 'CTLS'):
        o = lambda x: q_obj(logic, x)
        W.add('A-and:' + logic, 'inter', o(('A', AND(g, h))), [o(Ag), o(Ah)])
        W.add('A(state or path):' + logic, 'union', o(('A', OR(f, g))), [q_obj('CTL', f), o(Ag)])
        W.add('A(state implies path):' + logic, 'cunion', o(('A', IMP(f, g))), [q_obj('CTL', f), o(Ag)])
        W.eq('A-not-not:' + logic, o(('A', N(N(g)))), o(Ag))
    W.eq('dual:A=notEnot:CTLS', q_obj('CTLS', Ag), q_obj('CTLS', N(('E', N(g)))))
    W.eq('dual:E=notAnot:CTLS', q_obj('CTLS', ('E', g)), q_obj('CTLS', N(('A', N(g)))))
    W.add('dual:LTL(A g)=compl CTLS(E not g)', 'compl', q_obj('LTL', Ag), [q_obj('CTLS', ('E', N(g)))])
    W.add('dual:CTLS(E g)=compl LTL(A not g)', 'compl', q_obj('CTLS', ('E', g)), [q_obj('LTL', ('A', N(g)))])
    W.add('E-or:CTLS', 'union', q_obj('CTLS', ('E', OR(g, h))), [q_obj('CTLS', ('E', g)), q_obj('CTLS', ('E', h))])
    for op in sorted(rng.sample('URGF', n_unfold)):
        body, exp = unfold_path(op, g, h)
        W.eq('unfold-path:A%s:LTL' % op, q_obj('LTL', ('A', body)), q_obj('LTL', ('A', exp)))
        W.eq('unfold-path:A%s:CTLS' % op, q_obj('CTLS', ('A', body)), q_obj('CTLS', ('A', exp)))
        W.eq('unfold-path:E%s:CTLS' % op, q_obj('CTLS', ('E', body)), q_obj('CTLS', ('E', exp)))
        W.eq('agree:LTL=CTLS', q_obj('LTL', ('A', body)), q_obj('CTLS', ('A', body)))
    return W


def laws_tri(rng, f, g):
    """f, g propositional: A op(f, g) is a formula of all three logics, E op(f, g) of CTL and CTL*"""
    W = Laws(rng, 'A-over-CTL-path', (f, g))
    for op in 'XFGUR':
        a = QO('A', op, f) if op in 'XFG' else QO('A', op, f, g)
        e = ('E', a[1])
        W.eq('agree3:CTL=LTL:A' + op, q_obj('CTL', a), q_obj('LTL', a))
        W.eq('agree3:CTL=CTLS:A' + op, q_obj('CTL', a), q_obj('CTLS', a))
        W.eq('agree3:LTL=CTLS:A' + op, q_obj('LTL', a), q_obj('CTLS', a))
        W.eq('agree:CTL=CTLS:E' + op, q_obj('CTL', e), q_obj('CTLS', e))
        W.eq('dual:A=notEnot:CTLS', q_obj('CTLS', a), q_obj('CTLS', N(('E', N(a[1])))))
        W.add('dual:LTL(A g)=compl CTLS(E not g)', 'compl', q_obj('LTL', a), [q_obj('CTLS', ('E', N(a[1])))])
        if op != 'X':
            l, r = unfold_state('A', op, f, g)
            W.eq('unfold3:LTL(A%s)=CTL(expansion)' % op, q_obj('LTL', l), q_obj('CTL', r))
            W.eq('unfold3:LTL(A%s)=CTLS(expansion)' % op, q_obj('LTL', l), q_obj('CTLS', r))
    for name, l, r in ctl_duals(f, g):
        if l[0] == 'A':
            W.eq('dual3:LTL(%s)' % name, q_obj('LTL', l), q_obj('CTL', r))
    op = rng.choice('XFGUR')
    a = QO('A', op, f) if op in 'XFG' else QO('A', op, f, g)
    for logic in ('CTL', 'LTL', 'CTLS'):
        W.texts(logic, a)
    W.eq('cast:CTL<-LTL', q_x('CTL', 'LTL', a), q_obj('CTL', a))
    W.eq('cast:CTL<-CTLS', q_x('CTL', 'CTLS', a), q_obj('CTL', a))
    W.eq('cast:LTL<-CTLS', q_x('LTL', 'CTLS', a), q_obj('LTL', a))
    W.eq('cast:CTLS<-CTL', q_x('CTLS', 'CTL', a), q_obj('CTLS', a))
    W.eq('cast:CTLS<-LTL', q_x('CTLS', 'LTL', a), q_obj('CTLS', a))
    return W


def laws_ctls(rng, f, g, p):
    """f, g CTL* state formulas (nested quantifiers, path operators nested arbitrarily), p a CTL* path formula"""
    W = Laws(rng, 'CTLS', (f, g, p))
    W.texts('CTLS', f)
    W.boolean('CTLS', lambda x: x, f, g, None)
    W.eq('dual:A=notEnot:CTLS', q_obj('CTLS', ('A', p)), q_obj('CTLS', N(('E', N(p)))))
    W.eq('dual:E=notAnot:CTLS', q_obj('CTLS', ('E', p)), q_obj('CTLS', N(('A', N(p)))))
    W.texts('CTLS', ('A', p), ':quantified')
    for q in 'AE':
        for op in 'URGF':
            l, r = unfold_state(q, op, f, g)
            W.eq('unfold:%s%s:CTLS' % (q, op), q_obj('CTLS', l), q_obj('CTLS', r))
        op = rng.choice('URGF')
        body, exp = unfold_path(op, p, f)
        W.eq('unfold-path:%s%s:CTLS' % (q, op), q_obj('CTLS', (q, body)), q_obj('CTLS', (q, exp)))
    W.add('A(state or path):CTLS', 'union', q_obj('CTLS', ('A', OR(f, p))), [q_obj('CTLS', f), q_obj('CTLS', ('A', p))])
    W.add('E(state and path):CTLS', 'inter', q_obj('CTLS', ('E', AND(f, p))), [q_obj('CTLS', f), q_obj('CTLS', ('E', p))])
    return W


def laws_stale(rng, f, g):
    """K already carries labels spelled like the fresh names the CTL* elimination generates for quantified subformulas of f
    ('[E(G(p))]', ...): CTL / LTL (which never look at such labels) and CTL* must still agree, and the Boolean laws must hold"""
    W = Laws(rng, 'stale-fresh-looking-labels', (f, g))
    if is_ctl_state(f):
        W.eq('agree:CTL=CTLS', q_obj('CTL', f), q_obj('CTLS', f))
        W.eq('cast:CTLS<-CTL', q_x('CTLS', 'CTL', f), q_obj('CTL', f))
        W.texts('CTL', f)
    if is_ltl_state(f):
        W.eq('agree:LTL=CTLS', q_obj('LTL', f), q_obj('CTLS', f))
        W.eq('cast:CTLS<-LTL', q_x('CTLS', 'LTL', f), q_obj('LTL', f))
        W.eq('dual:A=notEnot:CTLS', q_obj('CTLS', f), q_obj('CTLS', N(('E', N(f[1])))))
    W.texts('CTLS', f)
    W.boolean('CTLS', lambda x: x, f, g, None)
    return W


def rand_bool_comb(rng, parts, d):
    """Boolean combination (not / and / or with 2-3 operands / implies) of the given parts and constants"""
    if d == 0 or rng.random() < 0.25:
        return rng.choice(parts) if rng.random() < 0.85 else rng.choice([T, FALSE])
    t = rng.choice(['not', 'and', 'or', 'and', 'or', 'imp'])
    if t == 'not':
        return N(rand_bool_comb(rng, parts, d - 1))
    k = 2 if t == 'imp' or rng.random() < 0.7 else 3
    return (t,) + tuple(rand_bool_comb(rng, parts, d - 1) for _ in range(k))


def laws_build(rng, frag, f, g):
    """OTHER WAYS OF BUILDING the same formula.  frag 'PL' / 'CTL' / 'CTLS': f, g state formulas of the fragment; 'LTL': f, g LTL path
    formulas (checked as A f by LTL and CTL*, as E f by CTL*).
    (a) one-operand or/and nodes (the n-ary constructors accept them; And(f) is f): and1(f) = f = or1(f), under a negation, nested, as
        operands of a wider node, sprinkled over a Boolean combination; intersection / union of ONE set;
    (b) the operator overloads: f & g, f | g, ~f with raw str / bool shorthands on either side (Formula.__and__ / __rand__ / __or__ /
        __ror__ / __invert__) give the set of the constructor-built formula and obey intersection / union / complement."""
    W = Laws(rng, 'construction:' + frag, (f, g))
    ident = lambda x: x
    A_ = lambda x: ('A', x)
    E_ = lambda x: ('E', x)
    targets = {'PL': [('CTL', ident, 1), ('CTLS', ident, 1), ('LTL', A_, 0)], 'CTL': [('CTL', ident, 1), ('CTLS', ident, 1)],
               'CTLS': [('CTLS', ident, 1)], 'LTL': [('LTL', A_, 0), ('CTLS', A_, 0), ('CTLS', E_, 0)]}[frag]
    leaf = rng.choice(LEAVES)
    for logic, wrap, state_level in targets:
        tag = ':' + logic + ('' if wrap is ident else '(%s.)' % wrap(P)[0])
        o = lambda x: q_obj(logic, wrap(x))
        ops = lambda x: q_ops(logic, wrap(x), rng.randrange(10 ** 6))
        # (a) one-operand nodes
        W.eq('and1(f)=f' + tag, o(AND(f)), o(f))
        W.eq('or1(f)=f' + tag, o(OR(f)), o(f))
        W.eq('not(and1(f))=not(f)' + tag, o(N(AND(f))), o(N(f)))
        W.eq('not(or1(f))=not(f)' + tag, o(N(OR(f))), o(N(f)))
        W.eq('and(and1(f),or1(g))=and(f,g)' + tag, o(AND(AND(f), OR(g))), o(AND(f, g)))
        W.eq('or(g,and1(or1(f)))=or(g,f)' + tag, o(OR(g, AND(OR(f)))), o(OR(g, f)))
        light = (lambda z: tcount(z) <= 3) if frag == 'LTL' else (lambda z: True)      # the LTL tableau is exponential
        x = gen_until(rng, lambda: rand_bool_comb(rng, [f, g, leaf], 1 if frag == 'LTL' else 2), light)
        W.eq('sprinkled-one-operand-nodes' + tag, o(wrap1(rng, x, paths=frag in ('LTL', 'CTLS'))), o(x))
        # (b) operator overloads
        W.eq('f&g=And(f,g)' + tag, ops(AND(f, g)), o(AND(f, g)))
        W.eq('f|g=Or(f,g)' + tag, ops(OR(f, g)), o(OR(f, g)))
        W.eq('~f=Not(f)' + tag, ops(N(f)), o(N(f)))
        W.eq('leaf&f=And(leaf,f)' + tag, ops(AND(leaf, f)), o(AND(leaf, f)))
        W.eq('leaf|f=Or(leaf,f)' + tag, ops(OR(leaf, f)), o(OR(leaf, f)))
        y = gen_until(rng, lambda: rand_bool_comb(rng, [f, g, leaf, P, QQ], 2), light)
        W.eq('operators=constructors' + tag, ops(y), o(y))
        if state_level:
            W.add('and1' + tag, 'inter', o(AND(f)), [o(f)])
            W.add('or1' + tag, 'union', o(OR(f)), [o(f)])
            W.add('f&g' + tag, 'inter', ops(AND(f, g)), [o(f), o(g)])
            W.add('g&f' + tag, 'inter', ops(AND(g, f)), [o(f), o(g)])
            W.add('f|g' + tag, 'union', ops(OR(f, g)), [o(f), o(g)])
            W.add('g|f' + tag, 'union', ops(OR(g, f)), [o(f), o(g)])
            W.add('~f' + tag, 'compl', ops(N(f)), [o(f)])
            W.add('leaf&f&g' + tag, 'inter', ops(AND(leaf, f, g)), [o(leaf), o(f), o(g)])
            W.add('f|leaf|g' + tag, 'union', ops(OR(f, leaf, g)), [o(f), o(leaf), o(g)])
            W.add('~(f&g)' + tag, 'cunion', ops(N(AND(f, g))), [o(f), o(N(g))])
        elif wrap is A_:
            W.add('A(f&g)' + tag, 'inter', ops(AND(f, g)), [o(f), o(g)])
        else:
            W.add('E(f|g)' + tag, 'union', ops(OR(f, g)), [o(f), o(g)])
    # the same one-operand formula through another language module (cast)
    if frag in ('PL', 'CTL'):
        W.eq('cast:CTLS<-CTL:and1', q_x('CTLS', 'CTL', AND(f)), q_obj('CTL', f))
        W.eq('cast:CTL<-CTLS:or1', q_x('CTL', 'CTLS', OR(f)), q_obj('CTL', f))
        W.eq('agree:CTL=CTLS:and1', q_obj('CTL', AND(f)), q_obj('CTLS', AND(f)))
    if frag == 'PL':
        W.eq('cast:CTL<-PL:and1', q_x('CTL', 'PL', AND(OR(f))), q_obj('CTL', f))
        W.eq('agree:CTL=LTL(A.):and1', q_obj('CTL', AND(f)), q_obj('LTL', ('A', AND(f))))
        for op in rng.sample('XFGUR', 2):        # A op over one-operand nodes: all three checkers
            a = QO('A', op, AND(f)) if op in 'XFG' else QO('A', op, OR(g), AND(f))
            b = QO('A', op, f) if op in 'XFG' else QO('A', op, g, f)
            for logic in ('CTL', 'LTL', 'CTLS'):
                W.eq('A%s over one-operand nodes:%s' % (op, logic), q_obj(logic, a), q_obj(logic, b))
    if frag == 'LTL':
        W.eq('cast:CTLS<-LTL:and1', q_x('CTLS', 'LTL', ('A', AND(f))), q_obj('LTL', ('A', f)))
        W.eq('agree:LTL=CTLS:or1', q_obj('LTL', ('A', OR(f))), q_obj('CTLS', ('A', OR(f))))
    if frag == 'CTL':
        q, op = rng.choice('AE'), rng.choice('XFGUR')
        a = QO(q, op, AND(f)) if op in 'XFG' else QO(q, op, OR(g), AND(f))
        b = QO(q, op, f) if op in 'XFG' else QO(q, op, g, f)
        for logic in ('CTL', 'CTLS'):
            W.eq('%s%s over one-operand nodes:%s' % (q, op, logic), q_obj(logic, a), q_obj(logic, b))
            W.eq('%s%s over operators:%s' % (q, op, logic), q_ops(logic, QO(q, op, AND(f, g)) if op in 'XFG' else QO(q, op, OR(f, g), N(f)), rng.randrange(10 ** 6)),
                 q_obj(logic, QO(q, op, AND(f, g)) if op in 'XFG' else QO(q, op, OR(f, g), N(f))))
    return W


FAMILIES = {'stale-fresh-looking-labels': laws_stale, 'PL': laws_pl, 'CTL': laws_ctl, 'LTL': laws_ltl, 'A-over-CTL-path': laws_tri, 'CTLS': laws_ctls, 'construction': laws_build}


# ----------------------------------------------------------------------------------------
# case generation
# ----------------------------------------------------------------------------------------
def pl_pool():
    d1 = all_trees(1, LEAVES, ['not'], ['imp'], ['or', 'and'])
    return d1


def gen_cases(R):
    """generator of (kd, Laws)  (consumed in slices: the thorough tier has ~2 million queries)"""
    rng = R.rng
    small = list(all_kripkes(1)) + list(all_kripkes(2))
    th = R.thorough
    cursor = [0]

    def ks_for(n_small, n_rand, maxn=5):
        """n_small structures taken round-robin from the complete <= 2-state list (so that all of them are used) + random ones"""
        out = []
        for _ in range(n_small):
            out.append(small[cursor[0] % len(small)])
            cursor[0] += 1
        for _ in range(n_rand):
            out.append(rand_kripke(rng, rng.randint(2, maxn)))
        return out

    nemit = [0]

    names_rng = random.Random(R.seed + 404)

    def emit(builder, args, kds):
        for kd in kds:
            nemit[0] += 1
            if nemit[0] % 3 == 0:
                # labels installed through replace_labelling_function with SHARED set objects (and an entry for a non-state):
                # CTL* works on a clone that it labels, CTL / LTL do not - the three must still agree
                kd = dict(kd, alias=1)
            a = args
            if nemit[0] % 4 == 1:
                # multi-character atom names (digits, underscores, names beginning with an operator letter / reserved word) in the
                # labels and in every formula of the instance: text = object and the agreement laws hold for every legal identifier
                amap = dict(zip(('p', 'q'), names_rng.sample(ATOM_NAMES, 2)))
                kd = rename_atoms_kd(kd, amap)
                a = tuple(rename_atoms(x, amap) if isinstance(x, tuple) else x for x in args)
                R.count('instances_with_multi_character_atom_names')
            if nemit[0] % 5 == 2:
                # states that are not 0..n-1: plain class instances hashed by IDENTITY (a checker that works on a copy of the structure must
                # still answer with the states of K itself; some of them refuse to be copied), strings, tuples, mutually unorderable values
                kd = dict(kd, states=STATE_KINDS[(nemit[0] // 5) % len(STATE_KINDS)])
                R.count('instances_on_states_that_are_not_0..n-1')
            yield (kd, builder(rng, *a))

    pls = pl_pool()
    ctl1 = ctl_formulas_depth(1)
    ctl_t = [f for f in ctl1 if has_temporal(f)]
    ops1 = path_formulas_ops(1)
    ops2 = path_formulas_ops(2)
    ops1_t = [g for g in ops1 if has_temporal(g)]
    ops2_t = [g for g in ops2 if has_temporal(g)]

    # --- other ways of building the same formula: one-operand or/and nodes, operator overloads with raw str / bool shorthands
    for f, g in ([(P, QQ), (QQ, T)] if th else [(P, QQ)]):
        yield from emit(laws_build, ('PL', f, g), ks_for(30 if th else 9, 2))
    yield from emit(laws_build, ('CTL', QO('E', 'X', P), QQ), ks_for(30 if th else 9, 2))
    yield from emit(laws_build, ('LTL', ('G', P), ('F', QQ)), ks_for(12 if th else 4, 1))
    for _ in range(120 if th else 10):
        yield from emit(laws_build, ('PL', rand_pl(rng, rng.randint(0, 2)), rand_pl(rng, rng.randint(0, 2))), ks_for(1, 1))
    for _ in range(250 if th else 16):
        f = gen_until(rng, lambda: rand_ctl(rng, rng.randint(1, 2)), has_temporal)
        yield from emit(laws_build, ('CTL', f, rand_ctl(rng, rng.randint(0, 2))), ks_for(1, 1))
    for _ in range(150 if th else 8):
        f, g = gen_until(rng, lambda: (rand_path(rng, rng.randint(1, 2)), rand_path(rng, 1)), lambda fg: has_temporal(fg[0]) and tcount(fg[0]) + tcount(fg[1]) <= 2)
        yield from emit(laws_build, ('LTL', f, g), ks_for(1, 1, 4))
    for _ in range(200 if th else 10):
        f = gen_until(rng, lambda: rand_ctls_state(rng, rng.randint(1, 2)), lambda x: has_temporal(x) and tcount(x) <= 3)
        g = gen_until(rng, lambda: rand_ctls_state(rng, rng.randint(0, 2)), lambda x: tcount(x) <= 2)
        yield from emit(laws_build, ('CTLS', f, g), ks_for(1, 1, 4))

    # --- A/E over a CTL path formula with propositional operands: all three checkers.  Atom pairs on EVERY <= 2-state structure
    tri_pairs = [(P, QQ)] if not th else [(P, QQ), (QQ, P), (P, P), (T, QQ), (P, FALSE), (QQ, T)]
    for fg in tri_pairs:
        yield from emit(laws_tri, fg, small)
    for _ in range(150 if th else 30):
        f, g = rng.choice(pls), rng.choice(pls)
        yield from emit(laws_tri, (f, g), ks_for(3, 2))
    for _ in range(400 if th else 25):
        yield from emit(laws_tri, (rand_pl(rng, 2), rand_pl(rng, 2)), ks_for(1, 2))

    # --- propositional formulas through every entry point
    for _ in range(100 if th else 25):
        g, h, k = rng.choice(pls), rng.choice(pls), rng.choice(pls)
        yield from emit(laws_pl, (g, h, k), ks_for(4, 1))
    for _ in range(400 if th else 25):
        yield from emit(laws_pl, (rand_pl(rng, 3), rand_pl(rng, 2), rand_pl(rng, 2)), ks_for(1, 1))

    # --- CTL state formulas: CTL and CTL*
    for f, g in ([(P, QQ)] if not th else [(P, QQ), (QQ, T), (FALSE, P)]):
        yield from emit(laws_ctl, (f, g, N(f)), small)
    for _ in range(200 if th else 35):
        f, g, h = rng.choice(ctl_t), rng.choice(ctl1), rng.choice(ctl1)
        yield from emit(laws_ctl, (f, g, h), ks_for(2, 1))
    for _ in range(700 if th else 40):
        f, g, h = rand_ctl(rng, rng.randint(1, 3)), rand_ctl(rng, rng.randint(1, 2)), rand_ctl(rng, 1)
        yield from emit(laws_ctl, (f, g, h), ks_for(1, 2, 6))

    # --- LTL path formulas: LTL and CTL*   (the tableau is exponential in the number of temporal operators: bound it)
    tmax = 4 if th else 3
    nu = 4 if th else 2

    def light(gen):
        while True:
            g, h = gen()
            if tcount(g) + tcount(h) <= tmax and has_temporal(g):
                return g, h
    for _ in range(200 if th else 40):
        g, h = rng.choice(ops1_t), rng.choice(ops1)
        yield from emit(laws_ltl, (g, h, rng.choice(pls), nu), ks_for(2, 1))
    for _ in range(250 if th else 25):
        g, h = light(lambda: (rng.choice(ops2_t), rng.choice(ops1)))
        yield from emit(laws_ltl, (g, h, rng.choice(LEAVES), nu), ks_for(1, 1, 4))
    for _ in range(300 if th else 18):
        g, h = light(lambda: (rand_path(rng, 2), rand_path(rng, rng.randint(1, 2))))
        yield from emit(laws_ltl, (g, h, rand_pl(rng, 1), nu), ks_for(1, 1, 4))

    # --- CTL* state formulas with nested quantifiers
    for _ in range(750 if th else 60):
        f, g = rand_ctls_state(rng, rng.randint(1, 3)), rand_ctls_state(rng, rng.randint(1, 2))
        p = rand_path(rng, 2, quant=True)
        while tcount(p) > 3:
            p = rand_path(rng, 2, quant=True)
        yield from emit(laws_ctls, (f, g, p), ks_for(1, 1, 4))

    # --- structures already labelled with fresh-looking names '[E(G(p))]' (mccheck.stale_label_cases): agreement of CTL / LTL with CTL*
    def stale_formula():
        r = rng.random()
        if r < 0.45:
            return gen_until(rng, lambda: rand_ctl(rng, rng.randint(1, 2)), lambda x: any(y[0] in 'AE' for y in subformulas(x)))
        if r < 0.8:
            return ('A', gen_until(rng, lambda: rand_path(rng, rng.randint(1, 2)), lambda x: has_temporal(x) and tcount(x) <= 2))
        return QO(rng.choice('AE'), rng.choice('FG'), rng.choice([P, QQ, N(P)])) if rng.random() < 0.5 else QO(rng.choice('AE'), rng.choice('UR'), rng.choice(LEAVES), rng.choice([P, QQ]))
    for kd, f in stale_label_cases(rng, 1500 if th else 110, stale_formula):
        qs = [x for x in subformulas(f) if x[0] in 'AE']
        g = rng.choice([N(rng.choice(qs)), rng.choice(qs), P, rand_ctl(rng, 1)])
        yield (kd, laws_stale(rng, f, g))


# ----------------------------------------------------------------------------------------
# evaluation
# ----------------------------------------------------------------------------------------
def qjson(q):
    return {'logic': q[0], 'kind': q[1], 'formula': q[2], 'formula_str': fstr(q[2]), 'text': q[3]}


def qfromjson(j):
    return (j['logic'], j['kind'], detuple(j['formula']), j['text'])


def evaluate(R, cases, record=True):
    """run all queries of all cases on the implementation (pool) and on the model; check every answer and every law.
    returns (answer_violations, law_violations) as lists of replay dicts"""
    work = []
    for kd, W in cases:
        qs, index = [], {}
        for (_, _, lhs, rhs) in W.items:
            for q in [lhs] + rhs:
                if q not in index:
                    index[q] = len(qs)
                    qs.append(q)
        work.append((kd, qs, index))
    t0 = time.time()
    res = pmap_chunks(eval_chunk, [(kd, qs) for kd, qs, _ in work], n_jobs())
    t1 = time.time()
    # model: one command per distinct (case, model command)
    cmds, where = [], []
    for ci, ((kd, qs, _), (ks, states, _)) in enumerate(zip(work, res)):
        seen = {}
        for qi, q in enumerate(qs):
            c = model_cmd_q(ks, q)
            key = (c[0], c[1] if c[0] == 'ctls' else '', sx_str(c[-1]))
            if key not in seen:
                seen[key] = len(cmds)
                cmds.append(c)
            where.append((ci, qi, seen[key]))
    outs = model_batch_parallel(cmds)
    if record:
        tm = R.cov.setdefault('timing_s', {'implementation (pool of %d)' % n_jobs(): 0.0, 'model': 0.0, 'model_commands': 0})
        tm['implementation (pool of %d)' % n_jobs()] = round(tm['implementation (pool of %d)' % n_jobs()] + t1 - t0, 1)
        tm['model'] = round(tm['model'] + time.time() - t1, 1)
        tm['model_commands'] += len(cmds)
    model_ans = {}
    for ci, qi, k in where:
        model_ans[(ci, qi)] = model_obs(outs[k])
    bad_answers, bad_laws = [], []
    for ci, ((kd, qs, index), (ks, states, answers)) in enumerate(zip(work, res)):
        W = cases[ci][1]
        n = len(states)
        wrong = set()
        for qi, q in enumerate(qs):
            R.evaluations += 1
            a, m = tuple(answers[qi]), model_ans[(ci, qi)]
            R.count('queries_' + q[0] + ('' if q[1] == 'obj' else ':' + ('text' if q[1].startswith('text') else 'operators' if q[1].startswith('ops') else 'cast')))
            if kd.get('states'):
                R.count('queries_on_states_that_are_not_0..n-1:' + kd['states'])
            if q[1] == 'obj' and has_unary_nary(q[2]):
                R.count('queries_with_one_operand_or/and_nodes')
            if q[1] == 'text0':
                R.count('text_queries_with_default_parser')
            if a != m:
                wrong.add(qi)
                bad_answers.append({'kind': 'answer', 'kripke': kdj(kd), 'query': qjson(q), 'impl': a, 'model': m,
                                    'size': (n, fsize(q[2]))})
        for (name, rel, lhs, rhs) in W.items:
            la = answers[index[lhs]]
            ras = [answers[index[r]] for r in rhs]
            R.count('law_instances')
            fam = R.cov.setdefault('laws_checked', {})
            fam[name] = fam.get(name, 0) + 1
            if not relation_holds(rel, states, la, ras):
                bad_laws.append({'kind': 'law', 'law': name, 'relation': rel, 'family': W.family, 'kripke': kdj(kd),
                                 'params': [fstr(x) for x in W.params if x is not None],
                                 'lhs': qjson(lhs), 'rhs': [qjson(r) for r in rhs], 'states': states,
                                 'impl_lhs': la, 'impl_rhs': ras,
                                 'model_lhs': model_ans[(ci, index[lhs])], 'model_rhs': [model_ans[(ci, index[r])] for r in rhs],
                                 'size': (n, fsize(lhs[2]) + sum(fsize(r[2]) for r in rhs))})
            elif record and la[0] == 'ok' and 0 < len(la[1]) < n:
                R.nontriv((json.dumps(kdj(kd), sort_keys=True), name, lhs[2], tuple(r[2] for r in rhs)))
                nt = R.cov.setdefault('nontrivial_by_family', {})
                nt[W.family] = nt.get(W.family, 0) + 1
                if nt[W.family] == 1:
                    R.sample({'law': name, 'relation': rel, 'kripke': kdj(kd), 'lhs': qjson(lhs)['formula_str'],
                              'lhs_kind': lhs[1], 'lhs_text': lhs[3], 'rhs': [fstr(r[2]) for r in rhs],
                              'lhs_answer': la[1], 'rhs_answers': [r[1] for r in ras]})
    return bad_answers, bad_laws


def report(R, bad_answers, bad_laws, limit=12):
    """smallest failing inputs first; at most `limit` replay files per kind, the rest is counted"""
    for lst, what in ((bad_laws, 'law'), (bad_answers, 'answer')):
        lst.sort(key=lambda d: (d['size'], json.dumps(d, sort_keys=True, default=str)))
        for d in lst[:limit]:
            if what == 'law':
                R.violation('semantic law fails on the implementation: %s (%s) with params %s' % (d['law'], d['relation'], d['params']), d)
            else:
                try:
                    d['reference'] = sorted(ref_check(kd_unj(d['kripke']), detuple(d['query']['formula'])))
                except Exception as e:  # noqa
                    d['reference'] = 'ref-failed: %r' % e
                R.violation('%s.modelcheck (%s) differs from the proved model on %s' % (d['query']['logic'], d['query']['kind'], d['query']['formula_str']), d)
        if len(lst) > limit:
            R.cov['further_failing_%s_instances_not_written' % what] = len(lst) - limit


def collect_texts(cases, texts):
    for _, W in cases:
        for (_, _, lhs, rhs) in W.items:
            for q in [lhs] + rhs:
                if q[3] is not None:
                    texts[(q[0], q[3])] = q[2]


def text_internal_agreement(R, texts):
    """the model's parser reads every text used here to the intended tree (evidence only, never an alarm)"""
    items = sorted(texts.items())
    if len(items) > 4000:
        items = R.rng.sample(items, 4000)
    try:
        outs = model_batch_parallel([['parse', lg, Q(s)] for (lg, s), _ in items])
        agree = sum(1 for ((lg, s), f), o in zip(items, outs) if o[0] == 'ok' and fparse(o[1]) == f)
        R.cov['internal_agreement'] = {'model_parser_reads_text_to_intended_tree': agree, 'of': len(items)}
    except Exception as e:  # noqa
        R.cov['internal_agreement'] = {'model_parser_unavailable': repr(e)[:200]}


def long_prefix_agreement(R):
    """CTL formulas with two different quantified subformulas sharing a long printed prefix (mccheck.long_prefix_cases): the CTL
    checker, the CTL* checker on the same tree (as CTL* objects and as CTL objects) must return the same set"""
    bad = 0
    for kd, f in long_prefix_cases(R.rng, 3000 if R.thorough else 250):
        qs = [('CTL', 'obj', f, None), ('CTLS', 'obj', f, None), ('CTLS', 'x:CTL', f, None)]
        ans = [eval_query(kd, q) for q in qs]
        R.evaluations += 1
        states = sorted(kd_py(kd).states())
        for i in (1, 2):
            if not relation_holds('eq', states, ans[0], [ans[i]]):
                bad += 1
                if bad <= 5:
                    R.violation('law CTL.modelcheck = CTLS.modelcheck fails on a formula with long look-alike subformulas',
                                {'kind': 'law', 'law': 'ctl_equals_ctls(long common prefix)', 'relation': 'eq', 'family': 'long_prefix',
                                 'kripke': kd_json(kd), 'lhs': qjson(qs[0]), 'rhs': [qjson(qs[i])], 'impl_lhs': ans[0], 'impl_rhs': [ans[i]]})
                break
        else:
            R.nontriv(('long_prefix', json.dumps(kd_json(kd), sort_keys=True), f))
    R.cov['long_prefix_agreement'] = {'differences': bad}


# ----------------------------------------------------------------------------------------
# large structures (implementation only: the extracted model needs minutes on 1500 states)
# ----------------------------------------------------------------------------------------
def laws_large(rng, f, g, nops):
    """f, g propositional: A op(f, g) through all three checkers, E op(f, g) through CTL and CTL*, duality, one expansion, one text"""
    W = Laws(rng, 'large', (f, g))
    for op in sorted(rng.sample('XFGUR', nops)):
        a = QO('A', op, f) if op in 'XFG' else QO('A', op, f, g)
        e = ('E', a[1])
        W.eq('agree3:CTL=LTL:A' + op, q_obj('CTL', a), q_obj('LTL', a))
        W.eq('agree3:CTL=CTLS:A' + op, q_obj('CTL', a), q_obj('CTLS', a))
        W.eq('agree:CTL=CTLS:E' + op, q_obj('CTL', e), q_obj('CTLS', e))
        W.add('dual:CTL(A g)=compl CTLS(E not g)', 'compl', q_obj('CTL', a), [q_obj('CTLS', ('E', N(a[1])))])
        W.add('dual:CTL(E g)=compl CTLS(A not g)', 'compl', q_obj('CTL', e), [q_obj('CTLS', ('A', N(a[1])))])
        if op != 'X':
            l, r = unfold_state(rng.choice('AE'), op, f, g)
            W.eq('unfold:%s%s:CTL' % (l[0], op), q_obj('CTL', l), q_obj('CTL', r))
    op = rng.choice('FGUR')
    a = QO('A', op, f) if op in 'FG' else QO('A', op, f, g)
    logic = rng.choice(['CTL', 'LTL', 'CTLS'])
    W.eq('text:str(f):' + logic, (logic, 'text', a, star_text(a)), q_obj(logic, a))
    W.add('not:CTL', 'compl', q_obj('CTL', N(f)), [q_obj('CTL', f)])
    return W


def large_chunk(chunk):
    out = []
    for spec, qs in chunk:
        kd = large_kd(spec)
        out.append([eval_query(kd, q) for q in qs])
    return out


def large_kd(spec):
    kd = big_kd(spec['shape'], spec['n'], spec['lseed'])
    if spec.get('states'):
        kd['states'] = spec['states']
    return kd


def brief(a):
    """answer on a large structure for a replay file: size and the smallest / largest members"""
    if a[0] != 'ok':
        return list(a)
    return ['ok', {'size': len(a[1]), 'first': a[1][:5], 'last': a[1][-5:]}]


def check_large(R, spec, W, answers, index, record=True):
    n = spec['n']
    states = list(range(n))
    bad = []
    for (name, rel, lhs, rhs) in W.items:
        la, ras = answers[index[lhs]], [answers[index[r]] for r in rhs]
        R.count('large_structure_law_instances')
        if not relation_holds(rel, states, la, ras):
            bad.append({'stream': 'large structures', 'kind': 'law', 'law': name, 'relation': rel, 'structure': spec,
                        'params': [fstr(x) for x in W.params], 'lhs': qjson(lhs), 'rhs': [qjson(r) for r in rhs],
                        'impl_lhs': brief(la), 'impl_rhs': [brief(r) for r in ras]})
        elif record and 0 < len(la[1]) < n:
            R.nontriv(('large', json.dumps(spec, sort_keys=True), name, lhs[2]))
    return bad


def large_structures(R):
    """structures with more than 1000 states - deeper than the interpreter's recursion limit (chain into a self-loop, lasso, one cycle,
    comb, ladder) or with a fan-out of more than 1000 (star) -, some with identity-hashed states: the checkers agree and obey the laws"""
    rng = random.Random(R.seed + 4004)
    th = R.thorough
    specs = []
    shapes = list(BIG_SHAPES)
    rng.shuffle(shapes)
    for i in range(18 if th else 6):
        specs.append({'shape': shapes[i % len(shapes)], 'n': rng.randint(1050, 2600 if th else 1500), 'lseed': rng.randrange(10 ** 6),
                      'states': [None, None, 'object'][i % 3]})
    work = []
    for spec in specs:
        f, g = rng.choice([P, QQ, N(P), OR(P, N(QQ)), AND(QQ, N(P))]), rng.choice([P, QQ, N(QQ), T])
        W = laws_large(rng, f, g, 5 if th else 2)
        qs, index = [], {}
        for (_, _, lhs, rhs) in W.items:
            for q in [lhs] + rhs:
                if q not in index:
                    index[q] = len(qs)
                    qs.append(q)
        work.append((spec, W, qs, index))
    t0 = time.time()
    res = pmap_chunks(large_chunk, [(spec, qs) for spec, _, qs, _ in work], n_jobs(), per=1)
    bad = []
    for (spec, W, qs, index), answers in zip(work, res):
        R.evaluations += len(qs)
        bad += check_large(R, spec, W, answers, index)
    for d in bad[:6]:
        R.violation('semantic law fails on a LARGE structure: %s (%s) on %s' % (d['law'], d['relation'], d['structure']), d)
    R.cov['large_structures'] = {'structures': [dict(s) for s in specs], 'failing_law_instances': len(bad), 'wall_s': round(time.time() - t0, 1)}


def replay_large(R, d):
    spec = d['structure']
    kd = large_kd(spec)
    qs = [qfromjson(d['lhs'])] + [qfromjson(j) for j in d['rhs']]
    ans = [eval_query(kd, q) for q in qs]
    print('structure:', spec)
    for q, a in zip(qs, ans):
        print('%-5s %-7s %s%s' % (q[0], q[1], fstr(q[2]), '' if q[3] is None else '   text=%r' % q[3]))
        print('    impl :', brief(a))
    ok = relation_holds(d['relation'], list(range(spec['n'])), ans[0], ans[1:])
    print('law %s (%s) holds on the implementation: %s' % (d['law'], d['relation'], ok))
    if not ok:
        R.violation('replayed: law %s fails on a large structure' % d['law'], d)


def run(R):
    long_prefix_agreement(R)
    large_structures(R)
    R.rule = ('(K, law, f, g[, h]) instances: K = every structure with <= 2 states over {p,q} (all 148 used round-robin; the atom-pair instances '
              '[(p,q) in quick, 6 pairs / 3 pairs in thorough] of the three-checker family and of the CTL family run on ALL 148 of them) + random '
              'structures with 2..5 (6) states; formulas: propositional (depth <= 1 pool, random depth <= 3), CTL state formulas (depth-1 pool, random '
              'depth <= 3), LTL path formulas (pool with <= 2 operators, random depth 2, at most 3 (thorough 4) temporal operators per pair), A/E over '
              'X,F,G,U,R of propositional operands (all three logics), CTL* state formulas with nested quantifiers (random depth <= 3). '
              'Each law has both sides evaluated by the real modelcheck functions (native object, object of another language module that is cast, '
              'text str(f) in CTL* notation, hand-written concrete syntax with alternative symbols / quoted atoms / spacing, default and shared Parser) '
              'and every single answer is also compared with the proved model. non-trivial = the identity holds with a left-hand side that is '
              'neither empty nor all states; distinct by (K, law, formulas). One instance in four uses multi-character atom names (digits, underscores, '
              'names beginning with an operator letter / reserved word) in labels, objects and texts. A family runs the agreement / Boolean laws on structures '
              'that already carry labels spelled like the fresh names of the CTL* elimination. LIVE STRUCTURES (mccheck.run_live, mode ALL): sessions on ONE '
              'Kripke object - queries interleaved with edits of its owner (labels add/discard, replace_labelling_function with set/frozenset/list/shared '
              'containers, add_edge, new states) - with a pool of formula OBJECTS, each passed (the same object) to every checker it belongs to: equal sets, '
              'complement / intersection / union between pool members, each answer equal to the model on the structure as it is at the time of the call, '
              'formula objects keep their trees, returned sets are cleared / polluted by the caller after being recorded. '
              'CONSTRUCTION family (laws_build, on PL / CTL / LTL-path / CTL* operands): the same formula built in other ways goes through every '
              'checker it belongs to - (a) ONE-OPERAND or/and nodes (And(f) = f = Or(f); under a negation, nested, as operands of a wider node, under '
              'A/E op, sprinkled at random over a Boolean combination, cast between language modules; intersection / union of one set), '
              '(b) the OPERATOR OVERLOADS f & g, f | g, ~f with raw str / bool shorthands on either side (so __and__, __rand__, __or__, __ror__, '
              '__invert__ all run; n-ary nodes fold to the left; choices replayable from the seed in the query kind ops:<k>) - equal to the '
              'constructor-built formula, intersection / union / complement of the operand sets, and equal to the proved model. '
              'STATE PRESENTATIONS: one instance in five of EVERY family runs on a structure whose states are not 0..n-1: plain class instances hashed '
              'by IDENTITY (Node; Resource additionally refuses copy / deepcopy / pickle), strings, tuples, mutually unorderable values, sparse ints; '
              'answers are mapped back to state numbers, an element that is not one of the states of K itself is an error. '
              'LARGE STRUCTURES (implementation only; the extracted model needs minutes there): 6 (thorough 18) structures with 1050..1500 (2600) '
              'states - chain into a self-loop, lasso, one cycle, comb, ladder (deeper than the recursion limit) and a star (fan-out > 1000), states '
              'and edges handed over in shuffled order, every third with identity-hashed states - A/E op over propositional operands: '
              'CTL = LTL = CTL*, duality, one expansion, text = object, complement')
    gen = gen_cases(R)
    fams, structs = {}, {'small(<=2 states)': 0, 'random(3..6 states)': 0}
    bad_answers, bad_laws, texts = [], [], {}
    while True:
        cases = list(itertools.islice(gen, 2500))
        if not cases:
            break
        for kd, W in cases:
            fams[W.family] = fams.get(W.family, 0) + 1
            structs['small(<=2 states)' if len(kd['S']) <= 2 else 'random(3..6 states)'] += 1
        ba, bl = evaluate(R, cases)
        bad_answers += ba[:200]
        bad_laws += bl[:200]
        if len(texts) < 20000:
            collect_texts(cases, texts)
    R.cov['cases_by_family'] = fams
    R.cov['second_audit_streams'] = {
        'one-operand or/and nodes': 'families construction:* (and1/or1 laws, sprinkled nodes, casts, A/E op over one-operand nodes); counter queries_with_one_operand_or/and_nodes',
        'operator overloads & | ~ with raw str/bool on either side': 'families construction:* (query kind ops:<k>); counters queries_<logic>:operators',
        'states hashed by identity / not copyable / strings / tuples / unorderable': 'one instance in five of every family; counters queries_on_states_that_are_not_0..n-1:<kind>',
        'structures with > 1000 states (deep, cyclic, wide)': 'large_structures (implementation-only laws); see large_structures'}
    R.cov['structures'] = structs
    tms = os.times()
    R.cov['cpu_s'] = round(tms.user + tms.system + tms.children_user + tms.children_system, 1)
    report(R, bad_answers, bad_laws)
    text_internal_agreement(R, texts)
    # live structures: ONE Kripke object queried, edited by its owner, queried again, with a pool of formula OBJECTS each of which goes
    # through EVERY checker it belongs to (same object): agreement, complement / intersection / union on the structure as it is now
    run_live(R, 'ALL', 3000 if R.thorough else 260)
    R.exhaustive = False


def replay(R, data):
    d = data['data']
    if d.get('stream') == 'live structures':
        return replay_session(R, d)
    if d.get('stream') == 'large structures':
        return replay_large(R, d)
    kd = kd_unj(d['kripke'])
    K, num = present(kd)
    ks, states = kripke_sx(K, num), sorted((num or (lambda v: v))(s) for s in K.states())
    if d.get('kind') == 'law':
        qs = [qfromjson(d['lhs'])] + [qfromjson(j) for j in d['rhs']]
    else:
        qs = [qfromjson(d['query'])]
    ans = [eval_query(kd, q) for q in qs]
    mod = [model_obs(o) for o in model_batch([model_cmd_q(ks, q) for q in qs])]
    print('kripke   :', d['kripke'])
    for q, a, m in zip(qs, ans, mod):
        print('%-5s %-7s %s%s' % (q[0], q[1], fstr(q[2]), '' if q[3] is None else '   text=%r' % q[3]))
        print('    impl :', a)
        print('    model:', m)
        try:
            print('    ref  :', sorted(ref_check(kd, q[2])))
        except Exception as e:  # noqa
            print('    ref  : failed', e)
    if d.get('kind') == 'law':
        ok = relation_holds(d['relation'], states, ans[0], ans[1:])
        print('law %s (%s) holds on the implementation: %s' % (d['law'], d['relation'], ok))
        if not ok:
            R.violation('replayed: law %s fails on the implementation' % d['law'], d)
    if any(tuple(a) != m for a, m in zip(ans, mod)):
        R.violation('replayed: implementation differs from the proved model', d)
