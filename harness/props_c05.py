"""C05 - rewriting to the restricted syntax and LNot preserve meaning.
Theorems (Properties/C05.v): LNot_sem, LNot_head, restrict_sem, restrict_alpha, restrict_ctl_spec.
Correspondence (syntactic, the tightest tie available): the tree returned by
get_equivalent_restricted_formula() / LNot on live objects equals the model's tree (atom names compared byte-exactly), and every node
of the result belongs to the language module of the formula that was rewritten.
Besides single formulas (built, rewritten, dropped) there are TALL formulas (towers of height 9..129: tall_stream) and LIVE sessions
(session_stream / session_obs): several formulas and all their results alive together, every object rewritten twice - the rewriting is
a function of the formula alone, whatever else is alive and however often it was asked before."""
from common import *
from mccheck import *
LEVEL = 'proof'

RCMD = {'LTL': 'restrictltl', 'CTLS': 'restrict'}
RESTR = {'true', 'false', 'ap', 'not', 'or', 'X', 'U', 'E'}
LOGICS = ('CTL', 'LTL', 'CTLS')


# ----------------------------------------------------------------------------------------------------------------------------------
# local copies of helpers of common.py (this check does not depend on the width distribution of common.rand_nary)
# ----------------------------------------------------------------------------------------------------------------------------------
def fstr(f):
    """readable rendering of a formula tuple; connectives with fewer than two operands are written in prefix form"""
    t = f[0]
    if t in ('true', 'false'):
        return t
    if t == 'ap':
        return f[1]
    if t in UNARY:
        return '%s(%s)' % (t, fstr(f[1]))
    if t in NARY and len(f) < 3:
        return '%s[%d](%s)' % (t, len(f) - 1, ', '.join(fstr(g) for g in f[1:]))
    return '(' + (' %s ' % t).join(fstr(g) for g in f[1:]) + ')'


def _enc(name):
    """atom name -> the byte string the model sees (the model treats names as opaque byte strings; UTF-8 is injective)"""
    return name.encode('utf-8').decode('latin-1')


def _dec(name):
    return name.encode('latin-1').decode('utf-8')


def fsx5(f):
    t = f[0]
    if t == 'true':
        return ['t']
    if t == 'false':
        return ['f']
    if t == 'ap':
        return ['a', Q(_enc(f[1]))]
    return [t] + [fsx5(g) for g in f[1:]]


def fparse5(x):
    t = x[0]
    if t == 't':
        return ('true',)
    if t == 'f':
        return ('false',)
    if t == 'a':
        return ('ap', _dec(str(x[1])))
    return (t,) + tuple(fparse5(y) for y in x[1:])


# widths of or/and: the classes accept any number of operands (And(*constraints) with one or no constraint, the parsers build flat
# connectives of any width)
WIDE = (0, 1, 4, 5, 6, 7, 8, 9, 10, 11, 12)


def rand_leaf5(rng, aps):
    r = rng.random()
    if r < 0.1:
        return ('true',)
    if r < 0.15:
        return ('false',)
    return ('ap', rng.choice(aps))


def rand_nary5(rng, t, gen, gen_small):
    x = rng.random()
    if x < 0.74:
        return (t,) + tuple(gen() for _ in range(2))
    if x < 0.88:
        return (t,) + tuple(gen() for _ in range(3))
    if x < 0.92:
        return (t,) + tuple(gen() for _ in range(rng.choice((0, 1))))
    return (t,) + tuple(gen_small() for _ in range(rng.choice(WIDE)))


def rand_ctl5(rng, d, aps=('p', 'q')):
    if d == 0 or rng.random() < 0.2:
        return rand_leaf5(rng, aps)
    t = rng.choice(['not', 'or', 'and', 'imp', 'Q', 'Q', 'Q', 'Q'])
    if t == 'not':
        return (t, rand_ctl5(rng, d - 1, aps))
    if t in ('or', 'and'):
        return rand_nary5(rng, t, lambda: rand_ctl5(rng, d - 1, aps), lambda: rand_ctl5(rng, min(d - 1, 1), aps))
    if t == 'imp':
        return (t, rand_ctl5(rng, d - 1, aps), rand_ctl5(rng, d - 1, aps))
    q = rng.choice(['A', 'E'])
    o = rng.choice(['X', 'F', 'G', 'U', 'R'])
    if o in 'XFG':
        return (q, (o, rand_ctl5(rng, d - 1, aps)))
    return (q, (o, rand_ctl5(rng, d - 1, aps), rand_ctl5(rng, d - 1, aps)))


def rand_path5(rng, d, aps=('p', 'q'), quant=False):
    """LTL path formula (quant=False) or CTL* path formula (quant=True)"""
    if d == 0 or rng.random() < 0.2:
        return rand_leaf5(rng, aps)
    ops = ['not', 'or', 'and', 'imp', 'X', 'F', 'G', 'U', 'R'] + (['A', 'E'] if quant else [])
    t = rng.choice(ops)
    if t in UNARY:
        return (t, rand_path5(rng, d - 1, aps, quant))
    if t in NARY:
        return rand_nary5(rng, t, lambda: rand_path5(rng, d - 1, aps, quant), lambda: rand_path5(rng, min(d - 1, 1), aps, quant))
    return (t, rand_path5(rng, d - 1, aps, quant), rand_path5(rng, d - 1, aps, quant))


def rand_of(logic, rng, d, aps=('p', 'q')):
    return rand_ctl5(rng, d, aps) if logic == 'CTL' else rand_path5(rng, d, aps, quant=(logic == 'CTLS'))


def ren(f, m):
    if f[0] == 'ap':
        return ('ap', m.get(f[1], f[1]))
    if f[0] in ('true', 'false'):
        return f
    return (f[0],) + tuple(ren(g, m) for g in f[1:])


def fh5(f):
    """height of a tree (a connective without operands is a leaf)"""
    if f[0] in ('true', 'false', 'ap') or len(f) == 1:
        return 0
    return 1 + max(fh5(g) for g in f[1:])


def nary_widths(f, h):
    for g in subformulas(f):
        if g[0] in NARY:
            h[len(g) - 1] = h.get(len(g) - 1, 0) + 1


# ----------------------------------------------------------------------------------------------------------------------------------
# observers that do not need the model
# ----------------------------------------------------------------------------------------------------------------------------------
def alphabet_ok(t, ctl):
    """restricted alphabet recomputed on the python result (independent of the model)"""
    if ctl:
        k = t[0]
        if k in ('true', 'false', 'ap'):
            return True
        if k in ('not', 'or'):
            return all(alphabet_ok(g, True) for g in t[1:])
        if k == 'E' and t[1][0] in ('X', 'U', 'G'):
            return all(alphabet_ok(g, True) for g in t[1][1:])
        return False
    return all(g[0] in RESTR for g in subformulas(t))


def starts_two_nots(t):
    return t[0] == 'not' and t[1][0] == 'not'


def ntemporal(f):
    return sum(1 for g in subformulas(f) if g[0] in TEMPORAL)


def norm_nary(f):
    """meaning of connectives of width 0 and 1 from first principles (or = any, and = all): or() = false, and() = true,
    or(x) = and(x) = x; the reference evaluator then only sees widths >= 2"""
    t = f[0]
    if t in ('true', 'false', 'ap'):
        return f
    gs = tuple(norm_nary(g) for g in f[1:])
    if t in NARY and len(gs) == 0:
        return ('false',) if t == 'or' else ('true',)
    if t in NARY and len(gs) == 1:
        return gs[0]
    return (t,) + gs


_SEARCH = []
_SEARCH_N = {}


def _structures(names):
    """structures whose labels are drawn from the formula's OWN atom names.  <= 2 names: every 1-state structure, a sample of the
    2-state ones, 3-state lassos, random structures with 3-5 states over the two names.  More names (wide connectives over distinct
    atoms, atoms renamed by the rewriting): one-state structures labelled with no/every/each single/all-but-one name and random
    subsets, then lassos and random structures with random labels."""
    if len(names) <= 2:
        if not _SEARCH:
            r0 = random.Random(5)
            labs = [[], ['p'], ['q'], ['p', 'q']]
            lassos = [{'S': [0, 1, 2], 'S0': [], 'R': [(0, 1), (1, 2), (2, 2)], 'L': {0: a, 1: b, 2: c}} for a in labs for b in labs for c in labs]
            r0.shuffle(lassos)
            _SEARCH.extend(lassos + list(all_kripkes(1)) + r0.sample(list(all_kripkes(2)), 60) +
                           [rand_kripke(r0, r0.randint(3, 5), maxdeg=2) for _ in range(120)])
        m = dict(zip(('p', 'q'), names)) if (names and not set(names) <= {'p', 'q'}) else None
        if not m:
            return _SEARCH
        return [dict(kd, L={s_: [m.get(a, a) for a in ls] for s_, ls in kd['L'].items()}) for kd in _SEARCH]
    key = tuple(names)
    if key not in _SEARCH_N:
        r0 = random.Random(7)
        names = list(names)
        labsets = [[], list(names)] + [[a] for a in names] + [[b for b in names if b != a] for a in names]
        labsets += [[a for a in names if r0.random() < pr] for pr in (0.5, 0.2, 0.8) for _ in range(12)]
        out = [{'S': [0], 'S0': [], 'R': [(0, 0)], 'L': {0: ls}} for ls in labsets]
        for _ in range(60):
            out.append({'S': [0, 1, 2], 'S0': [], 'R': [(0, 1), (1, 2), (2, r0.choice((0, 1, 2)))],
                        'L': {s_: list(r0.choice(labsets)) for s_ in range(3)}})
        for _ in range(60):
            kd = rand_kripke(r0, r0.randint(2, 5), maxdeg=2)
            kd['L'] = {s_: list(r0.choice(labsets)) for s_ in kd['S']}
            out.append(kd)
        if len(_SEARCH_N) > 64:
            _SEARCH_N.clear()
        _SEARCH_N[key] = out
    return _SEARCH_N[key]


def det_eval(n, succ, labels, f, memo):
    """states of a DETERMINISTIC structure (every state has exactly one successor, so exactly one path leaves each state and A g = E g
    = g on it) whose path satisfies f: X by the successor, U/F as least and R/G as greatest fixed points along the path.  Linear in the
    size of f: used for formulas that are too tall for the reference evaluator."""
    if f in memo:
        return memo[f]
    t = f[0]
    allst = frozenset(range(n))
    pre = lambda Z: frozenset(s_ for s_ in range(n) if succ[s_] in Z)
    if t == 'true':
        v = allst
    elif t == 'false':
        v = frozenset()
    elif t == 'ap':
        v = frozenset(s_ for s_ in range(n) if f[1] in labels[s_])
    else:
        gs = [det_eval(n, succ, labels, g, memo) for g in f[1:]]
        if t == 'not':
            v = allst - gs[0]
        elif t == 'or':
            v = frozenset().union(*gs)
        elif t == 'and':
            v = allst.intersection(*gs)
        elif t == 'imp':
            v = (allst - gs[0]) | gs[1]
        elif t in ('A', 'E'):
            v = gs[0]
        elif t == 'X':
            v = pre(gs[0])
        elif t in ('F', 'U'):
            a, b = (allst, gs[0]) if t == 'F' else gs
            v = b
            while True:
                w = b | (a & pre(v))
                if w == v:
                    break
                v = w
        else:   # G, R
            a, b = (frozenset(), gs[0]) if t == 'G' else gs
            v = allst
            while True:
                w = b & (a | pre(v))
                if w == v:
                    break
                v = w
    memo[f] = v
    return v


def det_counterexample(f, r):
    """a deterministic structure (1 state with a self loop, 2 states, 3-state lassos; labels from the atom names of f and r) and a
    state whose only path tells f from r"""
    names = sorted(fatoms(f) | fatoms(r))
    r0 = random.Random(11)
    if len(names) <= 3:
        labsets = [[a for i, a in enumerate(names) if (m >> i) & 1] for m in range(1 << len(names))]
    else:
        labsets = [[], list(names)] + [[a] for a in names[:12]] + [[a for a in names if r0.random() < 0.5] for _ in range(12)]
    shapes = [(1, (0,))] + [(2, (a, b)) for a in (0, 1) for b in (0, 1)] + [(3, (1, 2, c)) for c in (0, 1, 2)]
    t_end = time.time() + 3.0
    for n, succ in shapes:
        combos = list(itertools.product(labsets, repeat=n))
        if len(combos) > 256:
            combos = r0.sample(combos, 256)
        for labs in combos:
            if time.time() > t_end:
                return None
            memo = {}
            try:
                a, b = det_eval(n, succ, labs, f, memo), det_eval(n, succ, labs, r, memo)
            except RecursionError:
                return None
            if a != b:
                kd = {'S': list(range(n)), 'S0': [], 'R': [(i, succ[i]) for i in range(n)], 'L': {i: list(labs[i]) for i in range(n)}}
                return {'kripke': kd_json(kd), 'original': fstr(f), 'rewritten': fstr(r), 'semantics': 'deterministic structure (one path per state)',
                        'states_original': sorted(a), 'states_rewritten': sorted(b)}
    return None


def semantic_counterexample(f, r, rng):
    cex = semantic_counterexample_ref(f, r, rng)
    return cex if cex is not None else det_counterexample(f, r)


def semantic_counterexample_ref(f, r, rng):
    """search structures for a state where f and r differ under the reference semantics (see _structures); the structures are labelled
    with the atom names of f AND of r (a rewriting that renames an atom is refuted by a state labelled with only one of the two names).
    Path formulas are compared under both quantifiers (A f vs A r, E f vs E r)."""
    pairs = [(f, r)] if (is_ctls_state(f) and is_ctls_state(r)) else [(('A', f), ('A', r)), (('E', f), ('E', r))]
    # the reference evaluator is exponential in the number of temporal operators (not in the width of the connectives): witnesses are
    # searched for small formulas and for wide formulas with few temporal operators
    if fsize(f) > 14 and (ntemporal(f) > 3 or ntemporal(r) > 6 or fsize(f) > 200):
        return None
    t_end = time.time() + 3.0
    names = sorted(fatoms(f) | fatoms(r))
    npairs = [(norm_nary(a), norm_nary(b)) for a, b in pairs]
    for kd in _structures(names):
        if time.time() > t_end:
            return None
        for (a, b), (na, nb) in zip(pairs, npairs):
            try:
                if ref_check(kd, na) != ref_check(kd, nb):
                    return {'kripke': kd_json(kd), 'original': fstr(a), 'rewritten': fstr(b),
                            'states_original': sorted(ref_check(kd, na)), 'states_rewritten': sorted(ref_check(kd, nb))}
            except Exception:
                return None
    return None


# ----------------------------------------------------------------------------------------------------------------------------------
# one case: implementation observation, model commands, comparison
# ----------------------------------------------------------------------------------------------------------------------------------
def impl_obs(logic, f):
    from pyModelChecking.language import LNot
    o = to_py(f, lang_module(logic))
    s0 = str(o)
    box = {}

    def rw():
        x = o.get_equivalent_restricted_formula()
        box['r'] = sorted(langs_in(x))
        return tree_of(x)

    def ng():
        x = LNot(o)
        box['ln'] = sorted(langs_in(x))
        return tree_of(x)
    r = call(rw)
    ln = call(ng)
    return r, ln, str(o) == s0, box.get('r'), box.get('ln')


def model_cmds(logic, f):
    c1 = ['restrictctl', fsx5(f)] if logic == 'CTL' else [RCMD[logic], fsx5(f)]
    # LNot of an LTL state formula A g would be Not(A g), which is not LTL: TypeError (model: mk)
    c2 = ['mk', 'LTL', 'not', ['LTL', fsx5(f)]] if (logic == 'LTL' and f[0] == 'A') else ['lnot', fsx5(f)]
    return [c1, c2]


def model_obs(logic, f, o_r, o_ln):
    if logic == 'CTL':
        m_r = ('ok', fparse5(o_r[1])) if o_r[0] == 'some' else ('err', 'TypeError')
    else:
        m_r = ('ok', fparse5(o_r))
    if logic == 'LTL' and f[0] == 'A':
        m_ln = ('ok', fparse5(o_ln[1][1])) if o_ln[0] == 'ok' else ('err', o_ln[1])
    else:
        m_ln = ('ok', fparse5(o_ln))
    return m_r, m_ln


def judge(logic, f, obs, m_r, m_ln):
    r, ln, unchanged, lang_r, lang_ln = obs
    bad = []
    if tuple(r) != m_r:
        bad.append('restricted')
    if tuple(ln) != m_ln:
        bad.append('LNot')
    # an LTL formula is A rho: the documented restricted LTL syntax restricts the path formula rho
    rr = r[1][1] if (r[0] == 'ok' and logic == 'LTL' and f[0] == 'A' and r[1][0] == 'A') else (r[1] if r[0] == 'ok' else None)
    if r[0] == 'ok' and not alphabet_ok(rr, logic == 'CTL'):
        bad.append('alphabet')
    if ln[0] == 'ok' and starts_two_nots(ln[1]):
        bad.append('double-negation')
    if not unchanged:
        bad.append('formula modified')
    # the result is a formula OF THE SAME LOGIC: every node is an object of the language module of the rewritten formula
    if (lang_r is not None and lang_r != [logic]) or (lang_ln is not None and lang_ln != [logic]):
        bad.append('module')
    return bad


CONCRETE = ('alphabet', 'double-negation', 'formula modified', 'module')


def witness(f, r, ln, bad, rng):
    cex = None
    if 'restricted' in bad and r[0] == 'ok':
        cex = semantic_counterexample(f, r[1], rng)
    if cex is None and 'LNot' in bad and ln[0] == 'ok':
        # LNot(f) must be equivalent to not f: look for a structure/state where they differ
        # state formulas: not f vs LNot f;  path formulas: A f vs A not (LNot f)
        if is_ctls_state(f):
            cex = semantic_counterexample(('not', f), ln[1], rng)
        else:
            cex = semantic_counterexample(('A', f), ('A', ('not', ln[1])), rng)
    return cex


# ----------------------------------------------------------------------------------------------------------------------------------
# streams
# ----------------------------------------------------------------------------------------------------------------------------------
# atom names that are not identifiers (blanks, operators, brackets, quotes, printed formulas, reserved words): the rewriting may
# not look at, let alone change, the NAME of an atom - the model treats names as opaque strings
EXOTIC = ['door open', 'x>0', 'not p', '(p or q)', 'p U q', '"q"', 'A', 'true', '', ' p', 'p ', 'a.b', "it's", '[E(X(p))]', 'fair0',
          # names that print like PYTHON values (str(True) == 'True': a comparison of an atom with a Python bool / None / number by printed form)
          'True', 'False', 'None', '1', '0', 'TRUE', 'false']
# pairs of DISTINCT names that collapse to one name under some normalisation of text: dropping or replacing non-ASCII characters,
# unicode normal forms (NFC/NFKC), case folding, stripping, truncation.  Any str is a legal atom name.
COLLAPSING = [('porta_\u00e8_aperta', 'porta_\u00e9_aperta'), ('\u03b1', '\u03b2'), ('na\u00efve', 'nave'), ('p\u0301', 'p'), ('q', 'q '),
              ('\u30c9\u30a2\u958b', '\u30c9\u30a2\u9589'), ('\u00e9', 'e\u0301'), ('\u212b', '\u00c5'), ('\ufb01', 'fi'), ('\u00df', 'ss'),
              ('P', 'p'), ('\u00c9tat', '\u00e9tat'), ('p\u200b', 'p'), ('t\u00fcr_auf', 't\u00fcr_zu'), ('x\u2081', 'x\u2082'),
              ('\U0001f6aa', '\U0001f511'), ('stato_molto_lungo_numero_00000000000000000000000000000001', 'stato_molto_lungo_numero_00000000000000000000000000000002'),
              ('p\x00', 'p'), ('p\n', 'p'), ('\u00e8', '?'), ('caf\u00e9', 'caf\\xe9'), ('\u00e8', '\u00c3\u00a8')]


def wide_stream(rng, thorough):
    """or/and of EVERY width 0..13 (and a few wider ones) in each logic: over distinct atoms p1..pw (dropping, duplicating or
    regrouping an operand changes the meaning on a one-state structure), over small random operands, under every kind of context"""
    items = []
    widths = list(range(0, 14)) + [16, 17, 24, 25, 32, 33] + ([40, 64, 65, 100] if thorough else [])
    for logic in LOGICS:
        small = lambda: rand_of(logic, rng, 1)
        for op in NARY:
            for w in widths:
                dist = (op,) + tuple(('ap', 'p%d' % i) for i in range(1, w + 1))
                ws = [dist, (op,) + tuple(('not', g) if rng.random() < 0.3 else g for g in dist[1:])]
                for _ in range(6 if thorough else 2):
                    ws.append((op,) + tuple(small() for _ in range(w)))
                if w <= 13:
                    # wide inside wide: the inner connective is one operand of the outer one
                    inner = ('and' if op == 'or' else 'or',) + tuple(('ap', 'r%d' % i) for i in range(1, rng.choice((1, 3, 9)) + 1))
                    pos = rng.randint(0, w)
                    ws.append(dist[:1 + pos] + (inner,) + dist[1 + pos:])
                for W in ws:
                    items.append((logic, W))
                    x = small()
                    ctx = [('not', W), ('imp', W, x), ('imp', x, W), (rng.choice(NARY), x, W), (rng.choice(NARY), W, x, W)]
                    if logic == 'CTL':
                        ctx += [(rng.choice('AE'), (rng.choice('XFG'), W)), (rng.choice('AE'), ('U', x, W)), (rng.choice('AE'), ('R', W, x))]
                    else:
                        ctx += [(rng.choice('XFG'), W), ('U', x, W), ('R', W, x), ('U', W, x)]
                        if logic == 'CTLS':
                            ctx += [('A', W), ('E', ('G', W))]
                    for c in (ctx if (thorough or W is dist) else rng.sample(ctx, 3)):
                        items.append((logic, c))
    out = []
    for logic, f in items:
        out.append((logic, f))
        if logic == 'LTL':
            out.append((logic, ('A', f)))
    return out


TALL_SHAPES = ('neg', 'temp', 'neg-temp', 'alt', 'mid', 'rand', 'rand-small')


def _layer(rng, logic, kind, x, fixed=None):
    """one more level on top of x: kind 'N' negation, 'T' a unary temporal level (CTL: a quantified one), 'B' a binary connective or
    binary temporal operator with a leaf on the other side"""
    s = rand_leaf5(rng, ('p', 'q'))
    if kind == 'N':
        return ('not', x)
    if kind == 'T':
        if logic == 'CTL':
            q, o = fixed or (rng.choice('AE'), rng.choice('XFG'))
            return (q, (o, x))
        o = fixed or rng.choice(['X', 'F', 'G'] + (['A', 'E'] if logic == 'CTLS' else []))
        return (o, x)
    c = rng.choice(['or', 'and', 'imp', 'imp2', 'U', 'R'])
    if c in ('or', 'and'):
        return (c, s, x) if rng.random() < 0.5 else (c, x, s)
    if c == 'imp':
        return ('imp', x, s)
    if c == 'imp2':
        return ('imp', s, x)
    g = (c, s, x) if rng.random() < 0.5 else (c, x, s)
    return (rng.choice('AE'), g) if logic == 'CTL' else g


def tower(rng, logic, h, shape):
    """a formula of height >= h (h levels for the path logics) that is a tower of unary levels over a leaf or a small formula"""
    base = rand_of(logic, rng, 1) if shape == 'rand-small' else ('ap', rng.choice('pq'))
    fixed = (rng.choice('AE'), rng.choice('XFG')) if logic == 'CTL' else rng.choice('XFG')
    f = base
    if logic == 'CTL' and shape in ('neg-temp', 'mid'):
        h = (h + 1) // 2 + 1      # a quantified temporal level is two levels of the tree
    if shape == 'neg':
        kinds = ['N'] * h
    elif shape == 'temp':
        kinds = ['T'] * h
    elif shape == 'neg-temp':
        k = rng.choice((1, 1, 2, 3))
        kinds = ['T'] * (h - k) + ['N'] * k
    elif shape == 'alt':
        kinds = ['T', 'N'] * ((h + 1) // 2)
    elif shape == 'mid':
        m = rng.randint(1, 6)
        a = rng.randint(0, max(0, h - m))
        kinds = ['T'] * a + ['N'] * m + ['T'] * max(0, h - m - a)
    else:
        kinds, nb = [], 0
        for _ in range(h):
            k = rng.choice('NNTTTB')
            if k == 'B':
                nb += 1
                if nb > 2:      # the rewriting of some binary operators copies an operand: at most two such levels in a tower
                    k = 'T'
            kinds.append(k)
    for k in kinds:
        f = _layer(rng, logic, k, f, fixed if shape in ('temp', 'neg-temp', 'alt', 'mid') else None)
        if fh5(f) >= h and shape not in ('neg-temp', 'mid'):
            break
    return f


def tall_stream(rng, thorough):
    """TALL formulas: towers of every height 9..40 and of heights around 48, 64, 100, 128 (thorough: to 200) in each logic - pure
    negation chains, one temporal operator repeated, a negation (chain) on top of / in the middle of a temporal tower, alternations,
    random towers with binary levels.  A rewriting that treats tall formulas (or long negation chains) differently is seen here."""
    heights = list(range(9, 41)) + [48, 63, 64, 65, 66, 96, 100, 127, 128, 129] + ([160, 200] if thorough else [])
    out = []
    for logic in LOGICS:
        for h in heights:
            for shape in TALL_SHAPES:
                for _ in range(3 if thorough else 1):
                    f = tower(rng, logic, h, shape)
                    out.append((logic, f))
                    if logic == 'LTL' and rng.random() < 0.3:
                        out.append((logic, ('A', f)))
    return out


# ----------------------------------------------------------------------------------------------------------------------------------
# LIVE sessions: several formulas (and their results) alive at the same time, every object rewritten twice
# ----------------------------------------------------------------------------------------------------------------------------------
def logics_of(f):
    out = ['CTLS']
    if is_ctl_state(f):
        out.append('CTL')
    if is_ltl_path(f) or is_ltl_state(f):
        out.append('LTL')
    return out


def expand_refs(t, trees):
    if t[0] == 'ref':
        return trees[t[1]]
    if t[0] in ('true', 'false', 'ap'):
        return t
    return (t[0],) + tuple(expand_refs(g, trees) for g in t[1:])


def build_live(t, L, objs):
    """python object of tree t; a ('ref', i) leaf is the LIVE object of item i of the session (shared, not rebuilt)"""
    if t[0] == 'ref':
        return objs[t[1]]
    if t[0] in ('true', 'false', 'ap'):
        return to_py(t, L)
    return getattr(L, PYNAME[t[0]])(*[build_live(g, L, objs) for g in t[1:]])


def subst_at(f, path, g):
    if not path:
        return g
    i = path[0]
    return f[:i] + (subst_at(f[i], path[1:], g),) + f[i + 1:]


def paths_of(f, pre=()):
    yield pre, f
    if f[0] not in ('true', 'false', 'ap'):
        for i in range(1, len(f)):
            yield from paths_of(f[i], pre + (i,))


def printed(logic, g):
    return str(to_py(g, lang_module(logic)))


def session_stream(rng, pool, thorough):
    """sessions = lists of (logic, tree-with-refs).  Kinds:
    cross-logic : the SAME tree as a formula of 2-3 logics, in random order (equal printed forms, equal class names, different modules)
    printed-name: a formula and its copy in which one subformula g is replaced by the ATOM whose name is the printed form of g (the two
                  formulas print alike and mean different things), in both orders; sometimes across logics
    repeat      : one formula (every object of every session is rewritten twice, the second time after the whole session ran once)
    compose     : two formulas, then a formula built FROM THEIR LIVE OBJECTS (not f, f op g, a temporal operator over them)"""
    k = 4 if thorough else 1
    out = []
    small = [it for it in pool if fsize(it[1]) <= 40]
    pl = lambda: rand_path5(rng, rng.randint(1, 3))
    for _ in range(350 * k):
        r = rng.random()
        f = rand_pl5(rng, rng.randint(1, 3)) if r < 0.35 else rng.choice(small)[1]
        ls = logics_of(f)
        if len(ls) < 2:
            continue
        rng.shuffle(ls)
        out.append(('cross-logic', [(l, f) for l in ls]))
    for _ in range(450 * k):
        logic, f = rng.choice(small)
        # positions where an atom may stand (the copy is still a formula of the logic)
        cands = [(pth, g) for pth, g in paths_of(f) if g[0] != 'ap' and pth and logic in logics_of(g)
                 and logic in logics_of(subst_at(f, pth, ('ap', 'p')))]
        if not cands:
            continue
        pth, g = rng.choice(cands)
        name = printed(logic, g)
        fa = subst_at(f, pth, ('ap', name))
        l2 = logic
        if rng.random() < 0.25:
            both = [l for l in logics_of(f) if l in logics_of(fa)]
            l2 = rng.choice(both)
        pair = [(l2, fa), (logic, f)]
        if rng.random() < 0.4:
            pair.reverse()
        out.append(('printed-name', pair))
    for logic, f in rng.sample(pool, min(len(pool), 1200 * k)):
        out.append(('repeat', [(logic, f)]))
    for _ in range(300 * k):
        logic = rng.choice(LOGICS)
        a, b = rand_of(logic, rng, rng.randint(1, 3)), rand_of(logic, rng, rng.randint(1, 3))
        x, y = ('ref', 0), ('ref', 1)
        ops = [('not', x), ('or', x, y), ('and', y, x, x), ('imp', x, y), ('not', ('not', y))]
        if logic == 'CTL':
            ops += [(q, (o, x)) for q in 'AE' for o in 'XFG'] + [(q, (o, x, y)) for q in 'AE' for o in 'UR']
        else:
            ops += [(o, x) for o in 'XFG'] + [(o, x, y) for o in 'UR'] + [(o, y, x) for o in 'UR']
            if logic == 'CTLS':
                ops += [('A', x), ('E', ('U', x, y)), ('A', ('R', y, x))]
        sess = [(logic, a), (logic, b), (logic, rng.choice(ops))]
        if rng.random() < 0.5:
            sess.append((logic, rng.choice(ops + [('not', ('ref', 2)), ('or', ('ref', 2), x)])))
        out.append(('compose', sess))
    return out


def rand_pl5(rng, d):
    if d == 0 or rng.random() < 0.2:
        return rand_leaf5(rng, ('p', 'q'))
    t = rng.choice(['not', 'or', 'and', 'imp'])
    if t == 'not':
        return (t, rand_pl5(rng, d - 1))
    if t == 'imp':
        return (t, rand_pl5(rng, d - 1), rand_pl5(rng, d - 1))
    return rand_nary5(rng, t, lambda: rand_pl5(rng, d - 1), lambda: rand_pl5(rng, min(d - 1, 1)))


def session_trees(sess):
    trees = []
    for logic, t in sess:
        trees.append(expand_refs(t, trees))
    return trees


def session_obs(sess):
    """runs the session on live objects: every formula object and EVERY RESULT stays referenced until the end.  Pass 1: build item i,
    rewrite it, LNot it.  Pass 2: rewrite and LNot the same objects again.  Returns per item the two observations (as impl_obs)."""
    from pyModelChecking.language import LNot
    alive, objs, recs = [], [], []

    def one(fn):
        box = {}

        def go():
            x = fn()
            alive.append(x)
            box['l'] = sorted(langs_in(x))
            return tree_of(x)
        return call(go), box.get('l')
    for logic, t in sess:
        o = build_live(t, lang_module(logic), objs)
        objs.append(o)
        rec = {'s0': str(o)}
        recs.append(rec)
        rec['p1'] = (one(o.get_equivalent_restricted_formula), one(lambda: LNot(o)), str(o) == rec['s0'])
    for o, rec in zip(objs, recs):
        rec['p2'] = (one(o.get_equivalent_restricted_formula), one(lambda: LNot(o)), str(o) == rec['s0'])
    out = []
    for rec in recs:
        out.append([(p[0][0], p[1][0], p[2], p[0][1], p[1][1]) for p in (rec['p1'], rec['p2'])])
    del alive[:]
    return out


def judge_session(sess, obs, outs):
    """per item: the differences of the first and of the second pass from the model (the model is a function: same answer both times)"""
    trees = session_trees(sess)
    res = []
    for i, ((logic, _), f) in enumerate(zip(sess, trees)):
        m_r, m_ln = model_obs(logic, f, outs[2 * i], outs[2 * i + 1])
        b1 = judge(logic, f, obs[i][0], m_r, m_ln)
        b2 = judge(logic, f, obs[i][1], m_r, m_ln)
        res.append((logic, f, m_r, m_ln, b1, b2))
    return res


def session_violation(R, kind, sess, i, obs, jd, budget, replayed=False):
    logic, f, m_r, m_ln, b1, b2 = jd
    o = obs[i][0] if b1 else obs[i][1]
    bad = b1 if b1 else b2
    cex = None
    if budget[0] > 0:
        t_s = time.time()
        cex = witness(f, o[0], o[1], bad, R.rng)
        budget[0] -= time.time() - t_s
    R.violation('%srewriting in a live session (%s) differs from the proved model: first pass [%s] second pass on the same object [%s]'
                % ('replayed: ' if replayed else '', kind, ','.join(b1), ','.join(b2)),
                {'session_kind': kind, 'session': [[l, t] for l, t in sess], 'index': i, 'logic': logic, 'formula': f, 'formula_str': fstr(f),
                 'alive_before': ['%s: %s' % (l, fstr(t)) for (l, _), t in zip(sess[:i], session_trees(sess))],
                 'impl_first': {'restricted': obs[i][0][0], 'LNot': obs[i][0][1], 'modules': [obs[i][0][3], obs[i][0][4]]},
                 'impl_second': {'restricted': obs[i][1][0], 'LNot': obs[i][1][1], 'modules': [obs[i][1][3], obs[i][1][4]]},
                 'model_restricted': m_r, 'model_LNot': m_ln, 'semantic_counterexample': cex},
                no_input=(cex is None and not any(b in CONCRETE for b in bad)))
    return cex


def session_cmds(sess):
    cmds = []
    for (logic, _), f in zip(sess, session_trees(sess)):
        cmds.extend(model_cmds(logic, f))
    return cmds


def build_items(R):
    rng = R.rng
    items = []   # (logic, tree)
    ctlp = ctl_formulas_depth(2)
    for f in (ctlp if R.thorough else ctl_formulas_depth(1) + rng.sample(ctlp, 3000)):
        items.append(('CTL', f))
    ltlp = path_formulas_ops(2)
    for g in (ltlp if R.thorough else rng.sample(ltlp, 2500)):
        items.append(('LTL', g))
        items.append(('LTL', ('A', g)))
    ctlsp = path_formulas_ops(2, quant=True)
    for g in rng.sample(ctlsp, min(len(ctlsp), 20000 if R.thorough else 3000)):
        items.append(('CTLS', g))
    for _ in range(20000 if R.thorough else 2500):
        d = rng.randint(2, 5)
        items.append(('CTL', rand_ctl5(rng, d)))
        items.append(('LTL', rand_path5(rng, d)))
        items.append(('CTLS', rand_path5(rng, d, quant=True)))
    n_base = len(items)
    wide = wide_stream(rng, R.thorough)
    items.extend(wide)
    pool = list(items)
    tall = tall_stream(rng, R.thorough)
    items.extend(tall)
    for logic, f in rng.sample(pool, min(len(pool), 6000 if R.thorough else 700)):
        m = dict(zip(('p', 'q'), rng.sample(EXOTIC, 2)))
        items.append((logic, ren(f, m)))
    # non-ASCII / collapsing names: every pair on a fixed set of small formulas that use BOTH names, and on sampled formulas
    n0 = len(items)
    fixed = {'CTL': [('ap', 'p'), ('and', ('ap', 'p'), ('not', ('ap', 'q'))), ('A', ('G', ('imp', ('ap', 'p'), ('E', ('F', ('ap', 'q'))))))],
             'LTL': [('ap', 'q'), ('and', ('ap', 'p'), ('not', ('ap', 'q'))), ('G', ('imp', ('ap', 'p'), ('F', ('ap', 'q')))), ('A', ('U', ('ap', 'p'), ('ap', 'q')))],
             'CTLS': [('ap', 'p'), ('or', ('not', ('ap', 'p')), ('ap', 'q')), ('A', ('R', ('ap', 'q'), ('E', ('X', ('ap', 'p')))))]}
    for a, b in COLLAPSING:
        for logic in LOGICS:
            for f in fixed[logic]:
                items.append((logic, ren(f, {'p': a, 'q': b})))
    for logic, f in rng.sample(pool, min(len(pool), 6000 if R.thorough else 700)):
        pr = list(rng.choice(COLLAPSING))
        rng.shuffle(pr)
        m = dict(zip(('p', 'q'), pr))
        if rng.random() < 0.3:     # wide connectives over distinct atoms: every atom gets a non-ASCII name
            m.update({'p%d' % i: 'p\u00e8%d' % i for i in range(1, 34)})
        items.append((logic, ren(f, m)))
    return items, pool, {'base': n_base, 'wide': len(wide), 'tall': len(tall), 'exotic_names': n0 - n_base - len(wide) - len(tall),
                         'collapsing_names': len(items) - n0}


def run(R):
    R.rule = ('formulas of each logic: all CTL state formulas of depth <= 1 and a sample of depth 2 (all in thorough), all path formulas with <= 2 operators '
              '(with and without quantifiers) as LTL / CTL* objects, random to depth 5 (or/and mostly of width 2-3, also 0, 1 and 4-12); WIDE stream: or/and of '
              'every width 0..13 and 16,17,24,25,32,33 over distinct atoms p1..pw, over small random operands, nested in one another and under not/imp/or/and/'
              'temporal operators/quantifiers; NAMES: a sample renamed to non-identifier names and to pairs of distinct non-ASCII / unicode names that collapse '
              'under ascii-ignore, NFC/NFKC, case folding, stripping (names reach the model as their UTF-8 bytes); compared: tree of '
              'get_equivalent_restricted_formula() and of LNot vs model (atom names byte-exact), language module of every node of both results = module of the '
              'input, restricted-alphabet membership recomputed on the python object, no leading double negation, input unchanged; witnesses: structures '
              'labelled with the atom names of the formula and of its rewriting (tall formulas: deterministic structures, one path per state, evaluated by '
              'fixed points along the path); TALL stream: towers of every height 9..40 and 48,63-66,96,100,127-129 per logic (negation chains, one '
              'temporal operator repeated, negations on top of / inside a temporal tower, alternations, random towers with binary levels); LIVE sessions: '
              'formulas and ALL their results kept alive together and every object rewritten and LNot-ed TWICE (second pass after the whole session), '
              'kinds cross-logic (same tree as CTL/LTL/CTL* formula, any order), printed-name (a formula and its copy with a subformula replaced by the '
              'atom named like its printed form), repeat (one pool formula), compose (formulas built from the live objects of earlier ones); each pass '
              'is compared with the model like a single case; non-trivial = the rewrite changes the tree')
    rng = R.rng
    items, pool, dist = build_items(R)
    cmds, meta = [], []
    for logic, f in items:
        meta.append((logic, f, impl_obs(logic, f)))
        cmds.extend(model_cmds(logic, f))
    # live sessions (several formulas and results alive together, every object rewritten twice)
    sessions = session_stream(rng, pool, R.thorough)
    sobs = []
    for kind, sess in sessions:
        sobs.append(session_obs(sess))
        cmds.extend(session_cmds(sess))
    outs = model_batch_parallel(cmds)
    souts = outs[2 * len(items):]
    hw, nonascii = {}, 0
    differing = []
    for i, (logic, f, obs) in enumerate(meta):
        R.evaluations += 1
        m_r, m_ln = model_obs(logic, f, outs[2 * i], outs[2 * i + 1])
        r, ln = obs[0], obs[1]
        nary_widths(f, hw)
        if any(ord(c) > 127 for a in fatoms(f) for c in a):
            nonascii += 1
        bad = judge(logic, f, obs, m_r, m_ln)
        if bad:
            differing.append((logic, f, obs, m_r, m_ln, bad))
            continue
        if r[0] == 'ok' and r[1] != f:
            R.nontriv((logic, f))
            R.sample({'logic': logic, 'formula': fstr(f), 'restricted': fstr(r[1])})
    # witnesses are searched until 45 s have been spent on it; later differences are reported as they are.  Many differences of one
    # mutation are harmless simplifications (no witness exists, each costs the full per-case budget): formulas over unusual atom names
    # and small formulas are searched first, and the kinds of difference take turns.
    def prio(d):
        logic, f, obs, m_r, m_ln, bad = d
        return (0 if not fatoms(f) <= {'p', 'q'} else 1, fsize(f))
    groups = {}
    for d in sorted(differing, key=prio):
        groups.setdefault((d[0], tuple(d[5]), prio(d)[0], d[1][0]), []).append(d)
    order = []
    while any(groups.values()):
        for k in sorted(groups, key=lambda k: (k[2], k)):
            if groups[k]:
                order.append(groups[k].pop(0))
    nsearch = 0.0
    for logic, f, obs, m_r, m_ln, bad in order:
        r, ln = obs[0], obs[1]
        cex = None
        if nsearch <= 45.0:
            t_s = time.time()
            cex = witness(f, r, ln, bad, rng)
            nsearch += time.time() - t_s
        R.violation('rewriting differs from the proved model: %s' % ','.join(bad),
                    {'logic': logic, 'formula': f, 'formula_str': fstr(f), 'impl_restricted': r, 'model_restricted': m_r,
                     'impl_LNot': ln, 'model_LNot': m_ln, 'impl_modules': {'restricted': obs[3], 'LNot': obs[4]},
                     'semantic_counterexample': cex},
                    no_input=(cex is None and not any(b in CONCRETE for b in bad)))
    # sessions
    pos, hk, hh = 0, {}, {}
    sdiff = []
    for (kind, sess), ob in zip(sessions, sobs):
        n = len(sess)
        jds = judge_session(sess, ob, souts[pos:pos + 2 * n])
        pos += 2 * n
        hk[kind] = hk.get(kind, 0) + 1
        for i, jd in enumerate(jds):
            R.evaluations += 1
            if jd[4] or jd[5]:
                sdiff.append((kind, sess, i, ob, jd))
            elif ob[i][0][0][0] == 'ok' and ob[i][0][0][1] != jd[1]:
                R.nontriv((kind, jd[0], jd[1]))
    budget = [30.0]
    # one mutation shows in many sessions: small formulas first, at most 60 reports per kind of session
    sdiff.sort(key=lambda d: fsize(d[4][1]))
    nrep = {}
    for kind, sess, i, ob, jd in sdiff:
        nrep[kind] = nrep.get(kind, 0) + 1
        if nrep[kind] <= 60:
            session_violation(R, kind, sess, i, ob, jd, budget)
    if any(v > 60 for v in nrep.values()):
        R.cov['session_differences_not_listed'] = {k_: v - 60 for k_, v in nrep.items() if v > 60}
    for logic, f in items:
        h = fh5(f)
        if h >= 9:
            b = '9-16' if h <= 16 else '17-32' if h <= 32 else '33-64' if h <= 64 else '65-128' if h <= 128 else '>128'
            hh[b] = hh.get(b, 0) + 1
    R.cov['sessions_by_kind'] = hk
    R.cov['formulas_by_height'] = hh
    R.cov['distribution'] = {l: sum(1 for it in items if it[0] == l) for l in LOGICS}
    R.cov['streams'] = dist
    R.cov['or_and_nodes_by_width'] = {str(k): hw[k] for k in sorted(hw)}
    R.cov['formulas_with_non_ascii_atom'] = nonascii


def replay_live(R, d):
    sess = [(l, detuple(t)) for l, t in d['session']]
    kind, i = d.get('session_kind', '?'), d['index']
    ob = session_obs(sess)
    jds = judge_session(sess, ob, model_batch(session_cmds(sess)))
    for j, ((l, _), t) in enumerate(zip(sess, session_trees(sess))):
        print('item %d %s %s: %s' % (j, '*' if j == i else ' ', l, fstr(t)))
        print('   first  pass: restricted', ob[j][0][0], ' LNot', ob[j][0][1], ' modules', ob[j][0][3], ob[j][0][4])
        print('   second pass: restricted', ob[j][1][0], ' LNot', ob[j][1][1], ' modules', ob[j][1][3], ob[j][1][4])
        print('   model      : restricted', jds[j][2], ' LNot', jds[j][3])
        print('   differs    : first', jds[j][4], ' second', jds[j][5])
    for j, jd in enumerate(jds):
        if jd[4] or jd[5]:
            cex = session_violation(R, kind, sess, j, ob, jd, [30.0], replayed=True)
            print('witness (item %d):' % j, cex)


def replay(R, data):
    d = data['data']
    if 'session' in d:
        return replay_live(R, d)
    f = detuple(d['formula'])
    logic = d['logic']
    obs = impl_obs(logic, f)
    outs = model_batch(model_cmds(logic, f))
    m_r, m_ln = model_obs(logic, f, outs[0], outs[1])
    print('formula         :', fstr(f))
    print('impl  restricted:', obs[0], ' modules', obs[3])
    print('model restricted:', m_r)
    print('impl  LNot      :', obs[1], ' modules', obs[4])
    print('model LNot      :', m_ln)
    bad = judge(logic, f, obs, m_r, m_ln)
    if bad:
        cex = witness(f, obs[0], obs[1], bad, R.rng)
        print('differs         :', ','.join(bad))
        print('witness         :', cex)
        R.violation('replayed: rewriting differs from the proved model: %s' % ','.join(bad), dict(d, semantic_counterexample=cex),
                    no_input=(cex is None and not any(b in CONCRETE for b in bad)))
