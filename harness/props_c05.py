"""C05 - rewriting to the restricted syntax and LNot preserve meaning.
Theorems (Properties/C05.v): LNot_sem, LNot_head, restrict_sem, restrict_alpha, restrict_ctl_spec.
Correspondence (syntactic, the tightest tie available): the tree returned by
get_equivalent_restricted_formula() / LNot on live objects equals the model's tree."""
from common import *
from mccheck import *
LEVEL = 'proof'

RCMD = {'LTL': 'restrictltl', 'CTLS': 'restrict'}
RESTR = {'true', 'false', 'ap', 'not', 'or', 'X', 'U', 'E'}


def alphabet_ok(t, ctl):
    """restricted alphabet recomputed on the python result (independent of the model)"""
    if ctl:
        k = t[0]
        if k in ('true', 'false', 'ap'):
            return True
        if k in ('not', 'or'):
            return all(alphabet_ok(g, True) for g in t[1:])
        if k == 'E' and t[1][0] in ('X', 'U', 'G'):
            return all(alphabet_ok(g, True) for g in t[1][1:])
        return False
    return all(g[0] in RESTR for g in subformulas(t))


def starts_two_nots(t):
    return t[0] == 'not' and t[1][0] == 'not'


_SEARCH = []


def semantic_counterexample(f, r, rng):
    """search structures for a state where f and r differ under the reference semantics: every 1-state structure, a sample of the
    2-state ones, and random structures with 3-5 states (an until over alternating labels needs >= 3 states).  Path formulas are
    compared under both quantifiers (A f vs A r, E f vs E r)."""
    if not _SEARCH:
        r0 = random.Random(5)
        labs = [[], ['p'], ['q'], ['p', 'q']]
        lassos = [{'S': [0, 1, 2], 'S0': [], 'R': [(0, 1), (1, 2), (2, 2)], 'L': {0: a, 1: b, 2: c}} for a in labs for b in labs for c in labs]
        r0.shuffle(lassos)
        _SEARCH.extend(lassos + list(all_kripkes(1)) + r0.sample(list(all_kripkes(2)), 60) +
                       [rand_kripke(r0, r0.randint(3, 5), maxdeg=2) for _ in range(120)])
    pairs = [(f, r)] if (is_ctls_state(f) and is_ctls_state(r)) else [(('A', f), ('A', r)), (('E', f), ('E', r))]
    if fsize(f) > 14:
        return None           # the reference evaluator is exponential in the formula: witnesses are searched for small formulas only
    t_end = time.time() + 3.0
    names = sorted(fatoms(f))
    m = dict(zip(('p', 'q'), names)) if (names and not set(names) <= {'p', 'q'}) else None
    for kd in _SEARCH:
        if time.time() > t_end:
            return None
        if m:           # the structures are labelled with the formula's own atom names
            kd = dict(kd, L={s_: [m.get(a, a) for a in ls] for s_, ls in kd['L'].items()})
        for a, b in pairs:
            try:
                if ref_check(kd, a) != ref_check(kd, b):
                    return {'kripke': kd_json(kd), 'original': fstr(a), 'rewritten': fstr(b),
                            'states_original': sorted(ref_check(kd, a)), 'states_rewritten': sorted(ref_check(kd, b))}
            except Exception:
                return None
    return None


def run(R):
    from pyModelChecking.language import LNot
    import pyModelChecking.CTL as CTL, pyModelChecking.LTL as LTL, pyModelChecking.CTLS as CTLS
    R.rule = ('formulas of each logic: all CTL state formulas of depth <= 1 and a sample of depth 2 (all in thorough), all path formulas with <= 2 operators '
              '(with and without quantifiers) as LTL / CTL* objects, random to depth 5; compared: tree of get_equivalent_restricted_formula() and of LNot '
              'vs model, restricted-alphabet membership recomputed on the python object, no leading double negation; non-trivial = the rewrite changes the tree')
    rng = R.rng
    items = []   # (logic, tree)
    ctlp = ctl_formulas_depth(2)
    for f in (ctlp if R.thorough else ctl_formulas_depth(1) + rng.sample(ctlp, 3000)):
        items.append(('CTL', f))
    ltlp = path_formulas_ops(2)
    for g in (ltlp if R.thorough else rng.sample(ltlp, 2500)):
        items.append(('LTL', g))
        items.append(('LTL', ('A', g)))
    ctlsp = path_formulas_ops(2, quant=True)
    for g in rng.sample(ctlsp, min(len(ctlsp), 20000 if R.thorough else 3000)):
        items.append(('CTLS', g))
    for _ in range(20000 if R.thorough else 2500):
        d = rng.randint(2, 5)
        items.append(('CTL', rand_ctl(rng, d)))
        items.append(('LTL', rand_path(rng, d)))
        items.append(('CTLS', rand_path(rng, d, quant=True)))
    # atom names that are not identifiers (blanks, operators, brackets, quotes, printed formulas, reserved words): the rewriting may
    # not look at, let alone change, the NAME of an atom - the model treats names as opaque strings
    EXOTIC = ['door open', 'x>0', 'not p', '(p or q)', 'p U q', '"q"', 'A', 'true', '', ' p', 'p ', 'a.b', "it's", '[E(X(p))]', 'fair0']

    def ren(f, m):
        if f[0] == 'ap':
            return ('ap', m.get(f[1], f[1]))
        if f[0] in ('true', 'false'):
            return f
        return (f[0],) + tuple(ren(g, m) for g in f[1:])
    for logic, f in rng.sample(items, min(len(items), 6000 if R.thorough else 700)):
        m = dict(zip(('p', 'q'), rng.sample(EXOTIC, 2)))
        items.append((logic, ren(f, m)))
    cmds, meta = [], []
    for logic, f in items:
        L = {'CTL': CTL, 'LTL': LTL, 'CTLS': CTLS}[logic]
        o = to_py(f, L)
        s0 = str(o)
        r = call(lambda: tree_of(o.get_equivalent_restricted_formula()))
        ln = call(lambda: tree_of(LNot(o)))
        meta.append((logic, f, r, ln, str(o) == s0))
        cmds.append(['restrictctl', fsx(f)] if logic == 'CTL' else [RCMD[logic], fsx(f)])
        # LNot of an LTL state formula A g would be Not(A g), which is not LTL: TypeError (model: mk)
        cmds.append(['mk', 'LTL', 'not', ['LTL', fsx(f)]] if (logic == 'LTL' and f[0] == 'A') else ['lnot', fsx(f)])
    outs = model_batch_parallel(cmds)
    nsearch = [0.0]
    for i, (logic, f, r, ln, unchanged) in enumerate(meta):
        R.evaluations += 1
        o_r, o_ln = outs[2 * i], outs[2 * i + 1]
        if logic == 'CTL':
            m_r = ('ok', fparse(o_r[1])) if o_r[0] == 'some' else ('err', 'TypeError')
        else:
            m_r = ('ok', fparse(o_r))
        if logic == 'LTL' and f[0] == 'A':
            m_ln = ('ok', fparse(o_ln[1][1])) if o_ln[0] == 'ok' else ('err', o_ln[1])
        else:
            m_ln = ('ok', fparse(o_ln))
        bad = []
        if tuple(r) != m_r:
            bad.append('restricted')
        if tuple(ln) != m_ln:
            bad.append('LNot')
        # an LTL formula is A rho: the documented restricted LTL syntax restricts the path formula rho
        rr = r[1][1] if (r[0] == 'ok' and logic == 'LTL' and f[0] == 'A' and r[1][0] == 'A') else (r[1] if r[0] == 'ok' else None)
        if r[0] == 'ok' and not alphabet_ok(rr, logic == 'CTL'):
            bad.append('alphabet')
        if ln[0] == 'ok' and starts_two_nots(ln[1]):
            bad.append('double-negation')
        if not unchanged:
            bad.append('formula modified')
        if bad:
            cex = None
            t_s = time.time()
            if nsearch[0] > 45.0:
                pass          # witnesses are searched until 45 s have been spent on it; later differences are reported as they are
            elif 'restricted' in bad and r[0] == 'ok':
                cex = semantic_counterexample(f, r[1], rng)
            if cex is None and nsearch[0] <= 45.0 and 'LNot' in bad and ln[0] == 'ok':
                # LNot(f) must be equivalent to not f: look for a structure/state where they differ
                g0 = f if is_ctls_state(f) else ('A', f)
                g1 = ln[1] if is_ctls_state(f) else ('A', ('not', ln[1]))
                g0 = ('not', g0) if is_ctls_state(f) else g0
                # state formulas: not f vs LNot f;  path formulas: A f vs A not (LNot f)
                cex = semantic_counterexample(g0, g1, rng)
            nsearch[0] += time.time() - t_s
            R.violation('rewriting differs from the proved model: %s' % ','.join(bad),
                        {'logic': logic, 'formula': f, 'formula_str': fstr(f), 'impl_restricted': r, 'model_restricted': m_r,
                         'impl_LNot': ln, 'model_LNot': m_ln, 'semantic_counterexample': cex},
                        no_input=(cex is None and 'alphabet' not in bad and 'double-negation' not in bad and 'formula modified' not in bad))
            continue
        if r[0] == 'ok' and r[1] != f:
            R.nontriv((logic, f))
            R.sample({'logic': logic, 'formula': fstr(f), 'restricted': fstr(r[1])})
    R.cov['distribution'] = {l: sum(1 for it in items if it[0] == l) for l in ('CTL', 'LTL', 'CTLS')}


def replay(R, data):
    d = data['data']
    from pyModelChecking.language import LNot
    f = detuple(d['formula'])
    L = lang_module(d['logic'])
    o = to_py(f, L)
    r = call(lambda: tree_of(o.get_equivalent_restricted_formula()))
    m = model_batch([['restrictctl', fsx(f)] if d['logic'] == 'CTL' else [RCMD[d['logic']], fsx(f)]])[0]
    print('impl :', r)
    print('model:', m)
    mr = (('ok', fparse(m[1])) if m[0] == 'some' else ('err', 'TypeError')) if d['logic'] == 'CTL' else ('ok', fparse(m))
    if tuple(r) != mr:
        R.violation('replayed', d)
