"""ref.py - independent reference semantics for CTL* on finite total Kripke structures.
Used ONLY to classify disagreements between code and model and to evaluate known-finding
predicates; it never replaces a theorem.
Formulas: tuples ('true',), ('false',), ('ap',name), ('not',f), ('or',f,g,...), ('and',...), ('imp',f,g),
('X',f),('F',f),('G',f),('U',f,g),('R',f,g),('A',f),('E',f)
LTL E-check: by nested fixpoint over 'subformula valuation' automaton (standard tableau with full atoms).
"""
import itertools

def nnf_restrict(f):
    t=f[0]
    if t in('true','ap'): return f
    if t=='false': return ('not',('true',))
    if t=='not': return ('not',nnf_restrict(f[1]))
    if t=='or': 
        r=nnf_restrict(f[1])
        for g in f[2:]: r=('or',r,nnf_restrict(g))
        return r
    if t=='and':
        return ('not',nnf_restrict(('or',)+tuple(('not',g) for g in f[1:])))
    if t=='imp': return nnf_restrict(('or',('not',f[1]),f[2]))
    if t=='X': return ('X',nnf_restrict(f[1]))
    if t=='F': return ('U',('true',),nnf_restrict(f[1]))
    if t=='G': return ('not',('U',('true',),('not',nnf_restrict(f[1]))))
    if t=='U': return ('U',nnf_restrict(f[1]),nnf_restrict(f[2]))
    if t=='R': return ('not',('U',('not',nnf_restrict(f[1])),('not',nnf_restrict(f[2]))))
    if t=='E': return ('E',nnf_restrict(f[1]))
    if t=='A': return ('not',('E',('not',nnf_restrict(f[1]))))
    raise ValueError(f)

def subs(f,acc):
    if f in acc: return
    for g in (f[1:] if f[0]!='ap' else ()):
        if isinstance(g,tuple): subs(g,acc)
    acc.append(f)

def sccs(nodes,succ):
    # simple: mutual reachability
    reach={}
    for n in nodes:
        R=set();st=[n]
        while st:
            x=st.pop()
            for y in succ[x]:
                if y not in R: R.add(y);st.append(y)
        reach[n]=R
    comps=[];seen=set()
    for n in nodes:
        if n in seen: continue
        c={m for m in nodes if (m==n) or (m in reach[n] and n in reach[m])}
        seen|=c;comps.append(c)
    return comps,reach

def checkE_path(states,succ,lab,g,fair=None):
    """states satisfying E g, g restricted LTL over atoms where ('ap',x) looked up via lab(s,x); 
    ('E',..) subformulas must have been replaced already. fair: list of sets (generalized Buchi) or None."""
    sf=[];subs(g,sf)
    elem=[f for f in sf if f[0] in('X','U')]  # free choices: X f truth; for U: truth of X(U)
    # node = (s, valuation) where valuation assigns truth to each subformula consistently given choices for X-formulas and 'X(U)' promises
    def evalv(s,choice):
        val={}
        for f in sf:
            t=f[0]
            if t=='true': v=lab(s,True)
            elif t=='ap': v=lab(s,f[1])
            elif t=='not': v=not val[f[1]]
            elif t=='or': v=val[f[1]] or val[f[2]]
            elif t=='X': v=choice[f]
            elif t=='U': v=val[f[2]] or (val[f[1]] and choice[f])
            else: raise ValueError(f)
            val[f]=v
        return val
    nodes=[];vals={}
    for s in states:
        for bits in itertools.product([False,True],repeat=len(elem)):
            ch=dict(zip(elem,bits))
            n=(s,bits);nodes.append(n);vals[n]=(evalv(s,ch),ch)
    succn={n:[] for n in nodes}
    for n in nodes:
        s,_=n;val,ch=vals[n]
        for d in succ[s]:
            for m in nodes:
                if m[0]!=d: continue
                valm,_=vals[m]
                ok=True
                for f in elem:
                    if f[0]=='X':
                        if ch[f]!=valm[f[1]]: ok=False;break
                    else:
                        if ch[f]!=valm[f]: ok=False;break
                if ok: succn[n].append(m)
    comps,reach=sccs(nodes,succn)
    good=set()
    for c in comps:
        n0=next(iter(c))
        if len(c)==1 and n0 not in succn[n0]: continue
        ok=True
        for f in elem:
            if f[0]=='U':
                if any(vals[n][0][f] for n in c) and not any(vals[n][0][f[2]] for n in c): ok=False;break
        if ok and fair is not None:
            for P in fair:
                if not any(n[0] in P for n in c): ok=False;break
        if ok: good|=c
    res=set()
    for n in nodes:
        if vals[n][0][g] and (n in good or any(m in good for m in reach[n])):
            res.add(n[0])
    return res

def check(states,succ,labels,f,fair=None):
    """returns set of states satisfying CTL* state formula f (any syntax). fair: list of sets or None"""
    f=nnf_restrict(f)
    extra={}  # fresh atom -> set of states
    def lab(s,x):
        if isinstance(x,tuple): return s in extra[x]
        if x is True: return True
        return x in labels[s]
    def elim(g):
        t=g[0]
        if t in('true','ap'): return g
        if t=='E':
            inner=elim(g[1])
            S=checkE_path(states,succ,lab,inner,fair)
            key=('fresh',len(extra));extra[key]=S
            return ('ap',key)
        return (t,)+tuple(elim(h) for h in g[1:])
    if fair is not None:
        fairstates=checkE_path(states,succ,lab,('true',),fair)
        base=lab
        def lab(s,x,base=base):
            if isinstance(x,tuple): return s in extra[x]
            if x is True: return s in fairstates
            return (x in labels[s]) and s in fairstates
        # 'true' under fairness: CGP: atoms p hold iff p in L(s) and s fair. true is an atom? treat 'true' as plain true here.
    g=elim(f)
    # now g is boolean combination of atoms: evaluate as E g (state formula => path-independent)
    return checkE_path(states,succ,lab,g,None)
