"""C10 - parsers reject text outside their language with a positioned ParserError.
Theorems (Properties/C10.v): the model parser is total; every accepted string yields a formula of exactly that
logic (and is derivable in the documented grammar); examples 'A F G q' (CTL), 'E F q' (LTL) are rejected.
Correspondence: for every generated string and each of the four parsers
  * outcome class: a formula, or pyModelChecking.parser.UnexpectedToken / UnexpectedCharacters (class identity)
    with an int .pos, 0 <= pos <= len(s) -- monitored on the implementation (the model does not predict .pos);
  * on accept: every node of the result belongs to the parser's own language module and the tree passes the
    independent documented-grammar recognisers of common.py (is_pl, is_ctl_state/is_ctl_path, is_ltl_path/
    is_ltl_state, arities);
  * accept/reject and the tree equal the model's parse (the model is proved to accept only the documented grammar);
  * upper bound (sampled in quick): whatever the LALR parser accepts is derivable with Lark's Earley parser +
    dynamic lexer on the live grammar text (the pure CFG).
Further streams: non-ASCII characters that regexes / str methods treat like ASCII ones (Unicode decimal digits, letters
that case-fold to ASCII letters, word-class letters, fullwidth forms, Unicode blanks, operator look-alikes) inside and around names;
keywords in another case; inputs nested 500..5000 deep, whose results are read ITERATIVELY (explicit stack over
.subformulas(), the recursion limit is never raised); and SESSIONS: one fresh parser object per logic is given a sequence in
which every string comes back a second and a third time, interleaved with look-alikes (blank-padded, blank-collapsed,
case-changed, fullwidth) - every call must give the outcome of a parser that has never seen anything.
Second audit (c10_streams.py): every character U+0000..U+00FF and text-templating metacharacter sequences (% { $ \\ ...) in templates,
garbage / one-character edits over all of ASCII, lone surrogates and other unencodable / special code points, exotic QUOTED atoms
followed by an error later in the text; observer FOLD (.pos and outcome are invariant under non-ASCII -> '#', tab -> blank);
observer TYPED (str-subclass instances get the outcome of the exact str)."""
from common import *
import parsegen as PG
import c10_streams as S2
LEVEL = 'proof'
LANGS = PG.LANGS

# documented examples, expected outcome written down by hand (independent of the model): language -> string -> tree | None
_p, _q = ('ap', 'p'), ('ap', 'q')
CORPUS = {
    'CTL': {'A F G q': None, 'E F q': ('E', ('F', _q)), 'A p': None, 'A (p or q)': None, 'A G F p': None, 'E X X p': None, 'X p or q': None,
            'A G (p --> A F q)': ('A', ('G', ('imp', _p, ('A', ('F', _q))))), 'A(p U q) or q': ('or', ('A', ('U', _p, _q)), _q), '(A(p U q)) or q': ('or', ('A', ('U', _p, _q)), _q),
            'A((p U q))': ('A', ('U', _p, _q)), 'E(p R not q)': ('E', ('R', _p, ('not', _q))), 'p U q': ('U', _p, _q), 'A F': None},
    'LTL': {'E F q': None, 'A F G q': ('A', ('F', ('G', _q))), 'A (p U q) or q': None, 'not A p': None, 'A A p': None, 'p U A q': None,
            'A G (p --> F q)': ('A', ('G', ('imp', _p, ('F', _q)))), 'p U q': ('U', _p, _q), 'G F p or q': ('or', ('G', ('F', _p)), _q), 'G (F p or q)': ('G', ('or', ('F', _p), _q)), '(G F p) or q': ('or', ('G', ('F', _p)), _q),
            'A G (p --> A F q)': None, 'A': None},
    'PL': {'X p': None, 'p U q': None, 'A p': None, 'p --> q': ('imp', _p, _q), 'p or q or p': ('or', _p, _q, _p), 'p or q and p': None,
           'p --> q --> p': None, 'not not p': ('not', ('not', _p)), 'p -> q': None, '': None},
    'CTLS': {'A F G q': ('A', ('F', ('G', _q))), 'E F q': ('E', ('F', _q)), 'A (p U q) or q': ('or', ('A', ('U', _p, _q)), _q), 'A p U q': ('U', ('A', _p), _q), '(A (p U q)) or q': ('or', ('A', ('U', _p, _q)), _q),
             'p U q U p': None, 'A G (p --> E F (q and X p))': ('A', ('G', ('imp', _p, ('E', ('F', ('and', _q, ('X', _p))))))), 'A': None,
             'not': None, 'p q': None, '(p': None, 'p)': None},
}


def build_cases(R):
    """list of (stream, string, origin) - origin = (kind, string one token edit away) for the mutation stream"""
    rng = R.rng
    th = R.thorough
    cases = []
    add = lambda st, s, org=None: cases.append((st, s, org))
    # --- word sequences over the 17-word alphabet: all of length <= 3; length 4: all (thorough) / a sample (quick)
    for n in (1, 2, 3):
        for s in PG.seqs(PG.WORDS17, n):
            add('words<=3', s)
    if th:
        for s in PG.seqs(PG.WORDS17, 4):
            add('words4', s)
    else:
        for _ in range(9000):
            add('words4', PG.rand_seq(rng, PG.WORDS17, 4))
    for _ in range(40000 if th else 3000):
        add('words5-7', PG.rand_seq(rng, PG.WORDS17, rng.randint(5, 7)))
    # --- the same plus synonyms ~ | &, a quoted atom and keyword-prefixed atoms
    wx = PG.WORDS17 + PG.EXTRA
    for n in ((1, 2, 3) if th else (1, 2)):
        for s in PG.seqs(wx, n):
            add('wordsx', s)
    for _ in range(30000 if th else 4000):
        add('wordsx', PG.rand_seq(rng, wx, rng.randint(3, 5)))
    # --- glued forms: '' or ' ' between the words
    for n in ((1, 2, 3) if th else (1, 2)):
        for s in PG.glued(PG.WORDS17, n):
            add('glued', s)
    for _ in range(30000 if th else 4000):
        add('glued', PG.rand_seq(rng, wx if rng.random() < 0.3 else PG.WORDS17, rng.randint(3, 5), glue=True))
    # --- valid printed formulas of every logic, given to all four parsers (cross-feeding)
    pools = PG.printed_pools(rng, 3000 if th else 260)
    valid = []
    for name in PG.POOLS:
        for s in pools[name]:
            add('printed:' + name, s)
            valid.append((name, s))
    # --- exactly one token-level edit (delete / insert / swap neighbours / replace) of a valid string
    for name, s in valid:
        toks = PG.TOKEN_RE.findall(s)
        for _ in range(4):
            m = PG.mutate1(rng, toks)
            if m is not None:
                add('mutated:' + name, ' '.join(m[1]), (m[0], ' '.join(toks)))
        add('spaced:' + name, ' '.join(toks))     # the un-edited token sequence in the same spelling
        for _ in range(2):
            add('respaced:' + name, PG.respace(rng, s))
    # --- hand-written corner cases and the character-level garbage stream
    for L in LANGS:
        for s in CORPUS[L]:
            add('corpus', s)
    for s in PG.special_strings():
        add('special', s)
    for s in PG.long_inputs(rng):
        add('long', s)
    for _ in range(40000 if th else 5000):
        add('garbage', PG.garbage(rng, 14))
    sample = valid if len(valid) <= 4000 else rng.sample(valid, 4000)
    for name, s in sample:
        for _ in range(3 if th else 2):
            add('charmut', PG.char_mutation(rng, s))
    # --- non-ASCII characters that behave like ASCII ones for \d, \w, re.IGNORECASE, str.isdigit/isalpha/strip, NFKC
    for t in PG.unicode_fixed():
        add('unicode_fixed', t)
    for name, s in valid:
        for _ in range(2 if th else 1):
            add('unicode_mut', PG.unicode_mutation(rng, s))
    for _ in range(20000 if th else 1500):
        add('unicode_words', PG.unicode_words(rng, rng.randint(1, 4)))
    # --- keywords in another case (plain names, never operators)
    for _ in range(20000 if th else 2000):
        add('casewords', PG.case_words(rng, rng.randint(1, 5)))
    # --- second audit: every character U+0000..U+00FF in every template; text-templating metacharacter sequences; garbage and
    #     one-character edits over ALL of ASCII; lone surrogates / non-characters / private use / bidi controls
    for t in S2.fixed(S2.BYTES):
        add('bytes_fixed', t)
    for t in S2.fixed(S2.META, S2.META_TEMPLATES):
        add('meta_fixed', t)
    for _ in range(20000 if th else 1500):
        add('ascii_garbage', S2.ascii_garbage(rng))
    for name, s in sample:
        for _ in range(2 if th else 1):
            add('ascii_charmut', S2.char_edit(rng, s, S2.ASCII + S2.META))
    for t in S2.fixed(S2.ODD):
        add('odd_fixed', t)
    for name, s in (sample if th else rng.sample(sample, min(len(sample), 700))):
        add('odd_mut', S2.char_edit(rng, s, S2.ODD))
    # --- quoted atoms with wide / non-BMP / combining / tab / surrogate content FIRST, the error LATER in the text
    for t in S2.quoted_fixed(rng):
        add('quoted_tail', t)
    for name, s in sample:
        for _ in range(3 if th else 1):
            add('quoted_tail', S2.quoted_tail(rng, s)[1])
    # --- sessions: sequences for ONE parser object per logic; every string comes back a second and a third time
    corpus = sorted({s for L in LANGS for s in CORPUS[L]})
    by_stream = {}
    for st, s, _ in cases:
        if len(s) <= 200:
            by_stream.setdefault(st.split(':')[0], []).append(s)
    sessions = [PG.session(rng, corpus)]
    for _ in range(160 if th else 23):
        base = []
        for st, k in (('printed', 8), ('mutated', 8), ('respaced', 3), ('special', 4), ('garbage', 3), ('unicode_fixed', 2), ('unicode_mut', 2), ('words<=3', 2), ('charmut', 2),
                      ('quoted_tail', 2), ('meta_fixed', 1), ('odd_fixed', 1)):
            base += rng.sample(by_stream[st], k)
        rng.shuffle(base)
        sessions.append(PG.session(rng, base))
    for seq in sessions:
        for t in seq:
            add('history', t)
    # --- nesting far beyond the recursion limit (read iteratively, compared separately)
    deep = PG.deep_inputs(rng)
    seen = set()
    out = []
    for c in cases:
        if (c[0], c[1]) not in seen:
            seen.add((c[0], c[1]))
            out.append(c)
    return out, sessions, deep


def contract(L, s, r, flat=False):
    """the part monitored on the implementation alone; returns a list of complaints"""
    bad = []
    if r[0] == 'ok':
        if r[2] != (L,):
            bad.append('formula of another logic: node languages %s' % (r[2],))
        if not (PG.doc_member_flat(L, r[1]) if flat else PG.doc_member(L, r[1])):
            bad.append('accepted tree is outside the documented grammar')
    elif r[0] == 'okbad':
        bad.append('returned a non-formula: %s' % r[1])
    else:
        if r[1].startswith('other:'):
            bad.append('raised %s' % r[1][6:])
        elif not r[2]:
            bad.append('%s.pos = %r outside 0..%d' % (r[1], r[3], len(s)))
    return bad


def flat_depth(toks):
    """nesting depth of a preorder token list"""
    depth, best, pending = 0, 0, []
    for tk in toks:
        if isinstance(tk, str):
            while pending:
                pending[-1] -= 1
                if pending[-1] > 0:
                    break
                pending.pop()
        else:
            pending.append(tk[1])
            best = max(best, len(pending))
    return best


def flat_summary(r):
    """a deep outcome without its thousands of tokens"""
    if r[0] == 'ok':
        return ('ok', {'tokens': len(r[1]), 'depth': flat_depth(r[1]), 'first': r[1][:8], 'last': r[1][-4:]}) + tuple(r[2:])
    return r


def short(x, n=300):
    t = repr(x)
    return t if len(t) <= n else t[:n] + '...'


def language_parameter(R):
    """the public `language=` argument of the parsers: <L>.Parser(language=M) builds the objects of module M (for M in which the
    accepted formula is a formula: the parser's own logic and the logics above it), a parser built WITHOUT it builds objects of its
    own logic - whichever parsers were constructed before in the same process (a construction cache may not ignore the argument)"""
    ABOVE = {'PL': ['PL', 'CTL', 'LTL', 'CTLS'], 'CTL': ['CTL', 'CTLS'], 'LTL': ['LTL', 'CTLS'], 'CTLS': ['CTLS']}
    TEXTS = {'PL': ['not p or true', 'p', '(p and q) --> false'],
             'CTL': ['not p or true', 'A G (p --> E F q)', 'p', 'E (p U A X q)'],
             'LTL': ['not p or true', 'A G (p --> F q)', 'p', 'A ((X p) R q)'],
             'CTLS': ['not p or true', 'A G F p', 'p', 'E (F G q and X p)']}
    nb = 0
    for rnd in range(2):                                    # twice: the second round meets whatever the first one left behind
        for Ln in (LANGS if rnd == 0 else list(reversed(LANGS))):
            P = lang_module(Ln).Parser
            for Mn in (ABOVE[Ln] if rnd == 0 else list(reversed(ABOVE[Ln]))) + [None]:
                for text in TEXTS[Ln]:
                    R.evaluations += 1
                    want = Mn or Ln
                    r = call(lambda: (lambda o: (sorted(langs_in(o)), tree_of(o)))(P(language=lang_module(Mn))(text) if Mn else P()(text)))
                    base = call(lambda: tree_of(PG.parsers()[Ln](text)))
                    if r[0] != 'ok' or r[1][0] != [want] or base[0] != 'ok' or r[1][1] != base[1]:
                        nb += 1
                        if nb <= 6:
                            R.violation('%s.Parser(%s)(%r): the result is not the formula of module %s' % (Ln, 'language=%s' % Mn if Mn else '', text, want),
                                        {'stream': 'language parameter', 'lang': Ln, 'language_argument': Mn, 'string': text, 'round': rnd,
                                         'impl': [r[0], r[1] if r[0] != 'ok' else {'modules': r[1][0], 'tree': r[1][1]}], 'expected_module': want})
                    else:
                        R.nontriv(('language', Ln, Mn, text))
    R.cov['language_parameter'] = {'differences': nb}


def run(R):
    R.rule = ('strings, each given to PL/CTLS/CTL/LTL.Parser(): all word sequences of length <= 3 over {true,false,not,or,and,-->,A,E,X,F,G,U,R,(,),p,q} '
              '(length 4: 9000 sampled in quick, all 83521 in thorough; sampled length 5-7), the same with ~ | & "s t" orb Until Ab true_, glued forms '
              "('' or ' ' per gap), str() of random formulas of every logic (CTL in both notations) cross-fed to all parsers, exactly one token-level "
              'delete/insert/neighbour-swap/replace of those, respaced variants with synonyms / quoted atoms / tabs and newlines, hand-written corner '
              'cases and a corpus of documented examples with hand-written expected outcome, long and deeply nested inputs, a character-level garbage stream and one-character edits of valid strings; '
              'NON-ASCII: 87 characters that some regex / str method treats like ASCII ones (Unicode decimal digits \\d, other numerics, the 4 letters [a-z] matches under IGNORECASE, \\w letters, fullwidth and '
              'NFKC-equivalent forms, joiners / invisible characters, Unicode blanks that str.strip removes, operator and quote look-alikes) each in 22 templates (alone, inside and at either end of a name, next to a keyword, '
              'as a blank, inside a quoted atom), one such character put into each valid string, and short word sequences with such names; keywords in another case; DEEP: unary chains, parentheses and right/left nested binary '
              'operators nested 500..5000 deep (balanced and off by one), results read iteratively and compared with the model as preorder token lists, recursion limit untouched; SESSIONS: 24 sequences (thorough 161) of ~200 strings, '
              'each given to ONE fresh parser object per logic: the documented examples and samples of every stream, each string twice in a row, then two look-alikes (blank-padded with ASCII / Unicode blanks, blank-collapsed, lower/upper/swapped case, '
              'a fullwidth letter), then again, and once more at the end in another order - every outcome (class, tree, exception class, .pos) must equal the model and the outcome of the first pass. '
              "ALL CHARACTERS: every character U+0000..U+00FF (all control characters, all ASCII punctuation incl. % @ ^ ` $) in the 22 templates; 77 sequences a text-templating step would interpret (printf %-directives, str.format / "
              "string.Template fields, regex references, backslash escapes, ANSI / HTML fragments) in 15 templates with and without quoted atoms, accepted and rejected; garbage over all 128 ASCII characters; one such character edited into each valid string; "
              "41 lone surrogates / surrogate pairs written as two code points / non-characters / private-use / bidi and invisible format characters (strings no UTF-8 encoder accepts, or that codecs and normalisers treat specially) in the 22 templates and edited into valid strings; "
              "QUOTED-THEN-WRONG: quoted atoms whose content is East-Asian wide / fullwidth / non-BMP / combining / right-to-left / tab / control / %-directive / surrogate text in place of the atoms of valid strings and in 23 small templates, then one token edit, "
              "a dangling tail or a cut AFTER them (legal exotic atom first, error later). Observer FOLD (implementation vs implementation, for every generated string that changes under it): replacing every non-ASCII character by '#', every tab by a blank and, in "
              "strings without a quote, every newline / CR / FF by a blank leaves outcome class, exception class and .pos unchanged and the tree unchanged up to the same replacement in atom names (.pos counts code points whatever precedes it). Observer TYPED: ~310 strings of all streams "
              "given as instances of five str SUBCLASSES (plain subclass, subclass with its own __str__/__repr__/__format__, str-mixin Enum member, StrEnum member, lark Token) must get the outcome of the exact str. "
              "Per (string, parser): "
              'outcome class and exception contract on the implementation, accepted tree in the documented grammar and in the parser\'s own module, '
              'accept/reject and tree vs the model; Earley upper bound on accepted strings. evaluations = (string, parser) pairs. non-trivial = a string '
              'some parser accepts and another rejects, or a (string, parser) rejected at one token edit from a string that parser accepts (or vice versa)')
    language_parameter(R)
    sym = PG.symbol_table_diffs()
    if sym:
        R.violation('operator spellings of the live modules differ from the ones the parser model was proved for',
                    {'symbol_tables': sym}, no_input=True)
    cases, sessions, deep = build_cases(R)
    strings = sorted({s for _, s, _ in cases} | {o[1] for _, _, o in cases if o})
    obs = dict(zip(strings, PG.pmap(PG.observe4_chunk, strings)))
    outs = model_batch_parallel([PG.parse_cmd(L, s) for s in strings for L in LANGS], jobs=PG.JOBS)
    model = {s: tuple(PG.model_parse_result(a) for a in outs[4 * i:4 * i + 4]) for i, s in enumerate(strings)}
    # Earley upper bound on accepted strings
    acc = [(L, s) for s in strings for L, r in zip(LANGS, obs[s]) if r[0] == 'ok' and len(s) <= 160]
    if not R.thorough and len(acc) > 6000:
        acc = R.rng.sample(acc, 6000)
    elif R.thorough and len(acc) > 120000:
        acc = R.rng.sample(acc, 120000)
    earley = dict(zip(acc, PG.pmap(PG.earley_chunk, acc)))
    hist = {}
    exc_hist = {L: {} for L in LANGS}
    pos_hist = {'pos=0': 0, '0<pos<len': 0, 'pos=len': 0}
    accepted_by = {}
    reported = set()
    nviol = 0
    edit_samples, split_samples = [], {}
    pend_main, pend_hist, pend_deep = [], [], []
    for st, s, org in cases:
        rs, ms = obs[s], model[s]
        h = hist.setdefault(st, {L: {'accepted': 0, 'rejected': 0} for L in LANGS})
        for L, r, m in zip(LANGS, rs, ms):
            R.evaluations += 1
            h[L]['accepted' if r[0] == 'ok' else 'rejected'] += 1
            if (L, s) in reported:
                continue
            bad = contract(L, s, r)
            if st == 'corpus' and s in CORPUS[L] and (r[1] if r[0] == 'ok' else None) != CORPUS[L][s]:
                bad.append('documented example: expected %s' % (CORPUS[L][s] or 'rejection',))
            if not PG.agree(L, r, m):
                bad.append('accept/reject or tree differs from the model (= documented grammar)')
            if earley.get((L, s)) is False:
                bad.append('accepted but not derivable in the grammar (Earley, dynamic lexer)')
            if bad:
                reported.add((L, s))
                nviol += 1
                if len(pend_main) < 40:
                    pend_main.append(('%s.Parser: %s' % (L, '; '.join(bad)),
                                      {'lang': L, 'string': s, 'stream': st, 'impl': r, 'model': m, 'complaints': bad}))
                continue
            if org is not None:
                ro = obs[org[1]][LANGS.index(L)]
                if (ro[0] == 'ok') != (r[0] == 'ok'):
                    R.nontriv(('edit1', L, s))
                    R.count('edit1_accept_to_reject' if ro[0] == 'ok' else 'edit1_reject_to_accept')
                    if ro[0] == 'ok' and len(edit_samples) < 4 and len(s) <= 60 and L == LANGS[(len(edit_samples) + 1) % 4]:
                        edit_samples.append({'parser': L, 'accepted': org[1], 'edit': org[0], 'rejected': s,
                                             'exception': r[1], 'pos': r[3]})
        key = ''.join(L[0] if L != 'CTLS' else '*' for L, r in zip(LANGS, rs) if r[0] == 'ok')
        if s not in accepted_by:
            accepted_by[s] = key
            for L, r in zip(LANGS, rs):
                if r[0] == 'err' and not r[1].startswith('other:'):
                    exc_hist[L][r[1]] = exc_hist[L].get(r[1], 0) + 1
                    if L == 'CTLS' and r[2]:
                        pos_hist['pos=0' if r[3] == 0 else ('pos=len' if r[3] == len(s) else '0<pos<len')] += 1
            if 0 < len(key) < 4:
                R.nontriv(('split', s))
                if len(s) <= 40 and len(split_samples.setdefault(key, [])) < 1 and st.split(':')[0] in ('printed', 'mutated', 'special'):
                    split_samples[key].append({'string': s, 'accepted_by': [L for L, r in zip(LANGS, rs) if r[0] == 'ok'],
                                               'rejected_by': [L for L, r in zip(LANGS, rs) if r[0] != 'ok']})
    # ---- fold observer: non-ASCII -> '#', tab -> blank (and newlines -> blank in strings without a quote) changes neither the
    #      outcome nor .pos (implementation against implementation; the model does not predict .pos)
    fpairs = [(s, S2.fold(s)) for s in sorted({c[1] for c in cases}) if len(s) <= 600]
    fpairs = [(s, f) for s, f in fpairs if f != s]
    fnew = sorted({f for _, f in fpairs} - set(obs))
    fobs = dict(zip(fnew, PG.pmap(PG.observe4_chunk, fnew)))
    pend_fold, fold_hist = [], {'pairs': len(fpairs), 'accepted': 0, 'rejected': 0, 'rejected_with_non_ascii_before_pos': 0, 'differences': 0}
    for s, f in fpairs:
        rf4 = obs[f] if f in obs else fobs[f]
        for L, r, rf in zip(LANGS, obs[s], rf4):
            R.evaluations += 1
            if (L, s) in reported:
                continue
            if not S2.fold_agree(s, r, rf):
                reported.add((L, s))
                nviol += 1
                fold_hist['differences'] += 1
                if len(pend_fold) < 12:
                    pend_fold.append(("%s.Parser: outcome / .pos changes when every non-ASCII character is replaced by '#' and every tab (without a quote in the text: every newline too) by a blank" % L,
                                      {'lang': L, 'string': s, 'stream': 'fold', 'folded': f, 'impl': r, 'impl_folded': rf}))
                continue
            fold_hist['accepted' if r[0] == 'ok' else 'rejected'] += 1
            if r[0] == 'err' and isinstance(r[3], int) and any(ord(c) >= 0x80 for c in s[:r[3]]):
                fold_hist['rejected_with_non_ascii_before_pos'] += 1
                R.nontriv(('fold', L, s))
    # ---- typed observer: the same text as an instance of a str subclass
    by_st = {}
    for st, s, _ in cases:
        if len(s) <= 200:
            by_st.setdefault(st.split(':')[0], []).append(s)
    tsample = sorted({s for L in LANGS for s in CORPUS[L]})
    for st, k in (('printed', 60), ('mutated', 60), ('special', 30), ('garbage', 15), ('unicode_fixed', 15), ('quoted_tail', 30), ('meta_fixed', 20),
                  ('odd_fixed', 10), ('respaced', 15), ('words<=3', 20)):
        tsample += R.rng.sample(by_st[st], min(len(by_st[st]), k * (6 if R.thorough else 1)))
    tsample = sorted(set(tsample))
    titems = [(kind, s) for s in tsample for kind in S2.STRTYPES]
    tobs = PG.pmap(S2.observe_typed_chunk, titems)
    pend_typed, typed_hist = [], {k: {'same_outcome': 0, 'differences': 0} for k in S2.STRTYPES}
    for (kind, s), rs in zip(titems, tobs):
        for L, r, r0 in zip(LANGS, rs, obs[s]):
            R.evaluations += 1
            if r != r0:
                nviol += 1
                typed_hist[kind]['differences'] += 1
                if len(pend_typed) < 10 and not any(d['lang'] == L and d['strtype'] == kind for _, d in pend_typed):
                    pend_typed.append(('%s.Parser: an instance of a str subclass (%s) with the same text does not get the outcome of the str' % (L, kind),
                                       {'lang': L, 'string': s, 'stream': 'typed', 'strtype': kind, 'impl': r, 'impl_exact_str': r0}))
            else:
                typed_hist[kind]['same_outcome'] += 1
                R.nontriv(('typed', kind, L, s))
    # ---- deep inputs: results read iteratively, compared as preorder token lists
    dobs = PG.pmap(PG.observe4_flat_chunk, deep, min_parallel=8, chunk=3)
    douts = model_batch_parallel([PG.parse_cmd(L, s) for s in deep for L in LANGS], jobs=PG.JOBS)
    dh = {L: {'accepted': 0, 'rejected': 0} for L in LANGS}
    depth_hist = {}
    for i, (s, rs) in enumerate(zip(deep, dobs)):
        for j, (L, r) in enumerate(zip(LANGS, rs)):
            R.evaluations += 1
            m = PG.model_parse_result_flat(douts[4 * i + j])
            dh[L]['accepted' if r[0] == 'ok' else 'rejected'] += 1
            bad = contract(L, s, r, flat=True)
            if not PG.agree_flat(L, r, m):
                bad.append('accept/reject or tree differs from the model (= documented grammar)')
            if bad:
                nviol += 1
                if len(pend_deep) < 12:
                    pend_deep.append(('%s.Parser: %s' % (L, '; '.join(bad)),
                                      {'lang': L, 'string': s, 'stream': 'deep', 'impl': flat_summary(r), 'model': flat_summary(m), 'complaints': bad}))
                continue
            if r[0] == 'ok':
                d = flat_depth(r[1])
                k = '%d-%d' % (d // 500 * 500, d // 500 * 500 + 499)
                depth_hist[k] = depth_hist.get(k, 0) + 1
                R.nontriv(('deep', L, s))
    hist['deep'] = dh
    # ---- sessions: one fresh parser object per logic and session
    sobs = PG.pmap(PG.observe_session_chunk, sessions, min_parallel=2, chunk=1)
    sh = {L: {'accepted': 0, 'rejected': 0} for L in LANGS}
    rep = {'parses': 0, 'repeated_accepted': 0, 'repeated_rejected': 0}
    for seq, souts in zip(sessions, sobs):
        nth = {}
        for i, (s, rs) in enumerate(zip(seq, souts)):
            nth[s] = nth.get(s, 0) + 1
            for j, (L, r) in enumerate(zip(LANGS, rs)):
                R.evaluations += 1
                rep['parses'] += 1
                sh[L]['accepted' if r[0] == 'ok' else 'rejected'] += 1
                if ('session', L, s) in reported:
                    continue
                m = model[s][j]
                bad = contract(L, s, r)
                if not PG.agree(L, r, m):
                    bad.append('accept/reject or tree differs from the model (= documented grammar)')
                if r != obs[s][j]:
                    bad.append('outcome differs from the one a parser object gives that was never given this string or its look-alikes: %s'
                               % (short(obs[s][j]),))
                if bad:
                    reported.add(('session', L, s))
                    nviol += 1
                    if len(pend_hist) < 20:
                        pend_hist.append(('%s.Parser, parse number %d of this string by the same parser object: %s' % (L, nth[s], '; '.join(bad)),
                                          {'lang': L, 'string': s, 'stream': 'history', 'history': seq[:i], 'nth_parse_of_this_string': nth[s],
                                           'impl': r, 'model': m, 'complaints': bad}))
                    continue
                if nth[s] >= 2:
                    rep['repeated_accepted' if r[0] == 'ok' else 'repeated_rejected'] += 1
                    R.nontriv(('repeat', L, s))
    hist['sessions (same parser object)'] = sh
    # the first pass ran on long-lived parser objects (one per worker process and logic): a reported pair whose outcome a FRESH
    # parser object does not reproduce depends on what that object was given before; those are listed after the session
    # violations, which carry their history
    later = []
    for what, data in pend_main:
        r2 = PG.observe(data['lang'], data['string'], parser=PG.fresh_parser(data['lang']))
        if r2 != data['impl']:
            data['fresh_parser_object_gives'] = r2
            data['history_dependent'] = ('the outcome was observed on a parser object that had parsed other strings before; a fresh one gives '
                                         'another outcome - see the violations of stream "history", whose replays contain the sequence')
            later.append((what + ' [only after other calls on the same parser object]', data))
        else:
            R.violation(what, data)
    for what, data in pend_fold + pend_typed + pend_hist + pend_deep + later:
        R.violation(what, data)
    for x in edit_samples + [v[0] for k, v in sorted(split_samples.items()) if v][:8]:
        R.sample(x, limit=12)
    R.count('violating_string_parser_pairs', nviol)
    R.cov['accept_reject_by_stream_and_parser'] = {st: {L: '%d/%d' % (v[L]['accepted'], v[L]['rejected']) for L in LANGS}
                                                   for st, v in sorted(hist.items())}
    R.cov['accept_reject_by_parser'] = {L: {'accepted': sum(v[L]['accepted'] for v in hist.values()),
                                            'rejected': sum(v[L]['rejected'] for v in hist.values())} for L in LANGS}
    sets = {}
    for k in accepted_by.values():
        sets[k or 'none'] = sets.get(k or 'none', 0) + 1
    R.cov['distinct_strings'] = len(strings)
    R.cov['accepting_parser_sets (P=PL *=CTLS C=CTL L=LTL)'] = dict(sorted(sets.items(), key=lambda kv: -kv[1]))
    R.cov['exception_classes_by_parser'] = exc_hist
    R.cov['error_position_CTLS'] = pos_hist
    R.cov['earley_upper_bound'] = {'accepted_pairs_checked': len(acc), 'derivable': sum(1 for v in earley.values() if v)}
    R.cov['cases_by_stream'] = {st: sum(1 for c in cases if c[0] == st) for st in sorted(hist)}
    R.cov['cases_by_stream']['deep'] = len(deep)
    R.cov['deep_accepted_results_by_nesting_depth'] = dict(sorted(depth_hist.items()))
    R.cov['fold_observer'] = fold_hist
    R.cov['str_subclass_observer'] = dict(typed_hist, strings=len(tsample))
    R.cov['sessions'] = dict(rep, sessions=len(sessions), strings_per_session=[len(q) for q in sessions[:3]])
    R.exhaustive = False


def replay(R, data):
    d = data['data']
    if d.get('stream') == 'language parameter':
        n0 = len(R.violations)
        language_parameter(R)
        print('language parameter stream re-run: %d violation(s)' % (len(R.violations) - n0))
        return
    if 'string' not in d:
        print('no input string in this replay (proof gate / symbol tables):', json.dumps(d, default=str)[:2000])
        if PG.symbol_table_diffs():
            R.violation('replayed: symbol tables differ', d, no_input=True)
        return
    s, L0 = d['string'], d['lang']
    outs = model_batch([PG.parse_cmd(L, s) for L in LANGS])
    print('string:', short(s, 400), 'len', len(s))
    again = False
    if d.get('stream') == 'deep':
        for L, a in zip(LANGS, outs):
            r = PG.observe(L, s, flat_result=True)
            m = PG.model_parse_result_flat(a)
            bad = contract(L, s, r, flat=True)
            if not PG.agree_flat(L, r, m):
                bad.append('differs from the model')
            print('%-4s impl : %s' % (L, (flat_summary(r),)))
            print('     model: %s%s' % ((flat_summary(m),), ('   <-- ' + '; '.join(bad)) if bad else ''))
            again = again or (bad and L == L0)
        if again:
            R.violation('replayed', d)
        return
    if d.get('stream') == 'typed':
        j = LANGS.index(L0)
        r = S2.observe_typed(d['strtype'], s, L0)
        r0 = PG.observe(L0, s)
        m = PG.model_parse_result(outs[j])
        print('%-4s impl, text given as %s: %s' % (L0, d['strtype'], short(r, 600)))
        print('     impl, exact str        : %s' % short(r0, 600))
        print('     model                  : %s' % short(m, 600))
        if r != r0:
            R.violation('replayed', d)
        return
    if d.get('stream') == 'fold':
        f = S2.fold(s)
        r, rf = PG.observe(L0, s), PG.observe(L0, f)
        print('folded:', short(f, 400))
        print('%-4s impl         : %s' % (L0, short(r, 600)))
        print('     impl (folded): %s' % short(rf, 600))
        print('     model        : %s' % short(PG.model_parse_result(outs[LANGS.index(L0)]), 600))
        if not S2.fold_agree(s, r, rf) or contract(L0, s, r):
            R.violation('replayed', d)
        return
    if 'history' in d:
        # the same parser object is given the recorded sequence first
        P = PG.fresh_parser(L0)
        for t in d['history']:
            PG.observe(L0, t, parser=P)
        r = PG.observe(L0, s, parser=P)
        r0 = PG.observe(L0, s, parser=PG.fresh_parser(L0))
        m = PG.model_parse_result(outs[LANGS.index(L0)])
        bad = contract(L0, s, r)
        if not PG.agree(L0, r, m):
            bad.append('differs from the model')
        if r != r0:
            bad.append('differs from the outcome of a fresh parser object')
        print('%-4s after %d earlier calls on the same parser object (%d of them with this string)' % (L0, len(d['history']), d['history'].count(s)))
        print('     impl        : %s' % short(r, 600))
        print('     impl (fresh): %s' % short(r0, 600))
        print('     model       : %s%s' % (short(m, 600), ('   <-- ' + '; '.join(bad)) if bad else ''))
        if bad:
            R.violation('replayed', d)
        return
    for L, a in zip(LANGS, outs):
        r = PG.observe(L, s)
        m = PG.model_parse_result(a)
        bad = contract(L, s, r)
        if s in CORPUS[L] and (r[1] if r[0] == 'ok' else None) != CORPUS[L][s]:
            bad.append('documented example: expected %s' % (CORPUS[L][s] or 'rejection',))
        if not PG.agree(L, r, m):
            bad.append('differs from the model')
        if r[0] == 'ok' and len(s) <= 400 and not PG.earley_accepts(L, s):
            bad.append('not Earley-derivable')
        print('%-4s impl : %s' % (L, (r,)))
        print('     model: %s%s' % ((m,), ('   <-- ' + '; '.join(bad)) if bad else ''))
        if bad and L == L0:
            again = True
    if again:
        R.violation('replayed', d)
