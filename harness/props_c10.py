"""C10 - parsers reject text outside their language with a positioned ParserError.
Theorems (Properties/C10.v): the model parser is total; every accepted string yields a formula of exactly that
logic (and is derivable in the documented grammar); examples 'A F G q' (CTL), 'E F q' (LTL) are rejected.
Correspondence: for every generated string and each of the four parsers
  * outcome class: a formula, or pyModelChecking.parser.UnexpectedToken / UnexpectedCharacters (class identity)
    with an int .pos, 0 <= pos <= len(s) -- monitored on the implementation (the model does not predict .pos);
  * on accept: every node of the result belongs to the parser's own language module and the tree passes the
    independent documented-grammar recognisers of common.py (is_pl, is_ctl_state/is_ctl_path, is_ltl_path/
    is_ltl_state, arities);
  * accept/reject and the tree equal the model's parse (the model is proved to accept only the documented grammar);
  * upper bound (sampled in quick): whatever the LALR parser accepts is derivable with Lark's Earley parser +
    dynamic lexer on the live grammar text (the pure CFG)."""
from common import *
import parsegen as PG
LEVEL = 'proof'
LANGS = PG.LANGS

# documented examples, expected outcome written down by hand (independent of the model): language -> string -> tree | None
_p, _q = ('ap', 'p'), ('ap', 'q')
CORPUS = {
    'CTL': {'A F G q': None, 'E F q': ('E', ('F', _q)), 'A p': None, 'A (p or q)': None, 'A G F p': None, 'E X X p': None, 'X p or q': None,
            'A G (p --> A F q)': ('A', ('G', ('imp', _p, ('A', ('F', _q))))), 'A(p U q) or q': ('or', ('A', ('U', _p, _q)), _q), '(A(p U q)) or q': ('or', ('A', ('U', _p, _q)), _q),
            'A((p U q))': ('A', ('U', _p, _q)), 'E(p R not q)': ('E', ('R', _p, ('not', _q))), 'p U q': ('U', _p, _q), 'A F': None},
    'LTL': {'E F q': None, 'A F G q': ('A', ('F', ('G', _q))), 'A (p U q) or q': None, 'not A p': None, 'A A p': None, 'p U A q': None,
            'A G (p --> F q)': ('A', ('G', ('imp', _p, ('F', _q)))), 'p U q': ('U', _p, _q), 'G F p or q': ('or', ('G', ('F', _p)), _q), 'G (F p or q)': ('G', ('or', ('F', _p), _q)), '(G F p) or q': ('or', ('G', ('F', _p)), _q),
            'A G (p --> A F q)': None, 'A': None},
    'PL': {'X p': None, 'p U q': None, 'A p': None, 'p --> q': ('imp', _p, _q), 'p or q or p': ('or', _p, _q, _p), 'p or q and p': None,
           'p --> q --> p': None, 'not not p': ('not', ('not', _p)), 'p -> q': None, '': None},
    'CTLS': {'A F G q': ('A', ('F', ('G', _q))), 'E F q': ('E', ('F', _q)), 'A (p U q) or q': ('or', ('A', ('U', _p, _q)), _q), 'A p U q': ('U', ('A', _p), _q), '(A (p U q)) or q': ('or', ('A', ('U', _p, _q)), _q),
             'p U q U p': None, 'A G (p --> E F (q and X p))': ('A', ('G', ('imp', _p, ('E', ('F', ('and', _q, ('X', _p))))))), 'A': None,
             'not': None, 'p q': None, '(p': None, 'p)': None},
}


def build_cases(R):
    """list of (stream, string, origin) - origin = (kind, string one token edit away) for the mutation stream"""
    rng = R.rng
    th = R.thorough
    cases = []
    add = lambda st, s, org=None: cases.append((st, s, org))
    # --- word sequences over the 17-word alphabet: all of length <= 3; length 4: all (thorough) / a sample (quick)
    for n in (1, 2, 3):
        for s in PG.seqs(PG.WORDS17, n):
            add('words<=3', s)
    if th:
        for s in PG.seqs(PG.WORDS17, 4):
            add('words4', s)
    else:
        for _ in range(9000):
            add('words4', PG.rand_seq(rng, PG.WORDS17, 4))
    for _ in range(40000 if th else 3000):
        add('words5-7', PG.rand_seq(rng, PG.WORDS17, rng.randint(5, 7)))
    # --- the same plus synonyms ~ | &, a quoted atom and keyword-prefixed atoms
    wx = PG.WORDS17 + PG.EXTRA
    for n in ((1, 2, 3) if th else (1, 2)):
        for s in PG.seqs(wx, n):
            add('wordsx', s)
    for _ in range(30000 if th else 4000):
        add('wordsx', PG.rand_seq(rng, wx, rng.randint(3, 5)))
    # --- glued forms: '' or ' ' between the words
    for n in ((1, 2, 3) if th else (1, 2)):
        for s in PG.glued(PG.WORDS17, n):
            add('glued', s)
    for _ in range(30000 if th else 4000):
        add('glued', PG.rand_seq(rng, wx if rng.random() < 0.3 else PG.WORDS17, rng.randint(3, 5), glue=True))
    # --- valid printed formulas of every logic, given to all four parsers (cross-feeding)
    pools = PG.printed_pools(rng, 3000 if th else 260)
    valid = []
    for name in PG.POOLS:
        for s in pools[name]:
            add('printed:' + name, s)
            valid.append((name, s))
    # --- exactly one token-level edit (delete / insert / swap neighbours / replace) of a valid string
    for name, s in valid:
        toks = PG.TOKEN_RE.findall(s)
        for _ in range(4):
            m = PG.mutate1(rng, toks)
            if m is not None:
                add('mutated:' + name, ' '.join(m[1]), (m[0], ' '.join(toks)))
        add('spaced:' + name, ' '.join(toks))     # the un-edited token sequence in the same spelling
        for _ in range(2):
            add('respaced:' + name, PG.respace(rng, s))
    # --- hand-written corner cases and the character-level garbage stream
    for L in LANGS:
        for s in CORPUS[L]:
            add('corpus', s)
    for s in PG.special_strings():
        add('special', s)
    for s in PG.long_inputs(rng):
        add('long', s)
    for _ in range(40000 if th else 5000):
        add('garbage', PG.garbage(rng, 14))
    sample = valid if len(valid) <= 4000 else rng.sample(valid, 4000)
    for name, s in sample:
        for _ in range(3 if th else 2):
            add('charmut', PG.char_mutation(rng, s))
    seen = set()
    out = []
    for c in cases:
        if (c[0], c[1]) not in seen:
            seen.add((c[0], c[1]))
            out.append(c)
    return out


def contract(L, s, r):
    """the part monitored on the implementation alone; returns a list of complaints"""
    bad = []
    if r[0] == 'ok':
        if r[2] != (L,):
            bad.append('formula of another logic: node languages %s' % (r[2],))
        if not PG.doc_member(L, r[1]):
            bad.append('accepted tree is outside the documented grammar')
    elif r[0] == 'okbad':
        bad.append('returned a non-formula: %s' % r[1])
    else:
        if r[1].startswith('other:'):
            bad.append('raised %s' % r[1][6:])
        elif not r[2]:
            bad.append('%s.pos = %r outside 0..%d' % (r[1], r[3], len(s)))
    return bad


def run(R):
    R.rule = ('strings, each given to PL/CTLS/CTL/LTL.Parser(): all word sequences of length <= 3 over {true,false,not,or,and,-->,A,E,X,F,G,U,R,(,),p,q} '
              '(length 4: 9000 sampled in quick, all 83521 in thorough; sampled length 5-7), the same with ~ | & "s t" orb Until Ab true_, glued forms '
              "('' or ' ' per gap), str() of random formulas of every logic (CTL in both notations) cross-fed to all parsers, exactly one token-level "
              'delete/insert/neighbour-swap/replace of those, respaced variants with synonyms / quoted atoms / tabs and newlines, hand-written corner '
              'cases and a corpus of documented examples with hand-written expected outcome, long and deeply nested inputs, a character-level garbage stream and one-character edits of valid strings. Per (string, parser): '
              'outcome class and exception contract on the implementation, accepted tree in the documented grammar and in the parser\'s own module, '
              'accept/reject and tree vs the model; Earley upper bound on accepted strings. evaluations = (string, parser) pairs. non-trivial = a string '
              'some parser accepts and another rejects, or a (string, parser) rejected at one token edit from a string that parser accepts (or vice versa)')
    sym = PG.symbol_table_diffs()
    if sym:
        R.violation('operator spellings of the live modules differ from the ones the parser model was proved for',
                    {'symbol_tables': sym}, no_input=True)
    cases = build_cases(R)
    strings = sorted({s for _, s, _ in cases} | {o[1] for _, _, o in cases if o})
    obs = dict(zip(strings, PG.pmap(PG.observe4_chunk, strings)))
    outs = model_batch_parallel([PG.parse_cmd(L, s) for s in strings for L in LANGS], jobs=PG.JOBS)
    model = {s: tuple(PG.model_parse_result(a) for a in outs[4 * i:4 * i + 4]) for i, s in enumerate(strings)}
    # Earley upper bound on accepted strings
    acc = [(L, s) for s in strings for L, r in zip(LANGS, obs[s]) if r[0] == 'ok' and len(s) <= 160]
    if not R.thorough and len(acc) > 6000:
        acc = R.rng.sample(acc, 6000)
    elif R.thorough and len(acc) > 120000:
        acc = R.rng.sample(acc, 120000)
    earley = dict(zip(acc, PG.pmap(PG.earley_chunk, acc)))
    hist = {}
    exc_hist = {L: {} for L in LANGS}
    pos_hist = {'pos=0': 0, '0<pos<len': 0, 'pos=len': 0}
    accepted_by = {}
    reported = set()
    nviol = 0
    edit_samples, split_samples = [], {}
    for st, s, org in cases:
        rs, ms = obs[s], model[s]
        h = hist.setdefault(st, {L: {'accepted': 0, 'rejected': 0} for L in LANGS})
        for L, r, m in zip(LANGS, rs, ms):
            R.evaluations += 1
            h[L]['accepted' if r[0] == 'ok' else 'rejected'] += 1
            if (L, s) in reported:
                continue
            bad = contract(L, s, r)
            if st == 'corpus' and s in CORPUS[L] and (r[1] if r[0] == 'ok' else None) != CORPUS[L][s]:
                bad.append('documented example: expected %s' % (CORPUS[L][s] or 'rejection',))
            if not PG.agree(L, r, m):
                bad.append('accept/reject or tree differs from the model (= documented grammar)')
            if earley.get((L, s)) is False:
                bad.append('accepted but not derivable in the grammar (Earley, dynamic lexer)')
            if bad:
                reported.add((L, s))
                nviol += 1
                if nviol <= 40:
                    R.violation('%s.Parser: %s' % (L, '; '.join(bad)),
                                {'lang': L, 'string': s, 'stream': st, 'impl': r, 'model': m, 'complaints': bad})
                continue
            if org is not None:
                ro = obs[org[1]][LANGS.index(L)]
                if (ro[0] == 'ok') != (r[0] == 'ok'):
                    R.nontriv(('edit1', L, s))
                    R.count('edit1_accept_to_reject' if ro[0] == 'ok' else 'edit1_reject_to_accept')
                    if ro[0] == 'ok' and len(edit_samples) < 4 and len(s) <= 60 and L == LANGS[(len(edit_samples) + 1) % 4]:
                        edit_samples.append({'parser': L, 'accepted': org[1], 'edit': org[0], 'rejected': s,
                                             'exception': r[1], 'pos': r[3]})
        key = ''.join(L[0] if L != 'CTLS' else '*' for L, r in zip(LANGS, rs) if r[0] == 'ok')
        if s not in accepted_by:
            accepted_by[s] = key
            for L, r in zip(LANGS, rs):
                if r[0] == 'err' and not r[1].startswith('other:'):
                    exc_hist[L][r[1]] = exc_hist[L].get(r[1], 0) + 1
                    if L == 'CTLS' and r[2]:
                        pos_hist['pos=0' if r[3] == 0 else ('pos=len' if r[3] == len(s) else '0<pos<len')] += 1
            if 0 < len(key) < 4:
                R.nontriv(('split', s))
                if len(s) <= 40 and len(split_samples.setdefault(key, [])) < 1 and st.split(':')[0] in ('printed', 'mutated', 'special'):
                    split_samples[key].append({'string': s, 'accepted_by': [L for L, r in zip(LANGS, rs) if r[0] == 'ok'],
                                               'rejected_by': [L for L, r in zip(LANGS, rs) if r[0] != 'ok']})
    for x in edit_samples + [v[0] for k, v in sorted(split_samples.items()) if v][:8]:
        R.sample(x, limit=12)
    R.count('violating_string_parser_pairs', nviol)
    R.cov['accept_reject_by_stream_and_parser'] = {st: {L: '%d/%d' % (v[L]['accepted'], v[L]['rejected']) for L in LANGS}
                                                   for st, v in sorted(hist.items())}
    R.cov['accept_reject_by_parser'] = {L: {'accepted': sum(v[L]['accepted'] for v in hist.values()),
                                            'rejected': sum(v[L]['rejected'] for v in hist.values())} for L in LANGS}
    sets = {}
    for k in accepted_by.values():
        sets[k or 'none'] = sets.get(k or 'none', 0) + 1
    R.cov['distinct_strings'] = len(strings)
    R.cov['accepting_parser_sets (P=PL *=CTLS C=CTL L=LTL)'] = dict(sorted(sets.items(), key=lambda kv: -kv[1]))
    R.cov['exception_classes_by_parser'] = exc_hist
    R.cov['error_position_CTLS'] = pos_hist
    R.cov['earley_upper_bound'] = {'accepted_pairs_checked': len(acc), 'derivable': sum(1 for v in earley.values() if v)}
    R.cov['cases_by_stream'] = {st: sum(1 for c in cases if c[0] == st) for st in sorted(hist)}
    R.exhaustive = False


def replay(R, data):
    d = data['data']
    if 'string' not in d:
        print('no input string in this replay (proof gate / symbol tables):', json.dumps(d, default=str)[:2000])
        if PG.symbol_table_diffs():
            R.violation('replayed: symbol tables differ', d, no_input=True)
        return
    s, L0 = d['string'], d['lang']
    outs = model_batch([PG.parse_cmd(L, s) for L in LANGS])
    print('string:', repr(s), 'len', len(s))
    again = False
    for L, a in zip(LANGS, outs):
        r = PG.observe(L, s)
        m = PG.model_parse_result(a)
        bad = contract(L, s, r)
        if s in CORPUS[L] and (r[1] if r[0] == 'ok' else None) != CORPUS[L][s]:
            bad.append('documented example: expected %s' % (CORPUS[L][s] or 'rejection',))
        if not PG.agree(L, r, m):
            bad.append('differs from the model')
        if r[0] == 'ok' and len(s) <= 400 and not PG.earley_accepts(L, s):
            bad.append('not Earley-derivable')
        print('%-4s impl : %s' % (L, (r,)))
        print('     model: %s%s' % ((m,), ('   <-- ' + '; '.join(bad)) if bad else ''))
        if bad and L == L0:
            again = True
    if again:
        R.violation('replayed', d)
