"""c10_streams.py - streams and observers of C10 added after the second white-box audit (owned by props_c10.py).

Generators (all randomness from the rng argument):
  bytes_fixed      EVERY character U+0000..U+00FF (all control characters, all ASCII punctuation incl. % @ ^ ` $, Latin-1) in the 22
                   templates of parsegen.UNI_TEMPLATES - alone, inside / at either end of a name, next to a keyword, as a blank, inside
                   a quoted atom;
  meta_fixed       character sequences that some text-templating step interprets (printf %-directives, str.format / string.Template
                   fields, regex replacement references, backslash escapes, ANSI / HTML fragments) in templates with and without a
                   quoted atom, accepted and rejected;
  ascii_garbage    random strings over ALL 128 ASCII characters mixed with legal fragments; ascii_charmut: one such character edited
                   into a valid string;
  odd_fixed        lone surrogates (high, low, surrogateescape bytes, reversed and UTF-16 style pairs), non-characters, private use,
                   U+FFFD, the last code point - strings that cannot be encoded in UTF-8 / that codecs and normalisers treat specially -
                   in the same 22 templates; odd_mut: one of them put into a valid string;
  quoted_tail      QUOTED atoms whose content is wide / fullwidth / non-BMP / combining / right-to-left / tab / surrogate text, put in
                   place of the atoms of valid strings and of small templates, then made wrong LATER in the text (one token edit, a
                   dangling tail, a cut) - the shape "legal exotic atom first, error afterwards".
Observers:
  fold             position / outcome invariance: replacing every non-ASCII character by '#' (legal exactly where a non-ASCII character
                   is: inside a quoted atom), every tab by a blank and - in strings without a quote - every \\n \\r \\f by a blank must
                   leave the outcome class, the exception class and .pos unchanged, and the accepted tree unchanged up to the same
                   replacement in atom names (so .pos is an index in code points of the input, whatever the characters before it are);
  typed            the same text given as an instance of a str SUBCLASS (plain subclass, subclass with its own __str__/__repr__/
                   __format__, str-mixin Enum member, StrEnum member, lark Token) must give the outcome of the exact str.
"""
import re, enum
import parsegen as PG

LANGS = PG.LANGS

# ----------------------------------------------------------------------------------------
# characters and sequences
# ----------------------------------------------------------------------------------------
BYTES = [chr(i) for i in range(256)]
ASCII = [chr(i) for i in range(128)]
META = ['%', '%%', '%s', '%d', '%r', '%c', '%n', '%5', '% d', '%*d', '%(pos)d', '%(string)s', '%(', '50%', '100%d', '%s%s',
        '{}', '{0}', '{1}', '{pos}', '{string}', '{0!r}', '{:>5}', '{', '}', '{{', '}}', '{0.__class__}',
        '$', '$$', '$x', '${pos}', '$1', '\\1', '\\g<0>', '\\g<', '\\', '\\\\', '\\n', '\\x', '\\x4', '\\u12', '\\N{', '\\N{DASH}', '\\0',
        '^', '`', '@', '`p`', '$(p)', '@p', 'p@q', '^p$', '.*', '[a-z]', '(?i)', '(?P<x>', '\\d+', 'a|*',
        '\x1b[0m', '\x1b[31mp', '\x08', '\x07', '\x00', '\r', '&amp;', '<b>', '</p>', '<!--', '#{p}', '<%= p %>', '%>', '*/', '//', "'", "''", '\'"\'']
META_TEMPLATES = ('%s', 'p %s q', 'p%sq', 'p %s', '%s p', '"%s"', '"%s" or', 'A F G "x%s"', 'E F "%s" )', '"a%sb" or q', 'not %s', '(%s)', 'p or %s or',
                  'A G (p --> F "%s")', '"%s" U "%s"')
SURR = ['\ud800', '\udbff', '\udc00', '\udfff', '\udc80', '\udce9', '\udcff', '\udc00\ud800', '\ud83d\ude00', '\ud800\ud800', '\ud800p', 'p\udc00']
ODD = SURR + ['\ufffe', '\uffff', '\ufdd0', '\U0001ffff', '\U0010ffff', '\U0010fffd', '\ufffd', '\ue000', '\uf8ff', '\U000f0000', '\U000e0001', '\U000e0041',
              '\ufff9', '\ufffb', '\ufffc', '\u061c', '\u200e', '\u200f', '\u202a', '\u202e', '\u2066', '\u2069', '\u034f', '\u115f', '\u3164', '\uffa0',
              '\U0001f600', '\U00020000', '\U0001f1e6\U0001f1e7']
# contents of quoted atoms: East-Asian wide / fullwidth / ambiguous-width, non-BMP, combining, right-to-left, ligatures whose
# case / normal forms have another length, tabs, format metacharacters, surrogates
QCONTENT = ['\u6e29\u5ea6\u8fc7\u9ad8', '\u62a5\u8b66', '\u62a5\u8b66\u4e2d', '\uff4f\uff4b', '\u65e5\u672c\u8a9e', '\ud55c\uad6d\uc5b4', '\u3042\u30a2\uff71',
            '\U0001f600', '\U0001f469\u200d\U0001f469\u200d\U0001f467', '\U00020000\U0002a6d6', 'e\u0301', 'a\u0308\u0323', '\u05e9\u05dc\u05d5\u05dd', '\u202eabc',
            '\ufdfa', '\ufb03', '\xdf', '\u0130', '\u1e9e', '\uff50', '\uff05\uff44', '\u3000', '\u00a1', '\u2460', '\u03b1\u03b2', '\u0416',
            '\t', 'a\tb', '\t\t\t', '\x0b', '\x7f', '\x00', '\x1b[1m', '%', '50%', '{0}', '$x',
            '\ud800', 'x\udcff', '\udc80\udc81']
QCH = sorted(set(''.join(QCONTENT)) | set('\u4e2d\u6587\uac00\uff21\uff19\U0001f680\u0301 a1_-'))
TAILS = [' U', ' R', ' )', ' (', ' p', ' q', ' #', ' or', ' and', ' -->', ' not', ' "', ' ""x', ' A', ' E', ' X', ')', '\n)', '\t)', ' \xe9', ' \u6e29', ' \ud800', ' true false', ' U U p']
QT_TEMPLATES = ('%s U', '%s', 'A G (%s --> F %s))', 'A G (%s --> F %s)', 'E F %s', 'A F G %s', '%s %s', 'not %s or', '(%s', '%s)', '%s and and p', 'p or %s q',
                '%s U %s R', 'A(%s U %s', 'E(%s R %s))', '%s%s', '%s or %s or', '%s --> --> %s', 'X %s X', '%s\n%s', '(%s) (%s)', '%s #', '%s \u6e29')


def fixed(chars, templates=None):
    return [t.replace('%s', u) for u in chars for t in (templates or PG.UNI_TEMPLATES)]


def ascii_garbage(rng, maxlen=14):
    pal = ASCII + ['or', 'and', 'not', 'true', 'false', '-->', ' ', ' ', ' ', 'p', 'q', 'A', 'E', 'X', 'F', 'G', 'U', 'R', '(', ')', '"', '"a', 'b"', '%', '%s', '$', '@', '^', '`']
    return ''.join(rng.choice(pal) for _ in range(rng.randint(1, maxlen)))


def char_edit(rng, s, pool):
    """one element of pool inserted into / put in place of a character of s"""
    i = rng.randint(0, len(s))
    u = rng.choice(pool)
    if rng.random() < 0.5 or i == len(s):
        return s[:i] + u + s[i:]
    return s[:i] + u + s[i + 1:]


def qatom(rng):
    """a quoted atom with exotic content"""
    r = rng.random()
    if r < 0.6:
        c = rng.choice(QCONTENT)
    elif r < 0.9:
        c = ''.join(rng.choice(QCH) for _ in range(rng.randint(1, 8)))
    else:
        c = rng.choice(QCONTENT) + rng.choice((' ', '', '_', ' or ')) + rng.choice(QCONTENT)
    return '"' + c + '"'


def is_atom_token(t):
    return bool(PG.IDENT_RE.match(t)) and t not in PG.KEYWORDS


def quoted_tail(rng, s):
    """s (a valid printed string) with exotic quoted atoms in place of (most of) its atoms, then one of: unchanged, one token
    edit, a dangling tail, a cut after k tokens.  Returns (kind, string)"""
    toks = PG.TOKEN_RE.findall(s)
    at = [i for i, t in enumerate(toks) if is_atom_token(t)]
    if at:
        first = at[0]
        for i in at:
            if i == first or rng.random() < 0.6:
                toks[i] = qatom(rng)
    else:
        toks.insert(rng.randrange(len(toks) + 1), qatom(rng))
    k = rng.random()
    sep = ' ' if rng.random() < 0.85 else rng.choice(('\t', '  ', '\n'))
    if k < 0.15:
        return 'same', sep.join(toks)
    if k < 0.55:
        m = PG.mutate1(rng, toks)
        if m is not None:
            return m[0], sep.join(m[1])
    if k < 0.85:
        return 'tail', sep.join(toks) + rng.choice(TAILS)
    return 'cut', sep.join(toks[:rng.randint(1, len(toks))])


def quoted_fixed(rng):
    out = []
    for c in QCONTENT:
        q = '"' + c + '"'
        for t in QT_TEMPLATES:
            out.append(t.replace('%s', q))
    for _ in range(150):
        t = rng.choice(QT_TEMPLATES)
        while '%s' in t:
            t = t.replace('%s', qatom(rng), 1)
        out.append(t)
    return out


# ----------------------------------------------------------------------------------------
# observer: fold
# ----------------------------------------------------------------------------------------
def fold_map(s):
    nl = '"' not in s

    def f(t):
        out = []
        for c in t:
            if ord(c) >= 0x80:
                out.append('#')
            elif c == '\t' or (nl and c in '\n\r\f'):
                out.append(' ')
            else:
                out.append(c)
        return ''.join(out)
    return f


def fold(s):
    return fold_map(s)(s)


def fold_tree(t, f):
    if t[0] == 'ap':
        return ('ap', f(t[1]))
    if t[0] in ('true', 'false'):
        return t
    return (t[0],) + tuple(fold_tree(g, f) for g in t[1:])


def fold_agree(s, r, rf):
    """outcome r of s vs outcome rf of fold(s)"""
    if r[0] != rf[0]:
        return False
    if r[0] == 'ok':
        try:
            return fold_tree(r[1], fold_map(s)) == rf[1] and r[2] == rf[2]
        except Exception:  # noqa
            return False
    if r[0] == 'err':
        return tuple(r[1:]) == tuple(rf[1:])
    return r == rf


# ----------------------------------------------------------------------------------------
# observer: typed (instances of str subclasses)
# ----------------------------------------------------------------------------------------
class Text(str):
    """a plain subclass"""
    pass


class Markup(str):
    """a subclass in the style of markupsafe / yaml / translation wrappers: own rendering, same content"""
    __slots__ = ()

    def __str__(self):
        return 'Markup(...)'

    def __repr__(self):
        return '<Markup>'

    def __format__(self, spec):
        return '<Markup>'


STRTYPES = ('Text', 'Markup', 'Enum', 'StrEnum', 'Token')


def typed(kind, s):
    """the text s as an instance of a str subclass; str.__str__(result) == s"""
    if kind == 'Text':
        return Text(s)
    if kind == 'Markup':
        return Markup(s)
    if kind == 'Enum':
        return enum.Enum('Spec', [('SPEC', s)], type=str).SPEC          # str(member) == 'Spec.SPEC'
    if kind == 'StrEnum':
        return enum.StrEnum('Spec', [('SPEC', s)]).SPEC if hasattr(enum, 'StrEnum') else Text(s)
    if kind == 'Token':
        from lark import Token
        return Token('TEXT', s)
    raise ValueError(kind)


def observe_typed(kind, s, L):
    x = typed(kind, s)
    assert isinstance(x, str) and type(x) is not str and str.__str__(x) == s
    return PG.observe(L, x)


def observe_typed_chunk(items):
    return [tuple(observe_typed(kind, s, L) for L in LANGS) for kind, s in items]
