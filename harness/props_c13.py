"""C13 - reachability, reversal, subgraph extraction and clone are exact and non-destructive.
Theorems (Properties/C13.v): reach_exact, reversed_spec, subgraph_spec, clone_id, reach_r_spec.
Correspondence: DiGraph methods on live objects vs the extracted model on the same presentation."""
from common import *
from graphgen import *
import collections
import props_c13_more as more
LEVEL = 'proof'


def snap(G):
    # robust against foreign objects leaking into G (that is exactly what an aliasing defect does): order by repr
    return sorted(((repr(k), sorted(map(repr, v))) for k, v in G._next.items()))


def ids(G):
    return {k: id(v) for k, v in G._next.items()}


def gset(G):
    try:
        return (sorted(G._next.keys()), sorted((s, d) for s, ds in G._next.items() for d in ds))
    except TypeError:          # non-comparable (foreign) nodes: canonicalise by repr; can never equal a model graph of ints
        return (sorted(map(repr, G._next.keys())), sorted((repr(s), repr(d)) for s, ds in G._next.items() for d in ds))


def mset(g):
    return (sorted(int(k) for k, _ in g), sorted((int(k), int(d)) for k, ds in g for d in ds))


def qcall(fn):
    """common.call without the per-call stdout capture (one_case makes ~70 calls per case; run() captures stdout once around
    the whole loop instead)"""
    try:
        return ('ok', fn())
    except RecursionError:
        return ('err', 'other:RecursionError')
    except Exception as e:  # noqa
        return ('err', exc_name(e))


ORDERED_FORMS = ('tuple', 'list', 'list naming nodes twice')
ARG_FORMS = (('set', set), ('frozenset', frozenset), ('tuple', tuple), ('list', list),
             ('list naming nodes twice', lambda xs: list(xs) + list(reversed(xs))[:2] + list(xs)[:1]))


class NodeBag(object):
    """a user-defined re-iterable collection of nodes (sized, iterable, container) that is none of list/tuple/set/frozenset"""
    def __init__(self, xs):
        self._xs = list(xs)

    def __iter__(self):
        return iter(self._xs)

    def __len__(self):
        return len(self._xs)

    def __contains__(self, v):
        return v in self._xs


def _as_range(xs):
    return range(min(xs), max(xs) + 1) if xs and all(type(v) is int for v in xs) and sorted(xs) == list(range(min(xs), max(xs) + 1)) else None


# re-iterable collections that are not list / tuple / set / frozenset (an isinstance test on the argument must not change the
# answer): tried on get_reachable_set_from AND get_subgraph; a maker returning None means 'not applicable to this X'
CONTAINER_FORMS = (('dict keys view', lambda xs: dict.fromkeys(xs).keys()), ('dict', lambda xs: dict.fromkeys(xs)),
                   ('deque', lambda xs: collections.deque(xs)), ('user-defined collection', NodeBag),
                   ('range', _as_range), ('dict values view', lambda xs: dict(enumerate(xs)).values()))
# one-shot iterables: get_subgraph reads its argument ONCE (set(nodes)), so these are legitimate there
# (get_reachable_set_from reads it twice: list(nodes), set(nodes) - containers only)
ONESHOT_FORMS = (('iterator', iter), ('generator expression', lambda xs: (v for v in xs)),
                 ('filter object', lambda xs: filter(lambda v: True, xs)), ('map object', lambda xs: map(lambda v: v, xs)),
                 ('reversed iterator', lambda xs: reversed(xs)), ('itertools.chain', lambda xs: itertools.chain(xs[:1], xs[1:])),
                 ('generator naming nodes twice', lambda xs: (v for v in xs + xs[:2])))
SUB_EXTRA_FORMS = CONTAINER_FORMS + ONESHOT_FORMS


def one_case(V, E, X, rot=None):
    """rot: which of the extra argument forms this case tries (None: all of them - replay)"""
    from pyModelChecking.graph import DiGraph
    G = DiGraph(V=V, E=E)
    s0, i0 = snap(G), ids(G)
    obs = {'presentation': graph_sx(G)}      # read BEFORE anything is mutated through copies
    obs['ctor'] = ('ok', gset(G))            # compared with the model's mk_graph on the ARGUMENTS (theorem C13_mk_graph)
    # the two collections may be given in any iterable form, one-shot iterators included (the constructor reads each once)
    forms = []
    for nm, mkV, mkE in (('tuples', tuple, tuple), ('iterators', iter, iter), ('generator of lists', list, lambda e: (list(x) for x in e)),
                         ('zip', list, lambda e: zip([a for a, _ in e], [b for _, b in e])), ('sets', set, set),
                         ('lists with repeated nodes and edges', lambda v: list(v) + list(v)[:2], lambda e: list(e) + list(e)[:2])):
        r0 = qcall(lambda: DiGraph(V=mkV(list(V)), E=mkE(list(E))))
        if r0[0] != 'ok' or gset(r0[1]) != obs['ctor'][1]:
            forms.append('%s: %s' % (nm, r0[1] if r0[0] != 'ok' else gset(r0[1])))
    obs['ctor_forms'] = forms
    held = []                                # (what, result OBJECT, its value when it was returned): read again at the end
    r = qcall(lambda: G.get_reachable_set_from(list(X)))
    obs['reach'] = ('ok', sorted(r[1])) if r[0] == 'ok' else r
    if r[0] == 'ok':
        held.append(('get_reachable_set_from(%s)' % list(X), r[1], obs['reach'][1]))
        # a LATER call with other nodes: the earlier result is the caller's, it must keep its value and be another object
        others = [[v] for v in list(G._next)[:2]] + [[v for v in G._next if v not in r[1]], []]
        for Y in others:
            r2 = qcall(lambda: G.get_reachable_set_from(list(Y)))
            if r2[0] == 'ok':
                held.append(('get_reachable_set_from(%s)' % Y, r2[1], sorted(r2[1])))
    r = qcall(lambda: G.get_reversed_graph())
    obs['rev'] = ('ok', gset(r[1])) if r[0] == 'ok' else r
    if r[0] == 'ok':
        held.append(('get_reversed_graph()', r[1], obs['rev'][1]))
        rr = qcall(lambda: r[1].get_reversed_graph())
        obs['revrev'] = ('ok', gset(rr[1])) if rr[0] == 'ok' else rr
        obs['rev_shares'] = any(id(v) in i0.values() for v in r[1]._next.values())
    r = qcall(lambda: G.get_subgraph(list(X)))
    obs['sub'] = ('ok', gset(r[1])) if r[0] == 'ok' else r
    if r[0] == 'ok':
        held.append(('get_subgraph(%s)' % list(X), r[1], obs['sub'][1]))
        Y = [v for v in G._next if v not in X] + list(X)[:1]
        r2 = qcall(lambda: G.get_subgraph(list(Y)))
        if r2[0] == 'ok':
            held.append(('get_subgraph(%s)' % Y, r2[1], gset(r2[1])))
    r = qcall(lambda: G.clone())
    obs['clone'] = ('ok', gset(r[1])) if r[0] == 'ok' else r
    if r[0] == 'ok':
        C = r[1]
        obs['clone_shares'] = any(id(v) in i0.values() for v in C._next.values()) or C._next is G._next
        # independence: mutating the clone must not change G
        for k in list(C._next):
            C._next[k].add(('fresh', 1))
        C._next[('new', 0)] = set()
    # argument forms: the node collection may be ANY iterable, in particular a set object that G itself handed out
    # (next(v) returns the internal successor set); neither G nor the caller's object may change, and the answer
    # must not depend on the form
    forms_bad = []
    if obs['reach'][0] == 'ok':
        base = obs['reach'][1]
        xs = list(X)
        for form, mk in ARG_FORMS:   # containers only: a one-shot iterator is not a 'set of nodes'
            arg = mk(xs)
            keep = list(arg) if form in ORDERED_FORMS else set(arg)
            r2 = qcall(lambda: G.get_reachable_set_from(arg))
            if r2[0] != 'ok' or sorted(r2[1]) != base:
                forms_bad.append('%s: %s' % (form, r2[1] if r2[0] != 'ok' else sorted(r2[1])))
            elif (list(arg) if form in ORDERED_FORMS else set(arg)) != keep:
                forms_bad.append('%s argument was modified' % form)
            elif r2[1] is arg:
                forms_bad.append('the result IS the caller\'s %s object' % form)
    if obs['sub'][0] == 'ok':
        # get_subgraph: same forms (a list may name a node twice, e.g. the concatenation of two results)
        xs = list(X)
        for form, mk in ARG_FORMS:
            arg = mk(xs)
            keep = list(arg) if form in ORDERED_FORMS else set(arg)
            r2 = qcall(lambda: G.get_subgraph(arg))
            if r2[0] != 'ok' or gset(r2[1]) != obs['sub'][1]:
                forms_bad.append('get_subgraph(%s): %s' % (form, r2[1] if r2[0] != 'ok' else gset(r2[1])))
            elif (list(arg) if form in ORDERED_FORMS else set(arg)) != keep:
                forms_bad.append('get_subgraph: %s argument was modified' % form)
    # ... nor on whether it is one of list / tuple / set / frozenset at all: other re-iterable collections (both operations) and
    # one-shot iterables (get_subgraph only) - one form of each kind per case, in rotation
    xs = list(X)
    if obs['reach'][0] == 'ok':
        for form, mk in (CONTAINER_FORMS if rot is None else [CONTAINER_FORMS[rot % len(CONTAINER_FORMS)]]):
            arg = mk(xs)
            if arg is None:
                continue
            keep = list(arg)
            r2 = qcall(lambda: G.get_reachable_set_from(arg))
            if r2[0] != 'ok' or sorted(r2[1]) != obs['reach'][1]:
                forms_bad.append('get_reachable_set_from(%s): %s' % (form, r2[1] if r2[0] != 'ok' else sorted(r2[1])))
            elif list(arg) != keep:
                forms_bad.append('%s argument was modified' % form)
            elif r2[1] is arg:
                forms_bad.append('the result IS the caller\'s %s object' % form)
    if obs['sub'][0] == 'ok':
        for form, mk in (SUB_EXTRA_FORMS if rot is None else [SUB_EXTRA_FORMS[rot % len(SUB_EXTRA_FORMS)],
                                                                 ONESHOT_FORMS[rot % len(ONESHOT_FORMS)]]):
            arg = mk(xs)
            if arg is None:
                continue
            r2 = qcall(lambda: G.get_subgraph(arg))
            if r2[0] != 'ok' or gset(r2[1]) != obs['sub'][1]:
                forms_bad.append('get_subgraph(%s): %s' % (form, r2[1] if r2[0] != 'ok' else gset(r2[1])))
    # collections G itself hands out: nodes() (a live view of G's own dictionary) and sources() (a generator over it)
    try:
        want_all = (sorted(G._next), sorted((a, b) for a, ds in G._next.items() for b in ds))
    except TypeError:
        # an earlier operation (or the pollution of one of its results by the caller) reached G's own dictionary / successor sets
        forms_bad.append('G now holds values of the caller\'s pollution (%r): a result shares a successor set with G' %
                         sorted(set(repr(b) for ds in G._next.values() for b in ds if not isinstance(b, int)))[:3])
        want_all = ([], [])
    srcs = set(a for a, ds in G._next.items() if ds)
    for what, fn, want in (() if want_all == ([], []) and G._next else (('get_reachable_set_from(G.nodes())', lambda: sorted(G.get_reachable_set_from(G.nodes())), want_all[0]),
                           ('get_subgraph(G.nodes())', lambda: gset(G.get_subgraph(G.nodes())), want_all),
                           ('get_subgraph(G.sources())', lambda: gset(G.get_subgraph(G.sources())),
                            (sorted(srcs), [(a, b) for a, b in want_all[1] if a in srcs and b in srcs])))):
        q = qcall(fn)
        if tuple(q) != ('ok', want):
            forms_bad.append('%s gives %s, expected %s' % (what, q[1], want))
    for v in list(G._next)[:3]:
        internal = G.next(v)
        want = qcall(lambda: G.get_reachable_set_from(list(internal)))
        got = qcall(lambda: G.get_reachable_set_from(internal))
        if want[0] == 'ok' and (got[0] != 'ok' or sorted(got[1]) != sorted(want[1])):
            forms_bad.append('next(%r) as argument: %s' % (v, got))
        if got[0] == 'ok' and got[1] is internal:
            forms_bad.append('the result IS the internal successor set of %r' % (v,))
    obs['argument_forms'] = forms_bad
    # results belong to the caller: editing one (through the public API) must change neither G nor what the SAME call
    # returns next time (a memoised / shared result object would show up here)
    rep_bad = []
    xs = list(X)
    for nm, op in (('rev', lambda: G.get_reversed_graph()), ('sub', lambda: G.get_subgraph(list(xs))), ('clone', lambda: G.clone())):
        a = qcall(op)
        if a[0] != 'ok' or tuple(obs[nm]) != ('ok', gset(a[1])):
            if a[0] == 'ok' or tuple(obs[nm]) != tuple(a):
                rep_bad.append('%s: second call differs from the first' % nm)
            continue
        H = a[1]
        if nm == 'clone':
            # the clone is EQUAL to G: every operation run ON the clone answers as it does on G
            for what, fn, want in (('get_reversed_graph()', lambda: gset(H.get_reversed_graph()), obs['rev']),
                                   ('get_reachable_set_from(X)', lambda: sorted(H.get_reachable_set_from(list(xs))), obs['reach']),
                                   ('get_subgraph(X)', lambda: gset(H.get_subgraph(list(xs))), obs['sub']),
                                   ('clone()', lambda: gset(H.clone()), obs['clone'])):
                q = qcall(fn)
                if tuple(q) != tuple(want):
                    rep_bad.append('clone().%s gives %s, on G it gives %s' % (what, q[1], want[1]))
        fresh = ('edited', nm)
        qcall(lambda: H.add_node(fresh))
        hn = list(H._next)
        qcall(lambda: H.add_edge(hn[0], fresh))
        if len(hn) > 1:
            qcall(lambda: H.add_edge(hn[-1], hn[0]))
            qcall(lambda: H.add_edge(hn[0], hn[-1]))
        # the caller USES the edited result before it comes back to G
        qcall(lambda: H.get_reachable_set_from([v for v in xs if v in H._next]))
        qcall(lambda: (H.get_reversed_graph(), H.get_subgraph(list(xs)), H.clone()))
        b = qcall(op)
        if b[0] != 'ok' or b[1] is H or ('ok', gset(b[1])) != tuple(obs[nm]):
            rep_bad.append('%s: after the caller edited an earlier result, the call returns %s' % (nm, 'the edited object' if b[0] == 'ok' and b[1] is H else (gset(b[1]) if b[0] == 'ok' else b)))
    if obs['reach'][0] == 'ok':
        a = qcall(lambda: G.get_reachable_set_from(list(xs)))
        if a[0] != 'ok' or sorted(map(repr, a[1])) != sorted(map(repr, obs['reach'][1])):
            rep_bad.append('reach: after the caller edited and used the graphs derived from G, G.get_reachable_set_from(X) returns %s' % (sorted(map(repr, a[1])) if a[0] == 'ok' else (a,)))
        if a[0] == 'ok':
            a[1].add(('edited', 'reach'))
            a[1].difference_update(list(G._next)[:1])
            b = qcall(lambda: G.get_reachable_set_from(list(xs)))
            if b[0] != 'ok' or sorted(map(repr, b[1])) != sorted(map(repr, obs['reach'][1])):
                rep_bad.append('reach: after the caller edited an earlier result, the call returns %s' % (sorted(map(repr, b[1])) if b[0] == 'ok' else (b,)))
    # every result handed out EARLIER still has the value it had when it was returned, and no two results are one object
    # (nor share a successor set)
    cells = {}
    for j, (what, o, val) in enumerate(held):
        now = qcall(lambda: gset(o) if isinstance(o, DiGraph) else sorted(o))
        if now[0] != 'ok' or now[1] != val:
            rep_bad.append('the result of %s, kept by the caller, became %s after later calls (it was %s)' % (what, now[1], val))
        for c in ([o] if not isinstance(o, DiGraph) else [o._next] + list(o._next.values())):
            if cells.get(id(c), j) != j:
                rep_bad.append('the results of %s and of %s share an object' % (held[cells[id(c)]][0], what))
            cells[id(c)] = j
        if isinstance(o, DiGraph) and len(set(map(id, o._next.values()))) != len(o._next):
            rep_bad.append('in the result of %s several nodes share ONE successor set object' % what)
    obs['results_independent'] = rep_bad
    obs['unchanged'] = (snap(G) == s0 and ids(G) == i0)
    return G, obs


# ---------- node objects that are not ints (the model works on indices; results are mapped back through the
# ---------- objects themselves, so a result node that is not one of G's node OBJECTS cannot be mapped) ----------
class Station(object):
    """an ordinary hashable object: equality and hash by identity"""
    def __init__(self, name):
        self.name = name

    def __repr__(self):
        return 'Station(%s)' % self.name


FAMILIES = {
    'str': lambda i: 's%d' % i,
    'tuple': lambda i: (i, 'x'),
    'frozenset': lambda i: frozenset([i, -i - 1]),
    'object': lambda i: Station(i),
    'tuple_of_objects': lambda i: (Station(i), i),
    'mixed': lambda i: [i, 's%d' % i, (i,), Station(i), frozenset([i]), -i - 1.5][i % 6],
    # None / falsy nodes; distinct nodes with equal str() (1 next to '1'); cf. graphgen.NODE_FAMILIES
    'none_and_falsy': lambda i: [None, 0, '', (), frozenset(), -1, 'None'][i] if i < 7 else i,
    'equal_str': lambda i: [1, '1', (1,), '(1,)', Named(1), "'1'", 2][i] if i < 7 else 's%d' % i,
    # node SETS that print alike although no two nodes do: {'a', 'b'} next to {'a b'} (joined / sorted / concatenated str())
    'sets_printing_alike': lambda i: ['a', 'b', 'a b', 'ab', ('a', 'b'), 'b a', "a', 'b"][i] if i < 7 else 's%d' % i,
}


def exotic_case(family, n, E, X, Q=(), edit=None):
    """same observations as one_case, in INDEX space; 'foreign' marks a node that is not one of G's node objects.
    Q: further node sets asked one after the other on the SAME graph object (an answer may not depend on what was asked
    before); edit: an edge (a, b) added in place afterwards, then Q is asked again (returns the new presentation too)"""
    from pyModelChecking.graph import DiGraph
    objs = [FAMILIES[family](i) for i in range(n)]
    extra = FAMILIES[family](n + 7)                       # a node object that is not in G
    idx = {}
    for i, o in enumerate(objs):
        idx[o] = i

    def num(o):
        try:
            return idx.get(o, 'foreign:%s' % type(o).__name__)
        except TypeError:
            return 'foreign:unhashable'

    def nset(G2):
        return (sorted((num(k) for k in G2._next), key=str),
                sorted(((num(a), num(b)) for a, ds in G2._next.items() for b in ds), key=str))
    G = DiGraph(V=objs, E=[(objs[a], objs[b]) for a, b in E])
    before = nset(G)
    g = [[num(k), [num(d) for d in ds]] for k, ds in G._next.items()]      # the model's input: read BEFORE any call
    Xo = [objs[i] if i < n else extra for i in X]
    obs = {}
    r = call(lambda: G.get_reachable_set_from(list(Xo)))
    obs['reach'] = ('ok', sorted((num(o) for o in r[1]), key=str)) if r[0] == 'ok' else r
    r = call(lambda: G.get_reversed_graph())
    obs['rev'] = ('ok', nset(r[1])) if r[0] == 'ok' else r
    r = call(lambda: G.get_subgraph(list(Xo)))
    obs['sub'] = ('ok', nset(r[1])) if r[0] == 'ok' else r
    r = call(lambda: G.clone())
    obs['clone'] = ('ok', nset(r[1])) if r[0] == 'ok' else r
    if r[0] == 'ok':
        C = r[1]
        # the clone must be USABLE with G's own node objects
        q = call(lambda: [sorted((num(d) for d in C.next(o)), key=str) for o in objs])
        obs['clone_next'] = q
        obs['clone_shares'] = any(C._next[k] is G._next.get(k) for k in C._next if k in G._next)
    def ask(q):
        qo = [objs[i] if i < n else extra for i in q]
        r1 = call(lambda: G.get_reachable_set_from(list(qo)))
        r2 = call(lambda: G.get_subgraph(list(qo)))
        return [['ok', sorted((num(o) for o in r1[1]), key=str)] if r1[0] == 'ok' else list(r1),
                ['ok', [list(x) for x in nset(r2[1])]] if r2[0] == 'ok' else list(r2)]
    obs['seq'] = [ask(q) for q in Q]
    obs['unchanged'] = (nset(G) == before)
    obs['g2'] = None
    if edit is not None:
        r = call(lambda: G.add_edge(objs[edit[0]], objs[edit[1]]))
        obs['edit'] = r[0] if r[0] == 'ok' else r[1]
        obs['g2'] = [[num(k), [num(d) for d in ds]] for k, ds in G._next.items()]
        obs['seq2'] = [ask(q) for q in Q]
    return g, obs


def exotic_seq_cmds(g, obs, Q):
    out = []
    for p in (g, obs.get('g2')):
        if p is not None:
            for q in Q:
                out += [['reach', p, list(q)], ['sub', p, list(q)]]
    return out


def exotic_seq_bad(obs, Q, outs):
    """first query of the sequence whose answer differs from the model on the graph as it was at that moment"""
    k = 0
    for nm, when in (('seq', 'asked after the earlier ones'), ('seq2', 'asked again after add_edge')):
        if nm == 'seq2' and obs.get('g2') is None:
            break
        for q, (got_r, got_s) in zip(Q, obs[nm]):
            o_r, o_s = outs[k], outs[k + 1]
            k += 2
            want_r = ['ok', sorted(ints(o_r[1]), key=str)] if o_r[0] == 'ok' else ['err', str(o_r[1])]
            if list(got_r) != want_r:
                return 'get_reachable_set_from(%s) %s gives %s; model: %s' % (q, when, got_r, want_r)
            mn, me = mset(o_s)
            if got_s[0] != 'ok' or [sorted(got_s[1][0], key=str), sorted(map(list, got_s[1][1]), key=str)] != [sorted(mn, key=str), sorted(map(list, me), key=str)]:
                return 'get_subgraph(%s) %s gives %s; model: %s' % (q, when, got_s, [mn, me])
    return None


def run_exotic(R):
    rng = random.Random(R.seed + 13)
    cases = []
    for family in sorted(FAMILIES):
        for _ in range(120 if R.thorough else 14):
            n = rng.randint(1, 6)
            E = rand_digraph(rng, n)
            X = rng.sample(range(n), rng.randint(0, n))
            if rng.random() < 0.2:
                X.append(n)                      # a foreign node object
            # the same graph object is asked several node sets in a row: every single node, two random sets, X again
            Q = [[i] for i in range(n)]
            rng.shuffle(Q)
            Q += [rng.sample(range(n + 1), rng.randint(0, n)) for _ in range(2)] + [list(X)]
            free = [(a, b) for a in range(n) for b in range(n) if (a, b) not in E]
            cases.append((family, n, E, X, Q, rng.choice(free) if free and rng.random() < 0.7 else None))
    cmds, meta = [], []
    for (family, n, E, X, Q, edit) in cases:
        g, obs = exotic_case(family, n, E, X, Q, edit)
        at = len(cmds)
        mine = [['reach', g, X], ['rev', g], ['sub', g, X], ['clone', g]] + exotic_seq_cmds(g, obs, Q)
        if any('foreign:' in sx_str(c) for c in mine):
            # a presentation read back from a graph object contains something that is not one of the caller's node objects: a query
            # (or an edit) put it there - the model has nothing to say about such a graph, the library has already failed
            R.evaluations += 1
            R.violation('graph operation on non-int node objects (%s): G (or G after the in-place edit) now contains a node that is not one of '
                        'the caller\'s node objects - a query inserted it' % family,
                        {'family': family, 'n': n, 'E': E, 'X': X, 'Q': Q, 'edit': edit, 'impl': obs, 'model': None, 'differs': ['G modified'],
                         'stream': 'exotic node objects'})
            continue
        cmds += mine
        meta.append((family, n, E, X, obs, g, Q, edit, at))
    outs = model_batch_parallel(cmds)
    hist = {}
    nseq = 0
    for (family, n, E, X, obs, g, Q, edit, at) in meta:
        R.evaluations += 1
        hist[family] = hist.get(family, 0) + 1
        o_reach, o_rev, o_sub, o_clone = outs[at:at + 4]
        m = {'reach': ('ok', sorted(ints(o_reach[1]), key=str)) if o_reach[0] == 'ok' else ('err', o_reach[1]),
             'rev': ('ok', mset(o_rev)), 'sub': ('ok', mset(o_sub)), 'clone': ('ok', mset(o_clone))}
        m['clone_next'] = ('ok', [sorted(int(d) for d in ds) for _, ds in sorted(((int(k), ds) for k, ds in o_clone))])
        bad = []
        for k in ('reach', 'rev', 'sub', 'clone'):
            a = obs.get(k)
            b = m[k]
            if k == 'reach':
                same = tuple(a) == tuple(b)
            else:
                same = a[0] == 'ok' and (sorted(a[1][0], key=str), sorted(a[1][1], key=str)) == (sorted(b[1][0], key=str), sorted(b[1][1], key=str))
            if not same:
                bad.append(k)
        if obs.get('clone', ('err',))[0] == 'ok':
            cn = obs['clone_next']
            if cn[0] != 'ok' or [sorted(x, key=str) for x in cn[1]] != m['clone_next'][1]:
                bad.append('clone not usable with the node objects of G')
            if obs.get('clone_shares'):
                bad.append('aliasing')
        if not obs['unchanged']:
            bad.append('G modified')
        sb = exotic_seq_bad(obs, Q, outs[at + 4:])
        nseq += len(Q) * (2 if obs.get('g2') is not None else 1)
        if sb:
            bad.append('several node sets asked in a row on one graph object: ' + sb)
        if bad:
            R.violation('graph operation on non-int node objects (%s) differs from the proved model: %s' % (family, ','.join(bad)),
                        {'family': family, 'n': n, 'E': E, 'X': X, 'Q': Q, 'edit': edit, 'impl': obs, 'model': m, 'differs': bad,
                         'stream': 'exotic node objects'})
        elif len(E) > 0:
            R.nontriv(('exotic', family, n, tuple(sorted(E)), tuple(sorted(X))))
    R.cov['node_object_families'] = hist
    R.cov['node_object_queries_in_a_row_on_one_graph'] = nseq


# ---------- DiGraph.add_node / add_edge after construction, then the read-only API ----------
def run_mutators(R):
    """histories of add_node / add_edge on a constructed graph (duplicates must raise RuntimeError and leave G unchanged),
    compared step by step with the model (add_node_r / add_edge_r), then nodes / edges / sources / next are read back"""
    from pyModelChecking.graph import DiGraph
    rng = random.Random(R.seed + 131)
    H = []
    for _ in range(1500 if R.thorough else 160):
        n = rng.randint(0, 4)
        V = list(range(n))
        E = rand_digraph(rng, n) if n else []
        ops = []
        for _ in range(rng.randint(1, 6)):
            if rng.random() < 0.35:
                ops.append(('addnode', rng.randint(0, n + 2)))
            else:
                ops.append(('addedge', rng.randint(0, n + 2), rng.randint(0, n + 2)))
        H.append((V, E, ops))
    def read_back(G, g, rr):
        """one read-only call on the live graph, compared with what the CURRENT model graph g says (the read-only API must
        answer for the graph as it is now: a node set / reversed graph remembered from before an edit would show up here)"""
        nodes, edges = mset(g)
        k = rr.randrange(6)
        if k == 0:
            return 'nodes()', sorted(G.nodes()), nodes
        if k == 1:
            return 'edges()', sorted(G.edges()), edges
        if k == 2:
            return 'sources()', sorted(G.sources()), sorted({a for a, _ in edges})
        if k == 3:
            X = [v for v in nodes if rr.random() < 0.7] + [max(nodes + [0]) + 1]
            S = G.get_subgraph(list(X))
            Xs = set(X) & set(nodes)
            return 'get_subgraph(%s)' % X, gset(S), (sorted(Xs), sorted((a, b) for a, b in edges if a in Xs and b in Xs))
        if k == 4:
            return 'get_reversed_graph()', gset(G.get_reversed_graph()), (nodes, sorted((b, a) for a, b in edges))
        if not nodes:
            return 'nodes()', sorted(G.nodes()), nodes
        x = rr.choice(nodes)
        seen, todo = {x}, [x]
        while todo:
            a = todo.pop()
            for (c, d) in edges:
                if c == a and d not in seen:
                    seen.add(d)
                    todo.append(d)
        return 'get_reachable_set_from([%s])' % x, sorted(G.get_reachable_set_from([x])), sorted(seen)

    live = []
    rr = random.Random(R.seed + 137)
    nreads = 0
    for V, E, ops in H:
        G = DiGraph(V=V, E=E)
        live.append({'G': G, 'g': graph_sx(G), 'ok': True, 'trace': []})
        what, got, want = read_back(G, live[-1]['g'], rr)          # the caller looks at the graph BEFORE editing it
        live[-1]['trace'].append(('read', what))
    maxlen = max(len(h[2]) for h in H)
    for step in range(maxlen):
        cmds, idx = [], []
        for i, (V, E, ops) in enumerate(H):
            if step < len(ops) and live[i]['ok']:
                op = ops[step]
                cmds.append([op[0], live[i]['g']] + list(op[1:]))
                idx.append(i)
        outs = model_batch_parallel(cmds) if cmds else []
        for i, o in zip(idx, outs):
            st = live[i]
            op = H[i][2][step]
            G = st['G']
            before = gset(G)
            r = call(lambda: G.add_node(op[1]) if op[0] == 'addnode' else G.add_edge(op[1], op[2]))
            R.evaluations += 1
            m_ok = (o[0] == 'ok')
            after = gset(G)
            if m_ok:
                st['g'] = o[1]
                exp = mset(o[1])
                good = (r[0] == 'ok' and after == exp)
            else:
                good = (r == ('err', 'RuntimeError') and after == before)
            st['trace'].append((op, r[0] if r[0] == 'ok' else r[1]))
            if good:
                rd = call(lambda: read_back(G, st['g'], rr))
                nreads += 1
                if rd[0] != 'ok' or rd[1][1] != rd[1][2]:
                    st['ok'] = False
                    R.violation('a read-only call after add_node / add_edge does not answer for the graph as it is now',
                                {'stream': 'mutators', 'V': H[i][0], 'E': H[i][1], 'history': [list(map(str, t)) for t in st['trace']],
                                 'read': rd[1][0] if rd[0] == 'ok' else rd, 'impl': rd[1][1] if rd[0] == 'ok' else None,
                                 'expected_on_current_graph': rd[1][2] if rd[0] == 'ok' else None})
                    continue
                st['trace'].append(('read', rd[1][0]))
            if not good:
                st['ok'] = False
                R.violation('DiGraph.%s after construction differs from the proved model' % ('add_node' if op[0] == 'addnode' else 'add_edge'),
                            {'stream': 'mutators', 'V': H[i][0], 'E': H[i][1], 'ops': [list(x) for x in H[i][2][:step + 1]], 'impl': [r, after],
                             'model': ['ok', mset(o[1])] if m_ok else ['err', o[1]]})
    # read-only API on the final graphs
    for i, st in enumerate(live):
        if not st['ok']:
            continue
        G = st['G']
        exp_nodes, exp_edges = mset(st['g'])
        got = (sorted(G.nodes()), sorted(G.edges()), sorted(G.sources()), sorted((v, sorted(G.next(v))) for v in G.nodes()))
        want = (exp_nodes, exp_edges, sorted({a for a, _ in exp_edges}), sorted((v, sorted(b for a, b in exp_edges if a == v)) for v in exp_nodes))
        if got != want:
            R.violation('nodes()/edges()/sources()/next() after add_node/add_edge differ from the model',
                        {'stream': 'mutators', 'V': H[i][0], 'E': H[i][1], 'ops': [list(x) for x in H[i][2]], 'impl': got, 'model': want})
        else:
            R.nontriv(('mut', tuple(H[i][0]), tuple(sorted(H[i][1])), tuple(H[i][2])))
    R.cov['mutator_histories'] = len(H)
    R.cov['mutator_interleaved_reads'] = nreads


# ---------- histories over several objects: operations run ON clones / reversed graphs / subgraphs, edits in between ----------
def chain_observer(Q, held):
    """every read-only operation on one object of a history, results canonicalised at once; the result OBJECTS are kept"""
    from pyModelChecking.graph import DiGraph

    def observe(G, i):
        s0 = snap(G)
        ob = {'reach': [], 'sub': []}
        for X in Q:
            arg = list(X)
            r = call(lambda: G.get_reachable_set_from(arg))
            ob['reach'].append(['ok', sorted(r[1], key=repr)] if r[0] == 'ok' else list(r))
            if r[0] == 'ok':
                held.append(('object %d.get_reachable_set_from(%s)' % (i, X), r[1], sorted(r[1], key=repr)))
            r = call(lambda: G.get_subgraph(arg))
            ob['sub'].append(['ok', gset(r[1])] if r[0] == 'ok' and isinstance(r[1], DiGraph) else list(r))
            if r[0] == 'ok' and isinstance(r[1], DiGraph):
                held.append(('object %d.get_subgraph(%s)' % (i, X), r[1], gset(r[1])))
            if arg != list(X):
                ob['sub'][-1] = ['err', 'other:the list given as argument was modified']
        for nm, op in (('rev', lambda: G.get_reversed_graph()), ('clone', lambda: G.clone())):
            r = call(op)
            ob[nm] = ['ok', gset(r[1])] if r[0] == 'ok' and isinstance(r[1], DiGraph) else list(r)
            if r[0] == 'ok' and isinstance(r[1], DiGraph):
                held.append(('object %d.%s' % (i, {'rev': 'get_reversed_graph()', 'clone': 'clone()'}[nm]), r[1], gset(r[1])))
        # the plain readers must answer for the object as it is (a clone / derived graph that forgot some internal
        # bookkeeping of its original shows up here); compared with the presentation read from the object itself
        r = call(lambda: [sorted(G.nodes(), key=repr), sorted(G.edges(), key=repr), sorted(G.sources(), key=repr),
                          sorted(((v, sorted(G.next(v), key=repr)) for v in G.nodes()), key=repr)])
        want = [sorted(G._next, key=repr), sorted(((a, b) for a, ds in G._next.items() for b in ds), key=repr),
                sorted((a for a, ds in G._next.items() if ds), key=repr), sorted(((a, sorted(ds, key=repr)) for a, ds in G._next.items()), key=repr)]
        ob['readers'] = None if r[0] == 'ok' and r[1] == want else 'nodes() / edges() / sources() / next() give %s, the object holds %s' % (r[1], want)
        ob['unchanged'] = (snap(G) == s0)
        return ob
    return observe


def chain_cmds(chain, steps):
    """the model evaluations one history needs (the presentations are read from the live objects at each moment)"""
    out = []
    for st in steps:
        op = st['op']
        if op[0] == 'edge':
            out.append(['addedge', st['before'], op[1], op[2]])
        elif op[0] == 'node':
            out.append(['addnode', st['before'], op[1]])
        elif op[0] in ('clone', 'rev'):
            out.append([op[0], st['before']])
        elif op[0] == 'sub':
            out.append(['sub', st['before'], list(op[1])])
        for (i, p, ob) in st['obs']:
            if ints_only(p):
                out.append(['rev', p])
                out.append(['clone', p])
                for X in chain['Q']:
                    out.append(['reach', p, list(X)])
                    out.append(['sub', p, list(X)])
    return [c for c in out if ints_only(c[1])]


def chain_check(chain, steps, shared, objs, held, model):
    """first disagreement of one history with the model (None = agrees)"""
    from pyModelChecking.graph import DiGraph
    for k, st in enumerate(steps):
        op = st['op']
        for (i, p, ob) in st['obs']:
            if not ints_only(p):
                return 'after step %d (%s) object %d is no longer a graph over ints: %r' % (k, op, i, p)
        now = {i: p for (i, p, ob) in st['obs']}
        where = 'step %d (%s applied to object %d, which was %r)' % (k, op, st['target'], st['before'])
        if op[0] in ('edge', 'node'):
            m = model(['addedge', st['before'], op[1], op[2]] if op[0] == 'edge' else ['addnode', st['before'], op[1]])
            if m[0] == 'ok':
                if st['outcome'] != 'ok' or mset(now[st['target']]) != mset(m[1]):
                    return '%s: %s, object is now %s; model: %s' % (where, st['outcome'], mset(now[st['target']]), mset(m[1]))
            elif st['outcome'] != 'RuntimeError' or mset(now[st['target']]) != mset(st['before']):
                return '%s: %s, object is now %s; model: RuntimeError, nothing changes' % (where, st['outcome'], mset(now[st['target']]))
        elif op[0] in ('clone', 'rev', 'sub'):
            m = model([op[0], st['before']] + ([list(op[1])] if op[0] == 'sub' else []))
            if st['outcome'] != 'ok' or mset(now[st['new']]) != mset(m):
                return '%s: %s%s; model: %s' % (where, st['outcome'], (', the result is %s' % (mset(now[st['new']]),)) if st['new'] is not None else '', mset(m))
            if mset(now[st['target']]) != mset(st['before']):
                return '%s changed the object to %s' % (where, mset(now[st['target']]))
        # every object of the history, asked again
        for (i, p, ob) in st['obs']:
            asked = 'after %s object %d (now %r)' % (where, i, p)
            if not ob['unchanged']:
                return '%s was changed by a read-only call' % asked
            if ob['readers']:
                return '%s: %s' % (asked, ob['readers'])
            for nm in ('rev', 'clone'):
                want = ['ok', mset(model([nm, p]))]
                if ob[nm] != want and [ob[nm][0], tuple(ob[nm][1])] != [want[0], tuple(want[1])]:
                    return '%s: %s gives %s; model: %s' % (asked, nm, ob[nm], want)
            for X, got_r, got_s in zip(chain['Q'], ob['reach'], ob['sub']):
                m = model(['reach', p, list(X)])
                want = ['ok', sorted(ints(m[1]))] if m[0] == 'ok' else ['err', str(m[1])]
                if list(got_r) != want:
                    return '%s: get_reachable_set_from(%s) gives %s; model: %s' % (asked, X, got_r, want)
                want = ['ok', mset(model(['sub', p, list(X)]))]
                if [got_s[0], tuple(got_s[1]) if got_s[0] == 'ok' else got_s[1]] != [want[0], tuple(want[1])]:
                    return '%s: get_subgraph(%s) gives %s; model: %s' % (asked, X, got_s, want)
    if shared:
        return 'objects of the history are not independent: ' + '; '.join(shared[:3])
    # results handed out earlier keep their value and are nobody else's object
    cells = {}
    for i, o in enumerate(objs):
        for c in [o._next] + list(o._next.values()):
            cells[id(c)] = 'object %d' % i
    for (what, o, val) in held:
        nowv = call(lambda: gset(o) if isinstance(o, DiGraph) else sorted(o, key=repr))
        if nowv[0] != 'ok' or nowv[1] != val:
            return 'the result of %s, kept by the caller, became %s after later calls (it was %s)' % (what, nowv[1], val)
        for c in ([o] if not isinstance(o, DiGraph) else [o._next] + list(o._next.values())):
            if cells.get(id(c), what) != what:
                return 'the result of %s shares an object with %s' % (what, cells[id(c)])
            cells[id(c)] = what
    return None


def run_chains(R, only=None):
    rng = random.Random(R.seed + 1313)
    chains = [only] if only else [rand_chain(rng, nmax=5, kmax=5) for _ in range(3000 if R.thorough else 300)]
    runs, cmds, at = [], [], {}
    for ch in chains:
        held = []
        steps, shared, objs = exec_chain(ch, chain_observer(ch['Q'], held), call)
        runs.append((ch, steps, shared, objs, held))
        for c in chain_cmds(ch, steps):
            key = sx_str(c)
            if key not in at:
                at[key] = len(cmds)
                cmds.append(c)
    outs = model_batch_parallel(cmds)
    kinds, first = {}, None
    for ch, steps, shared, objs, held in runs:
        R.evaluations += sum(len(st['obs']) for st in steps)
        what = chain_check(ch, steps, shared, objs, held, lambda c: outs[at[sx_str(c)]])
        if what:
            R.violation('history over several graph objects: ' + what, {'stream': 'histories', 'chain': ch, 'disagreement': what})
            first = first or what
            continue
        for st in steps:
            kinds[st['op'][0]] = kinds.get(st['op'][0], 0) + 1
        if len(objs) > 1:
            R.nontriv(('history', json.dumps(ch, sort_keys=True)))
    R.cov['histories_over_several_objects'] = {'histories': len(chains), 'steps_by_kind': kinds, 'distinct_model_evaluations': len(cmds)}
    return first


def run_large(R):
    """graphs with thousands of nodes (the model's unary numbers are not run at this size; the expected values are known in
    closed form): a chain 0 -> 1 -> ... -> n with one back edge n -> n/2.  The operations are iterative worklists, they may not
    depend on the length of paths (no RecursionError) and stay exact"""
    from pyModelChecking.graph import DiGraph
    for n in (4000, 2500):
        h = n // 2
        E = [(i, i + 1) for i in range(n)] + [(n, h)]
        G = DiGraph(E=E)
        s0 = len(G.edges())
        checks = [('get_reachable_set_from([0])', lambda: sorted(G.get_reachable_set_from([0])), list(range(n + 1))),
                  ('get_reachable_set_from([n-5])', lambda: sorted(G.get_reachable_set_from([n - 5])), list(range(h, n + 1))),
                  ('reversed.get_reachable_set_from([3])', lambda: sorted(G.get_reversed_graph().get_reachable_set_from([3])), [0, 1, 2, 3]),
                  ('reversed.get_reachable_set_from([n])', lambda: sorted(G.get_reversed_graph().get_reachable_set_from([n])), list(range(n + 1))),
                  ('get_subgraph(range(1000)) edges', lambda: sorted(G.get_subgraph(range(1000)).edges()), [(i, i + 1) for i in range(999)]),
                  ('get_subgraph(range(1000)) nodes', lambda: sorted(G.get_subgraph(range(1000)).nodes()), list(range(1000))),
                  # a handful of nodes out of thousands (nodes that keep no edge stay nodes of the subgraph)
                  ('get_subgraph([5, 6, 20, n, h]) nodes and edges', lambda: list(gset(G.get_subgraph([5, 6, 20, n, h]))),
                   [sorted([5, 6, 20, n, h]), sorted([(5, 6), (n, h)])]),
                  ('get_subgraph([7]) nodes and edges', lambda: list(gset(G.get_subgraph([7]))), [[7], []]),
                  ('get_subgraph(generator of 300 nodes) nodes and edges', lambda: list(gset(G.get_subgraph(i for i in range(100, 400)))),
                   [list(range(100, 400)), [(i, i + 1) for i in range(100, 399)]]),
                  ('get_reachable_set_from(range(n-3, n))', lambda: sorted(G.get_reachable_set_from(range(n - 3, n))), list(range(h, n + 1))),
                  ('get_reachable_set_from(G.nodes())', lambda: sorted(G.get_reachable_set_from(G.nodes())), list(range(n + 1))),
                  ('clone nodes', lambda: sorted(G.clone().nodes()), list(range(n + 1))),
                  ('clone edges', lambda: sorted(G.clone().edges()), sorted(E))]
        for what, fn, want in checks:
            R.evaluations += 1
            r = call(fn)
            if r[0] != 'ok' or r[1] != want or len(G.edges()) != s0:
                R.violation('on a chain of %d nodes %s %s' % (n + 1, what, ('raised ' + str(r[1])) if r[0] != 'ok' else 'is not exact'),
                            {'stream': 'large', 'n': n, 'operation': what, 'impl': r if r[0] != 'ok' else ['ok', 'a set/graph with %d elements' % len(r[1])],
                             'expected_size': len(want)})
            else:
                R.nontriv(('large', n, what))


def run(R):
    R.rule = ('(digraph, node subset X) pairs: all digraphs with <= 3 nodes x all subsets of nodes+one foreign node '
              '(every 11th 4-node graph in quick, every 2nd in thorough), random n <= 12; observables: reachable set / RuntimeError, '
              'reversed graph, double reversal, induced subgraph, clone, aliasing and before/after snapshot of G; '
              'non-trivial = reach set strictly between X and all nodes, or subgraph drops at least one edge and keeps one. '
              'In every case: X is also passed as set / frozenset / tuple / list / list naming nodes twice to get_reachable_set_from '
              'AND get_subgraph (same answer, argument unmodified); the first result OBJECTS of reach / reversed / subgraph are '
              'kept while later calls with other node sets are made and read again at the end (value unchanged, no two results '
              'share an object, no two nodes of a result share a successor set); every operation is run ON the clone (same '
              'answers as on G); edited derived graphs are USED (reach / reversed / subgraph / clone) before G is asked again. '
              'Stream "histories": random histories over several objects (graphgen.rand_chain: add_edge / add_node in place, '
              'clone / reversed / subgraph with work continuing on the derived object or on the original, goto): after EVERY '
              'step EVERY object of the history is asked reach(Q) / subgraph(Q) (Q fixed per history, may name a node twice or a '
              'foreign node) / reversed / clone / nodes / edges / sources / next and compared with the model on that object\'s '
              'current presentation; each edit / derivation is compared with the model (add_edge_r, add_node_r, reversed, '
              'subgraph, clone); all result objects of the history are held to the end (values unchanged, pairwise distinct '
              'cells). Node-object stream: + None / falsy nodes and distinct nodes with equal str(). '
              'Second audit: (a) per case, in rotation, X is also passed as a re-iterable collection that is none of list / tuple / '
              'set / frozenset (dict keys / values view, dict, deque, user-defined collection, range) to reach AND subgraph, and as a '
              'one-shot iterable (iterator, generator, filter, map, reversed, chain) to get_subgraph; G.nodes() and G.sources() '
              'themselves are passed back to G; (b) node-object stream: each graph OBJECT is asked a sequence of node sets in a row '
              '(every single node, random sets, X again: reach and subgraph of each vs the model), then an edge is added in place and '
              'the sequence is asked again (model on the new presentation); + family of node SETS that print alike; (c) stream '
              '"medium": 16..200-node graphs (ring, chords, sparse, star, chains with isolated nodes, dense) with requests from one '
              'node to all nodes (incl. <= 1/16 of the graph, nodes that keep no edge, foreign nodes, ranges, one-shot forms), full '
              'node AND edge sets vs the model; the large stream compares node sets too and asks a handful of nodes out of '
              'thousands; (d) stream "subclasses": the operations on instances of classes derived from DiGraph (constructor with a '
              'required / keyword-only argument, other argument order, constructor that adds a node, extra attributes, the '
              'library\'s Kripke and LTL tableau) vs the model, results edited afterwards, G unchanged')
    rng = R.rng
    run_exotic(R)
    run_mutators(R)
    run_chains(R)
    run_large(R)
    more.run_medium(R)
    more.run_subclasses(R)
    cases = []
    for n in range(0, 4):
        nodes = list(range(n))
        subsets = [list(c) for r in range(n + 1) for c in itertools.combinations(nodes, r)]
        # foreign nodes (not in G): one, several, and more requested nodes than G has
        subsets += [s + [99] for s in subsets] + [s + [98, 99] for s in subsets] + [s + [96, 97, 98, 99] for s in subsets[:4]]
        for E in all_digraphs(n):
            for X in subsets:
                cases.append((nodes, E, X))
    step = 2 if R.thorough else 11
    for mask in range(0, 1 << 16, step):
        E = digraph_by_mask(4, mask)
        for X in ([[0], [1, 3], [0, 1, 2, 3], [2, 7], [0, 1, 7, 8, 9]] if not R.thorough else
                  [list(c) for r in range(5) for c in itertools.combinations(range(4), r)] + [[2, 7], [0, 1, 7, 8, 9], [3, 6, 7, 8]]):
            cases.append((list(range(4)), E, X))
    for _ in range(15000 if R.thorough else 2000):
        n = rng.randint(1, 12)
        V = list(range(n))
        rng.shuffle(V)
        X = rng.sample(V, rng.randint(0, n))
        if rng.random() < 0.25:
            X += [n + 5 + j for j in range(rng.randint(1, n + 1))]     # foreign nodes, possibly |X| >= |V|
        cases.append((V, rand_digraph(rng, n), X))
    cmds, meta = [], []
    with contextlib.redirect_stdout(io.StringIO()):
        for rot, (V, E, X) in enumerate(cases):
            G, obs = one_case(V, E, X, rot)
            g = obs.pop('presentation')
            cmds += [['reach', g, X], ['rev', g], ['sub', g, X], ['clone', g], ['mkg', list(V), [list(e) for e in E]]]
            meta.append((V, E, X, obs, g))
    outs = model_batch_parallel(cmds)
    for i, (V, E, X, obs, g) in enumerate(meta):
        R.evaluations += 1
        o_reach, o_rev, o_sub, o_clone, o_mkg = outs[5 * i:5 * i + 5]
        m = {}
        m['reach'] = ('ok', sorted(ints(o_reach[1]))) if o_reach[0] == 'ok' else ('err', o_reach[1])
        m['rev'] = ('ok', mset(o_rev))
        m['sub'] = ('ok', mset(o_sub))
        m['clone'] = ('ok', mset(o_clone))
        m['revrev'] = ('ok', mset(g))   # theorem reversed_involutive: same nodes and edges as g
        m['ctor'] = ('ok', mset(o_mkg))
        bad = [k for k in ('ctor', 'reach', 'rev', 'sub', 'clone', 'revrev') if tuple(obs.get(k, ())) != tuple(m[k])]
        if obs.get('ctor_forms'):
            bad.append('constructor argument forms: ' + '; '.join(obs['ctor_forms']))
        if obs.get('clone_shares') or obs.get('rev_shares'):
            bad.append('aliasing')
        if not obs['unchanged']:
            bad.append('G modified')
        if obs.get('argument_forms'):
            bad.append('argument forms: ' + '; '.join(obs['argument_forms']))
        if obs.get('results_independent'):
            bad.append('results not independent: ' + '; '.join(obs['results_independent']))
        if bad:
            R.violation('graph operation differs from the proved model: %s' % ','.join(bad),
                        {'V': V, 'E': E, 'X': X, 'rot': i, 'impl': obs, 'model': m, 'differs': bad})
            continue
        nodes_all = set(int(k) for k, _ in g)
        nt = False
        if obs['reach'][0] == 'ok' and set(X) < set(obs['reach'][1]) < nodes_all:
            nt = True
        if obs['sub'][0] == 'ok' and 0 < len(obs['sub'][1][1]) < len(E):
            nt = True
        if nt:
            R.nontriv((tuple(V), tuple(sorted(E)), tuple(sorted(X))))
            R.sample({'V': V, 'E': E, 'X': X, 'reach': obs['reach'][1] if obs['reach'][0] == 'ok' else obs['reach'], 'subgraph': obs['sub'][1]})
    R.cov['distribution'] = {'runtime_errors_expected': sum(1 for m_ in meta if m_[3]['reach'][0] == 'err')}
    R.cov['per_case_observers'] = {'argument_forms_reach_and_subgraph': [f for f, _ in ARG_FORMS + CONTAINER_FORMS],
                                   'one_shot_forms_subgraph_only': [f for f, _ in ONESHOT_FORMS],
                                   'collections_handed_out_by_G_passed_back': ['nodes()', 'sources()', 'next(v)'],
                                   'held_result_objects_reread_at_end': True, 'operations_run_on_clone': 4,
                                   'cases_where_the_repeating_list_names_an_existing_node_twice': sum(1 for m_ in meta if any(x in m_[0] for x in m_[2]))}
    R.exhaustive = False


def replay(R, data):
    d = data['data']
    R.seed = data.get('seed', R.seed)
    if d.get('stream') == 'large':
        n0 = len(R.violations)
        run_large(R)
        print('large graphs re-run: %d violation(s)' % (len(R.violations) - n0))
        return
    if d.get('stream') in ('medium', 'subclasses'):
        n = (more.run_medium if d['stream'] == 'medium' else more.run_subclasses)(R, only=d['case'])
        print('case:', {k: v for k, v in d['case'].items() if k not in ('V', 'E')}, '- %d violation(s)' % n)
        if n:
            print('disagreement:', R.violations[-1]['what'])
        return
    if d.get('stream') == 'histories':
        what = run_chains(R, only=d['chain'])
        print('history:', d['chain'])
        print('disagreement:', what or 'none')
        return
    if d.get('stream') == 'mutators':
        print('the mutator stream is re-run as a whole (seed %s)' % R.seed)
        run_mutators(R)
        return
    if d.get('stream') == 'exotic node objects':
        Q = d.get('Q', [])
        g, obs = exotic_case(d['family'], d['n'], [tuple(e) for e in d['E']], d['X'], Q, d.get('edit'))
        print('impl :', obs)
        if any('foreign:' in sx_str(c) for c in [['reach', g, d['X']]] + exotic_seq_cmds(g, obs, Q)):
            print('a graph object now contains a node that is not one of the caller\'s node objects (a query inserted it)')
            R.violation('replayed', d)
            return
        print('model:', model_batch([['reach', g, d['X']], ['rev', g], ['sub', g, d['X']], ['clone', g]]))
        sb = exotic_seq_bad(obs, Q, model_batch(exotic_seq_cmds(g, obs, Q)))
        print('node sets asked in a row:', sb or 'agree with the model')
        if sb or obs['clone'][0] != 'ok' or obs['clone_next'][0] != 'ok' or any('foreign' in str(x) for x in obs['clone'][1][0]):
            R.violation('replayed', d)
        return
    G, obs = one_case(d['V'], [tuple(e) for e in d['E']], d['X'])
    g = obs.pop('presentation')
    o = model_batch([['reach', g, d['X']], ['rev', g], ['sub', g, d['X']], ['clone', g]])
    print('impl :', obs)
    print('model:', o)
    m_reach = ('ok', sorted(ints(o[0][1]))) if o[0][0] == 'ok' else ('err', o[0][1])
    if tuple(obs['reach']) != m_reach or tuple(obs['rev']) != ('ok', mset(o[1])) or tuple(obs['sub']) != ('ok', mset(o[2])) \
            or tuple(obs['clone']) != ('ok', mset(o[3])) or not obs['unchanged'] or obs.get('clone_shares') \
            or obs.get('argument_forms') or obs.get('results_independent') or obs.get('ctor_forms'):
        R.violation('replayed', d)
