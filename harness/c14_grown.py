"""c14_grown.py - structures GROWN after construction (regression stream of fix 8bf41ed; theorems C14_added_states_are_labelled,
C14_grown_structure_is_wellformed, C14_unlabelled_growth_refuted over Model/KripkeOps.v).
A random constructed structure is edited through Kripke.add_node / Kripke.add_edge (new states, edges between old and new states,
duplicates that raise the documented RuntimeError) WITHOUT the caller labelling anything; after EVERY step the whole structure (node
order, successor sets, initial states, one label entry per state) is compared with the extracted model `kapply`, `labels(s)` of every
state with `label_entry`, and - whenever the structure is total - the three model checkers (and one call with F) are asked and compared
with the proved models on the presentation read back."""
from common import *
from mccheck import impl_mc, model_cmd, model_obs


def gen_grown(rng):
    n = rng.randint(1, 3)
    kd = rand_kripke(rng, n)
    m = n
    ops = []
    for _ in range(rng.randint(2, 6)):
        r = rng.random()
        if r < 0.25:
            v = rng.randrange(m + 1)
            ops.append(['node', v])
            m = max(m, v + 1)
        else:
            a, b = rng.randrange(m + 1), rng.randrange(m + 1)
            ops.append(['edge', a, b])
            m = max(m, a + 1, b + 1)
    # make it total again: a self loop for every state that may be left without successor
    ops += [['edge', v, v] for v in range(m)]
    f = rng.choice([('E', ('X', ('ap', 'p'))), ('A', ('G', ('or', ('ap', 'p'), ('ap', 'q')))), ('E', ('U', ('ap', 'p'), ('not', ('ap', 'q')))),
                    ('A', ('F', ('not', ('ap', 'p')))), ('ap', 'p'), ('not', ('ap', 'q'))])
    return {'stream': 'grown structures', 'kripke': kd_json(kd), 'ops': ops, 'formula': f}


def total_sx(ks):
    return all(ds for _, ds in ks[0])


def run_grown_case(c):
    """-> list of (what, implementation observation, model command or None, expected if no command)"""
    kd = kd_from_json(c['kripke'])
    r0 = call(lambda: kd_py(kd))
    f = detuple(c['formula'])
    if r0[0] != 'ok':
        # the constructor itself fails on a valid total structure: reported against the model's constructor
        return [('Kripke(S, S0, R, L) of the initial structure', ['err', r0[1]], ['kripke', list(kd['S']), list(kd['S0']), [list(e) for e in kd['R']],
                                                                          [[s, [Q(a) for a in ls]] for s, ls in kd['L'].items()]], None)]
    K = r0[1]
    obs = []
    for op in c['ops']:
        before = kripke_sx(K)
        if op[0] == 'node':
            r = call(lambda: K.add_node(op[1]))
            cmd = ['kaddnode', before, op[1]]
        else:
            r = call(lambda: K.add_edge(op[1], op[2]))
            cmd = ['kaddedge', before, op[1], op[2]]
        after = kripke_sx(K)
        obs.append(('%s -> structure' % (op,), ['ok', canon_k(after)] if r[0] == 'ok' else ['err', r[1], canon_k(after)], cmd, before))
        for s in list(K.states()):
            lr = call(lambda: sorted(K.labels(s)))
            obs.append(('labels(%r) after %s' % (s, op), list(lr), ['labelentry', after, s], None))
        if total_sx(after):
            for lg in ('CTL', 'LTL', 'CTLS'):
                g = f if lg != 'LTL' else (f if f[0] == 'A' else None)
                if g is None or (lg == 'CTL' and not is_ctl_state(g)):
                    continue
                a = impl_mc(lg, K, g)
                obs.append(('%s.modelcheck after %s' % (lg, op), list(a), model_cmd(lg, K, g), None))
    return obs


def detuple(x):
    if isinstance(x, list):
        return tuple(detuple(y) for y in x)
    return x


def canon_k(ks):
    """structure presentation with successor sets / initial states / label sets as sorted lists (node and label-entry ORDER is kept:
    both are dict insertion orders, which the model reproduces)"""
    ks = sx_parse(sx_str(ks))
    g, init, lab = ks
    return [[[str(v), sorted(str(d) for d in ds)] for v, ds in g], sorted(str(x) for x in init), [[str(v), sorted(str(a) for a in ls)] for v, ls in lab]]


def judge(obs, outs):
    bad = []
    for (what, impl, cmd, before), o in zip(obs, outs):
        if cmd[0] == 'kripke':
            exp = ['ok'] if o[0] == 'ok' else ['err', o[1]]
            if impl[:2] != exp[:2] and not (impl[0] == 'ok' == exp[0]):
                bad.append((what, impl, exp))
        elif cmd[0] in ('kaddnode', 'kaddedge'):
            if o[0] == 'ok':
                exp = ['ok', canon_k(o[1])]
            else:
                exp = ['err', o[1], canon_k(before)]          # a call that raises leaves the structure as it was
            if impl != exp:
                bad.append((what, impl, exp))
        elif cmd[0] == 'labelentry':
            exp = ['ok', sorted(str(a) for a in o[1])] if o[0] == 'ok' else ['err', o[1]]
            if impl != exp:
                bad.append((what, impl, exp))
        else:
            m = model_obs(o)
            if tuple(impl) != m:
                bad.append((what, impl, list(m)))
    return bad


def grown_structures(R):
    rng = random.Random(R.seed + 1414)
    cases = [json.loads(json.dumps(gen_grown(rng))) for _ in range(2500 if R.thorough else 250)]
    allobs = [run_grown_case(c) for c in cases]
    outs = model_batch_parallel([cmd for obs in allobs for (_, _, cmd, _) in obs])
    k = 0
    nbad = 0
    for c, obs in zip(cases, allobs):
        o = outs[k:k + len(obs)]
        k += len(obs)
        R.evaluations += len(obs)
        bad = judge(obs, o)
        if bad:
            nbad += 1
            if nbad <= 4:
                what, impl, exp = bad[0]
                R.violation('a structure grown with add_node / add_edge differs from the proved model: %s: implementation %s, model %s' % (what, impl, exp),
                            dict(c, first_difference={'what': what, 'impl': impl, 'model': exp}, differences=len(bad)))
        else:
            R.count('grown_structures_agree')
            R.nontriv(('grown', json.dumps(c, sort_keys=True)))
    R.cov['grown_structures'] = {'cases': len(cases), 'observations': k, 'differing_cases': nbad}
    return nbad


def replay_grown(R, d):
    obs = run_grown_case(d)
    outs = model_batch([cmd for (_, _, cmd, _) in obs])
    bad = judge(obs, outs)
    for what, impl, exp in bad[:10]:
        print('%-50s impl=%s model=%s <-- VIOLATION' % (what, impl, exp))
    print('%d observations, %d differ' % (len(obs), len(bad)))
    if bad:
        R.violation('replayed: a structure grown with add_node / add_edge differs from the proved model', d)
