"""c16_streams.py - the second-audit streams of C16 (private helper of props_c16.py).

bddlib.py's worker switches the automatic collector OFF, compares OBDDs with OBDDs only, never hashes one and never
holds more than ~15 parents on one node.  This module has a worker of its own (a copy of bddlib's, same history
language, same observation record, so bddlib.compare_history judges it unchanged) that adds

* `gcmode` [t0, t1, t2]: the AUTOMATIC collector is on, with these thresholds, while an operation runs (observations are
  made with the collector off); dropped OBDDs sit in unreachable cycles, so that their nodes are freed whenever a
  collection happens to start - also in the middle of a unique-table lookup.  gc.collect() at the start of every history
  zeroes the allocation counters: the phase of the collections depends on the history alone (replayable);
* comparisons of every pool entry with 0, 1, True, False (`==`, `!=`, and reflected `c == o`), with the terminal nodes
  BDDNode(0) / BDDNode(1), and of the slot written by the step with the ROOT NODE of every other entry
  (OBDD.__eq__ accepts BDDNode, OBDD, 0/1, booleans);
* hash(): if the class is hashable, OBDDs that compare equal must hash equal and find one another in a set (the unchanged
  class defines __eq__ only and is unhashable: the observer then records 'TypeError' for every entry and checks nothing);
* the sizes of the parent sets (the sets find_isomorph scans).
"""
import sys, os, json, subprocess
import bddlib as B
from bddlib import NAMES, NASSIGN

HERE = os.path.dirname(os.path.abspath(__file__))
CONSTS = [0, 1, True, False]


# ----------------------------------------------------------------------------------------
# harness side
# ----------------------------------------------------------------------------------------
def run_library(histories, want_str=False, timeout=900):
    repo = os.environ.get('PMC_REPO', '/repo')
    env = dict(os.environ)
    env['PYTHONPATH'] = repo + os.pathsep + HERE
    env.setdefault('PYTHONHASHSEED', '0')
    env['PYTHONDONTWRITEBYTECODE'] = '1'
    job = {'want_str': want_str,
           'histories': [{'psize': h['psize'], 'gcmode': h.get('gcmode'), 'ops': [B.worker_op(o) for o in h['ops']]}
                         for h in histories]}
    p = subprocess.run([sys.executable, '-W', 'ignore', os.path.join(HERE, 'c16_streams.py'), '--worker'],
                       input=json.dumps(job), capture_output=True, text=True, timeout=timeout, env=env)
    if p.returncode != 0:
        raise RuntimeError('library worker (c16_streams) crashed rc=%s: %s' % (p.returncode, p.stderr[-1500:]))
    return json.loads(p.stdout)


def extra_checks(h, lib, mod):
    """the observations bddlib.compare_history does not know; -> (what, step, details) or None.  Expected values come from the
    model's truth tables / == matrix (which compare_history has already checked against the oracle)."""
    psize = h['psize']
    zero, one = '0' * NASSIGN, '1' * NASSIGN
    for n, (L, M) in enumerate(zip(lib, mod)):
        if L.get('hang') or 'consts' not in L:
            return None
        bad = []
        for i in range(psize):
            t = M['tt'][i]
            if t == '-':
                continue
            # == with 0, 1, True, False: equal exactly when the function is that constant
            want = ''.join('1' if t == (one if c else zero) else '0' for c in CONSTS)
            wne = ''.join('1' if c == '0' else '0' for c in want)
            got = L['consts'][i]
            if got[0] != want:
                bad.append('pool[%d] (table %s) == 0, 1, True, False: library %s, model %s' % (i, t, got[0], want))
            if got[1] != wne:
                bad.append('pool[%d] (table %s) != 0, 1, True, False: library %s, model %s' % (i, t, got[1], wne))
            if got[2] != want:
                bad.append('0, 1, True, False == pool[%d] (table %s): library %s, model %s' % (i, t, got[2], want))
            wt = ('1' if t == zero else '0') + ('1' if t == one else '0')
            if got[3] != wt:
                bad.append('pool[%d] (table %s) == BDDNode(0), BDDNode(1): library %s, model %s' % (i, t, got[3], wt))
        # the slot written by this step against the root nodes of the entries under the same ordering
        if L.get('noderow'):
            d, row = L['noderow']
            for j in range(psize):
                e = M['eq'][d * psize + j]
                if e == '-' or L['ords'][d] != L['ords'][j]:
                    continue
                if row[j] != e or L['noderow_r'][j] != e:
                    bad.append('pool[%d] == pool[%d].root is %s, pool[%d] == pool[%d].root is %s, model (same function) %s'
                               % (d, j, row[j], j, d, L['noderow_r'][j], e))
        # hash: only if the class is hashable at all
        hs = L['hashes']
        for i in range(psize):
            for j in range(i + 1, psize):
                if L['eq'][i * psize + j] == '1' and isinstance(hs[i], int) and isinstance(hs[j], int) and hs[i] != hs[j]:
                    bad.append('pool[%d] == pool[%d] but hash() differs (equal OBDDs are distinct members of a set)' % (i, j))
        for x in L['setfail']:
            bad.append('pool[%d] == pool[%d] but pool[%d] in {pool[%d]} is False' % (x[0], x[1], x[1], x[0]))
        if bad:
            return (bad[0], n, bad)
    return None


def compare(h, lib, mod):
    viol, info = B.compare_history(h, lib, mod)
    upto = viol[0][1] if viol else len(lib)          # later steps of a diverged history carry no information
    x = extra_checks(h, lib[:upto], mod[:upto])
    if x is not None and (not viol or x[1] < viol[0][1]):
        viol = [x]
    for s, L in zip(info, lib):
        s['par0'], s['par1'], s['parmax'] = L.get('par0', 0), L.get('par1', 0), L.get('parmax', 0)
        s['hashable'] = any(isinstance(x, int) for x in L.get('hashes', []))
    return viol, info


def run_batch(histories, want_str=False):
    lib = run_library(histories, want_str)
    mod = B.run_model(histories)
    out = []
    for h, l, m in zip(histories, lib, mod):
        v, info = compare(h, l, m)
        out.append((v, info, None))
    return out


def with_gcmode(h):
    if h.get('gcmode') is None and h.get('at_u') is not None:
        return dict(h, gcmode={'thr': h.get('thr'), 'at_u': h['at_u']})
    return h


def run_batch_gc(histories):
    """histories with forced collections: the worker executes each history twice (see pick_points in the worker): a counting pass,
    then the observed pass with ONE forced collection per step at the drawn place (h['at_u'][n] in [0,1) is the harness's draw,
    negative = no collection in that step) and, if h['thr'], the automatic collector switched on with these thresholds.
    -> [(history with the explicit collection points, violations, info)]"""
    hs = [with_gcmode(h) for h in histories]
    lib = run_library(hs)
    mod = B.run_model(hs)
    out = []
    for h, l, m in zip(hs, lib, mod):
        at = l[-1].get('at') if l and isinstance(l[-1], dict) else None
        if at is not None:
            h = dict(h, gcmode={'thr': h['gcmode'].get('thr'), 'at': at})
        v, info = compare(h, l, m)
        out.append((h, v, info))
    return out


def gen_churn(rng, maxlen, psize=7):
    """build / drop-into-a-cycle / operate: ~40% of the steps park an OBDD in an unreachable cycle, and the first operation
    after such drops gets a forced collection somewhere inside it (at_u >= 0): dead nodes are in the parent sets when it starts"""
    vs = rng.sample(range(4), rng.choice([3, 4, 4]))
    O = list(vs)
    rng.shuffle(O)
    n = rng.randint(max(6, maxlen // 2), maxlen)
    filled = set()
    ops, at_u = [], []
    pending = False
    while len(ops) < n:
        r = rng.random()
        k = rng.randrange(psize)
        fl = sorted(filled)
        if len(fl) < 3 or (len(fl) < 5 and not pending and r < 0.5):
            r = 0.0
        if r < 0.25:
            e = B.rand_expr(rng, rng.randint(1, 3), O, p_kw=0.2, p_const=0.04)
            ops.append(B.mk_parse(k, O, e, lam=False))
        elif r < 0.40:
            ops.append([rng.choice(['and', 'or', 'xor']), rng.choice(fl), rng.choice(fl), k])
        elif r < 0.46:
            ops.append(['not', rng.choice(fl), k])
        elif r < 0.52:
            ops.append(['restrict', rng.choice(fl), rng.choice(O), rng.choice([True, False]), k])
        elif r < 0.97:
            i = rng.choice(fl)
            ops.append(['drop', i, 'cycle'])
            filled.discard(i)
        else:
            ops.append(['gc'])
        if ops[-1][0] == 'drop':
            pending = True
            at_u.append(-1.0)
        elif ops[-1][0] == 'gc':
            pending = False
            at_u.append(-1.0)
        else:
            filled.add(k)
            at_u.append(rng.random() if pending and rng.random() < 0.9 else -1.0)
            pending = pending and at_u[-1] < 0
    ops.append(['gc'])
    at_u.append(-1.0)
    thr = [rng.choice([1, 2, 3, 5, 7, 11, 17, 29, 53, 101, 211]), rng.choice([1, 2, 3]), rng.choice([1, 2, 3])] if rng.random() < 0.3 else None
    return {'psize': psize, 'ops': ops, 'stream': 'gc', 'thr': thr, 'at_u': at_u}


def gen_crowd(rng, psize=48, tail=24):
    """a CROWDED unique table: every slot of a big pool is loaded with x & g, x | g, ~x & g, ~x | g or g (x a variable, g a random
    expression over the others) - roots with a terminal child, so that the parent sets of the two terminals (the sets a lookup
    scans) grow far beyond what a 6-slot pool can hold - under one ordering (a fifth of the slots under a second one); then
    single variables, literals and small expressions are parsed and combined while the crowd is alive"""
    O = list(range(4))
    rng.shuffle(O)
    O2 = list(O)
    rng.shuffle(O2)
    ops = []
    slot_ord = [None] * psize
    order = list(range(psize))
    rng.shuffle(order)
    for k in order:
        oo = O2 if rng.random() < 0.2 else O
        x = oo[0] if rng.random() < 0.8 else rng.choice(oo)       # mostly the top variable: the root has a terminal child
        rest = [v for v in oo if v != x]
        g = B.rand_expr(rng, rng.randint(2, 3), rest, p_kw=0.2, p_const=0.0)
        lit = ('v', x) if rng.random() < 0.75 else ('not', ('v', x), False)
        form = rng.randrange(9)
        e = ('and', lit, g) if form < 4 else ('or', lit, g) if form < 8 else g
        if rng.random() < 0.5 and e[0] in ('and', 'or'):
            e = (e[0], e[2], e[1])
        ops.append(B.mk_parse(k, oo, e))
        slot_ord[k] = tuple(oo)
    for _ in range(tail):
        r = rng.random()
        k = rng.randrange(psize)
        filled = [i for i in range(psize) if slot_ord[i] is not None]
        if r < 0.45:
            oo = O2 if rng.random() < 0.2 else O
            e = B.rand_expr(rng, rng.choice([0, 0, 0, 1, 1, 2]), oo, p_kw=0.2, p_const=0.02)
            ops.append(B.mk_parse(k, oo, e, lam=rng.random() < 0.15))
            slot_ord[k] = tuple(oo)
        elif r < 0.65:
            i = rng.choice(filled)
            same = [j for j in filled if slot_ord[j] == slot_ord[i]]
            ops.append([rng.choice(['and', 'or', 'xor']), i, rng.choice(same), k])
            slot_ord[k] = slot_ord[i]
        elif r < 0.73:
            i = rng.choice(filled)
            ops.append(['not', i, k])
            slot_ord[k] = slot_ord[i]
        elif r < 0.85:
            i = rng.choice(filled)
            ops.append(['restrict', i, rng.choice(slot_ord[i]), rng.choice([True, False]), k])
            slot_ord[k] = slot_ord[i]
        elif r < 0.95:
            i = rng.choice(filled)
            ops.append(['drop', i, rng.choice(['del', 'cycle'])])
            slot_ord[i] = None
        else:
            ops.append(['gc'])
    ops.append(['gc'])
    return {'psize': psize, 'ops': ops, 'stream': 'crowd'}


def keep_keys(h, hh):
    hh = dict(hh)
    for k in ('gcmode', 'stream'):
        if h.get(k) is not None:
            hh[k] = h[k]
    return hh


def report_violation(R, pid, h, v):
    what, step, details = v
    if len(R.violations) >= 12:
        R.count('further_violations_not_written', 1)
        return
    hh = keep_keys(h, {'psize': h['psize'], 'ops': h['ops'][:step + 1]})
    if not run_batch([hh])[0][0]:
        hh = keep_keys(h, {'psize': h['psize'], 'ops': h['ops']})     # the phase of the collector needs the whole history
    elif len(R.violations) < 2 and len(hh['ops']) > 1:
        try:
            hh = keep_keys(h, B.shrink_history(hh, lambda c: bool(run_batch([keep_keys(h, c)])[0][0]), budget=40))
        except Exception:
            pass
    data = {'psize': hh['psize'], 'ops': hh['ops'], 'program': [B.op_text(o) for o in hh['ops']],
            'first_difference': details, 'original_length': step + 1, 'stream': h.get('stream', 'extra'),
            'gcmode': h.get('gcmode')}
    R.violation('%s: %s' % (pid, what), data)


def replay_history(R, data):
    d = data['data']
    h = {'psize': d['psize'], 'ops': B.norm_ops(d['ops']), 'gcmode': d.get('gcmode'), 'stream': d.get('stream')}
    lib = run_library([h], want_str=True)[0]
    mod = B.run_model([h])[0]
    if h['gcmode'] and h['gcmode'].get('thr'):
        print('automatic collector ON during the operations, gc.set_threshold(%s)' % ', '.join(str(x) for x in h['gcmode']['thr']))
    if h['gcmode'] and h['gcmode'].get('at'):
        print('a forced gc.collect() in step n when function f of the library executes its k-th line, [f, k] = %s' % h['gcmode']['at'])
    for n, op in enumerate(h['ops']):
        print('step %d: %s' % (n, B.op_text(op)))
        print('  library:', json.dumps(lib[n]))
        print('  model  :', json.dumps(mod[n]))
    v, _ = compare(h, lib, mod)
    for x in v:
        print('DIFFERENCE at step %d: %s' % (x[1], x[2]))
        R.violation('replayed: ' + x[0], d)
    return v


# ========================================================================================
# the worker (fresh interpreter, imports the library under test)
# ========================================================================================
def worker_main():
    import gc, signal
    gc.disable()

    def on_alarm(signum, frame):
        raise B.StepTimeout()
    signal.signal(signal.SIGALRM, on_alarm)

    def safe(fn):
        try:
            return fn()
        except Exception as e:
            return 'EXC:' + type(e).__name__
    job = json.load(sys.stdin)
    from pyModelChecking.BDD import OBDD, BDDNode
    from pyModelChecking.BDD.BDD import BDDTerminalNode, BDDNonTerminalNode
    want_str = job.get('want_str')
    varnum = {c: i for i, c in enumerate(NAMES)}
    gc.collect()
    gc.freeze()

    def is_term(n):
        return isinstance(n, BDDTerminalNode)

    def evaluate(node, m):
        while not is_term(node):
            node = node.high if (m >> varnum.get(node.var, 63)) & 1 else node.low
        return '1' if node.value else '0'

    def walk_up():
        seen = {}
        stack = [BDDNode(0), BDDNode(1)]
        while stack:
            n = stack.pop()
            if id(n) in seen:
                continue
            seen[id(n)] = n
            stack.extend(list(n.f_low))
            stack.extend(list(n.f_high))
        return seen

    def walk_down(root):
        seen = {}
        stack = [root]
        while stack:
            n = stack.pop()
            if id(n) in seen:
                continue
            seen[id(n)] = n
            if not is_term(n):
                stack.append(n.low)
                stack.append(n.high)
        return seen

    def tf(r):
        return '1' if r is True else '0' if r is False else '?'

    def observe(pool, status, with_api, dst, memo=None, touched=None):
        psize = len(pool)
        obs = {'status': status}
        obs['tt'] = ['-' if o is None else ''.join(evaluate(o.root, m) for m in range(NASSIGN)) for o in pool]
        # big pools (memo is a dict): the three matrices are recomputed for the rows and columns of the slot the step touched
        # only, and in full at every gc step (touched None); the other pairs are pairs of unchanged objects asked before
        if memo is not None and touched is not None and memo.get('eq') is not None:
            eq, ne, same = memo['eq'], memo['ne'], memo['same']
            pairs = [(touched, j) for j in range(psize)] + [(i, touched) for i in range(psize) if i != touched]
        else:
            eq, ne, same = ['-'] * (psize * psize), ['-'] * (psize * psize), ['-'] * (psize * psize)
            pairs = [(i, j) for i in range(psize) for j in range(psize)]
        for i, j in pairs:
            a, b = pool[i], pool[j]
            x = i * psize + j
            if a is None or b is None:
                eq[x] = ne[x] = same[x] = '-'
            else:
                eq[x] = tf(safe(lambda: a == b))
                ne[x] = tf(safe(lambda: a != b))
                same[x] = '1' if a.root is b.root else '0'
        if memo is not None:
            memo['eq'], memo['ne'], memo['same'] = eq, ne, same
        obs['eq'] = ''.join(eq)
        obs['ne'] = ''.join(ne)
        obs['same'] = ''.join(same)
        # --- OBDD against 0 / 1 / True / False / the terminal nodes
        consts = []
        t0, t1 = BDDNode(0), BDDNode(1)
        for o in pool:
            if o is None:
                consts.append('-')
                continue
            consts.append([''.join(tf(safe(lambda: o == c)) for c in CONSTS),
                           ''.join(tf(safe(lambda: o != c)) for c in CONSTS),
                           ''.join(tf(safe(lambda: c == o)) for c in CONSTS),
                           tf(safe(lambda: o == t0)) + tf(safe(lambda: o == t1))])
        obs['consts'] = consts
        # --- the written slot against the root NODES of the others (both directions)
        obs['noderow'] = None
        if dst is not None and pool[dst] is not None:
            a = pool[dst]
            row, rrow = [], []
            for b in pool:
                if b is None:
                    row.append('-'); rrow.append('-')
                else:
                    row.append(tf(safe(lambda: a == b.root)))
                    rrow.append(tf(safe(lambda: b == a.root)))
            obs['noderow'] = [dst, ''.join(row)]
            obs['noderow_r'] = ''.join(rrow)
        # --- hash (the unchanged class is unhashable: 'EXC:TypeError' everywhere)
        hs = ['-' if o is None else safe(lambda: hash(o)) for o in pool]
        obs['hashes'] = hs
        setfail = []
        if any(isinstance(x, int) for x in hs):
            for i in range(psize):
                for j in range(psize):
                    if i != j and eq[i * psize + j] == '1' and isinstance(hs[i], int) and isinstance(hs[j], int):
                        if safe(lambda: pool[j] in {pool[i]}) is not True or safe(lambda: {pool[i]: 1}.get(pool[j])) != 1:
                            setfail.append([i, j])
        obs['setfail'] = setfail[:4]

        def variables_of(o):
            vs = o.variables()
            out = sorted(str(v) for v in vs)
            vs.clear()
            vs.add('zz_callers_own')
            return out
        obs['vars'] = ['-' if o is None else safe(lambda: variables_of(o)) for o in pool]
        obs['ords'] = ['-' if o is None else safe(lambda: list(o.ordering.get_list())) for o in pool]
        up = walk_up()
        nonterm = [n for n in up.values() if not is_term(n)]
        obs['live'] = len(nonterm)
        obs['par0'], obs['par1'] = len(t0.f_low), len(t1.f_high)
        obs['parmax'] = max([len(n.f_low) for n in up.values()] + [len(n.f_high) for n in up.values()])
        if with_api:
            api = safe(lambda: BDDNode.nodes())
            if isinstance(api, str):
                obs['live_api'], obs['api_same'] = api, False
            else:
                obs['live_api'] = sum(1 for n in api if not is_term(n))
                obs['api_same'] = set(id(n) for n in api) == set(up)
            del api
        trip = {}
        dups = []
        for n in nonterm:
            key = (n.var, id(n.low), id(n.high))
            if key in trip:
                dups.append('%s ? %s : %s' % (n.var, n.high, n.low))
            trip[key] = n
        obs['dups'] = dups
        lost = 0
        shapes = []
        for o in pool:
            if o is None:
                shapes.append('-')
                continue
            olist = safe(lambda: list(o.ordering.get_list()))
            order = {v: i for i, v in enumerate(olist)} if isinstance(olist, list) else {}
            down = walk_down(o.root)
            ordered, reduced, internal = 1, 1, 0
            for n in down.values():
                if is_term(n):
                    continue
                internal += 1
                if id(n) not in up or n not in n.low.f_low or n not in n.high.f_high:
                    lost += 1
                if n.low is n.high:
                    reduced = 0
                if n.var not in order:
                    ordered = 0
                for c in (n.low, n.high):
                    if not is_term(c) and not (c.var in order and n.var in order and order[n.var] < order[c.var]):
                        ordered = 0
            shapes.append([internal, ordered, reduced])
            del down
        obs['lost'] = lost
        obs['shape'] = shapes
        if want_str:
            obs['strs'] = ['-' if o is None else [safe(lambda: str(o.root)), safe(lambda: str(o))] for o in pool]
        for o in pool:
            if o is not None:
                safe(lambda: o.ordering.get_list().reverse())
        del up, nonterm, trip
        return obs

    def execute(pool, op):
        k = op[0]
        src = {'and': (1, 2), 'or': (1, 2), 'xor': (1, 2), 'not': (1,), 'restrict': (1,), 'reparse': (1,), 'alias': (1,)}.get(k, ())
        for s in src:
            if pool[op[s]] is None:
                return 'HARNESS:empty slot %d' % op[s]
        try:
            if k == 'parse':
                lst = list(op[2])
                if op[3] in lst and op[1] % 2 == 0:
                    pool[op[1]] = OBDD(BDDNode(''.join(list(op[3])), BDDNode(0), BDDNode(1)), lst)
                else:
                    pool[op[1]] = OBDD(op[3], lst)
                lst.reverse()
                lst.append('zz_callers_own')
                del lst[:1]
            elif k == 'lambda':
                pool[op[1]] = OBDD(op[2])
            elif k == 'node':
                def build(spec):
                    if not isinstance(spec, list):
                        return BDDNode(spec)
                    low, high = build(spec[1]), build(spec[2])
                    return BDDNode(''.join(list(spec[0])), low, high)
                lst = list(op[2])
                pool[op[1]] = OBDD(build(op[3]), lst)
                lst.reverse()
                lst.append('zz_callers_own')
            elif k == 'alias':
                pool[op[2]] = pool[op[1]]
            elif k in ('and', 'or', 'xor') and len(op) > 4:
                acc = pool[op[1]]
                if k == 'and':
                    acc &= pool[op[2]]
                elif k == 'or':
                    acc |= pool[op[2]]
                else:
                    acc ^= pool[op[2]]
                pool[op[3]] = acc
                del acc
            elif k == 'and':
                pool[op[3]] = pool[op[1]] & pool[op[2]]
            elif k == 'or':
                pool[op[3]] = pool[op[1]] | pool[op[2]]
            elif k == 'xor':
                pool[op[3]] = pool[op[1]] ^ pool[op[2]]
            elif k == 'not':
                pool[op[2]] = ~pool[op[1]]
            elif k == 'restrict':
                pool[op[4]] = pool[op[1]].restrict(op[2], op[3])
            elif k == 'reparse':
                o = pool[op[1]]
                if op[3] == 'root':
                    pool[op[2]] = OBDD(str(o.root), o.ordering)
                else:
                    pool[op[2]] = OBDD(str(o))
                del o
            elif k == 'drop':
                o = pool[op[1]]
                pool[op[1]] = None
                if op[2] == 'cycle' and o is not None:
                    cell = [o]
                    cell.append(cell)
                    del cell
                del o
            elif k == 'gc':
                gc.collect()
            else:
                return 'HARNESS:unknown op %r' % (op,)
            return 'ok'
        except Exception as e:
            if isinstance(e, SyntaxError):
                return 'SyntaxError'
            return type(e).__name__

    # forced collections: a collection at the k-th LINE of library BDD code executed by the step (any bytecode boundary is a
    # place where the interpreter may start a collection: eval-breaker checks, another thread's allocations, finalizers)
    import pyModelChecking.BDD as _pkg
    libdir = os.path.dirname(os.path.abspath(_pkg.__file__))
    tr_state = [{}, None, -1]           # lines executed so far per function, target function, target line count

    def ltrace(frame, event, arg):
        if event == 'line':
            name = frame.f_code.co_name
            c = tr_state[0].get(name, 0) + 1
            tr_state[0][name] = c
            if c == tr_state[2] and name == tr_state[1]:
                gc.collect()
        return ltrace

    touching = set()
    STATE = {'f_low', 'f_high', 'Tnodes', 'data'}

    def gtrace(frame, event, arg):
        co = frame.f_code
        if co.co_filename.startswith(libdir):
            if STATE & set(co.co_names):
                touching.add(co.co_name)
            return ltrace
        return None

    DST = {'parse': 1, 'lambda': 1, 'node': 1, 'alias': 2, 'and': 3, 'or': 3, 'xor': 3, 'not': 2, 'restrict': 4, 'reparse': 2}

    def pick_points(h, at_u):
        """counting pass: the history is executed once without observers and without collections inside the steps; the tracer
        tells which functions of the library every step executes, for how many lines, and which of them touch the unique table
        (their code names f_low / f_high / Tnodes / data).  A step's collection point [function, k-th line]: two thirds of the draws go
        to the functions that touch the table, one third to all functions (uniformly over FUNCTIONS, so that a short lookup loop
        weighs as much as the parser), then uniformly over the lines the function executes in the step."""
        pool = [None] * h['psize']
        at = []
        for n, op in enumerate(h['ops']):
            u = at_u[n] if n < len(at_u) else -1
            tr_state[0], tr_state[1], tr_state[2] = {}, None, -1
            if u >= 0:
                sys.settrace(gtrace)
            try:
                execute(pool, op)
            finally:
                sys.settrace(None)
            cnt = tr_state[0]
            fs = sorted(cnt)
            if u < 0 or not fs:
                at.append(None)
                continue
            hot = [f for f in fs if f in touching]
            u *= 3
            if u >= 2:
                u -= 2
            else:
                u /= 2
                if hot:
                    fs = hot
            f = fs[int(u * len(fs))]
            u2 = u * len(fs) - int(u * len(fs))
            at.append([f, 1 + int(u2 * cnt[f])])
        for i in range(len(pool)):
            pool[i] = None
        gc.collect()
        return at

    results = []
    for h in job['histories']:
        gcmode = h.get('gcmode') or {}
        at = gcmode.get('at')
        gc.collect()
        if at is None and gcmode.get('at_u') is not None:
            try:
                signal.alarm(B.STEP_TIMEOUT)
                at = pick_points(h, gcmode['at_u'])
            except B.StepTimeout:
                at = []
            finally:
                signal.alarm(0)
        pool = [None] * h['psize']
        steps = []
        hung = False
        memo = {} if h['psize'] > 12 else None
        gc.collect()                      # allocation counters at zero: the collector's phase is a function of this history
        for n, op in enumerate(h['ops']):
            if hung:
                steps.append({'hang': True})
                continue
            try:
                signal.alarm(B.STEP_TIMEOUT)
                if at is not None and n < len(at) and at[n]:
                    tr_state[0] = {}
                    tr_state[1], tr_state[2] = at[n]
                    sys.settrace(gtrace)
                if gcmode.get('thr'):
                    gc.set_threshold(*gcmode['thr'])
                    gc.enable()
                try:
                    st = execute(pool, op)
                finally:
                    gc.disable()
                    sys.settrace(None)
                dst = DST.get(op[0]) and op[DST[op[0]]]
                obs = observe(pool, st, op[0] == 'gc' or n % 3 == 0, dst, memo,
                              op[1] if op[0] == 'drop' else dst)
                signal.alarm(0)
            except B.StepTimeout:
                hung = True
                steps.append({'hang': True})
                continue
            finally:
                signal.alarm(0)
            if st.startswith('HARNESS:'):
                obs['harness_bug'] = st
            steps.append(obs)
        if hung:
            pool = [None] * h['psize']
            results.append(json.dumps(steps))
            continue
        for i in range(len(pool)):
            pool[i] = None
        gc.collect()
        left = sum(1 for n in walk_up().values() if not is_term(n))
        if steps:
            steps[-1]['left_after_release'] = left
            steps[-1]['at'] = at
        results.append(json.dumps(steps))
        del steps
    sys.stdout.write('[' + ','.join(results) + ']')


if __name__ == '__main__':
    if len(sys.argv) > 1 and sys.argv[1] == '--worker':
        worker_main()
