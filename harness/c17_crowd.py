"""c17_crowd.py - C17 stream "crowded unique table".

The histories of bddlib.py keep at most a handful of diagrams over <= 4 variables alive, so no parent set (the library's unique
table: the weak sets f_low / f_high of a node's children) ever holds more than a few nodes.  Here the SAME history language is
executed while a CROWD of other diagrams is alive: the ordering handed to the library is the focus ordering (variables of
bddlib.NAMES) extended by K crowd variables 'x0'..'x<K-1>' (before / after / between the focus variables), and a list of crowd
diagrams (literals, negated literals, two-variable connectives over crowd variables) is built first and kept until the history
is over.  Crowd diagrams hang below the two terminals, whose parent sets therefore hold tens to hundreds of nodes while the
focus operations run.  The model runs the focus history alone (crowd variables never occur in a focus diagram, so the restriction
of the ordering to the focus variables is the model's ordering); the comparison is bddlib.compare_history, unchanged, with

* live node counts taken relative to the crowd (crowd nodes test crowd variables only: they are never shared with a focus node),
* get_list() split into its focus part (compared as usual) and its crowd part (must be the crowd variables in their order),
* at the end of the history every crowd diagram is built once more: it must be the very diagram that is kept (same root, ==),
  and after releasing the crowd the unique table must be empty.

The worker is a copy of bddlib's worker (its functions are local to worker_main there and cannot be imported) plus the crowd.
"""
import sys, os, json, subprocess
import bddlib as B

HERE = os.path.dirname(os.path.abspath(__file__))
LAYOUTS = ('before', 'after', 'between')
CROWD_KINDS = ('literals', 'negated', 'both', 'mixed')


def crowd_names(k):
    return ['x%d' % i for i in range(k)]


def crowd_texts(kind, k, rng):
    """the diagrams that are kept alive: texts over the crowd variables"""
    xs = crowd_names(k)
    out = []
    for i, x in enumerate(xs):
        if kind == 'literals':
            out.append(x)
        elif kind == 'negated':
            out.append('~' + x)
        elif kind == 'both':
            out.append(x if i % 2 == 0 else '~' + x)
        else:
            y = xs[rng.randrange(k)]
            out.append(rng.choice(['{0}', '~{0}', '{0} & {1}', '{0} | {1}', '~{0} & {1}', '{0} | ~{1}', '{0} & ~{1} | ~{0} & {1}']).format(x, y))
    return out


def full_order(O, crowd):
    """names of the ordering handed to the library for the focus ordering O (variable numbers)"""
    names, layout = crowd_names(crowd['k']), crowd['layout']
    focus = [B.NAMES[v] for v in O]
    if layout == 'before':
        return names + focus
    if layout == 'after':
        return focus + names
    n = len(focus) + 1
    cut = [len(names) * i // n for i in range(n + 1)]
    out = []
    for i in range(n):
        out += names[cut[i]:cut[i + 1]]
        if i < len(focus):
            out.append(focus[i])
    return out


def worker_op(op, crowd):
    k = op[0]
    if k == 'parse':
        return ['parse', op[1], full_order(op[2], crowd), op[4]]
    if k == 'node':
        return ['node', op[1], full_order(op[2], crowd), B.spec_names(op[4])]
    if k in ('lambda', 'reparse'):
        raise ValueError('not part of the crowd stream: %r' % (op,))
    return B.worker_op(op)


def run_library(histories, want_str=False, timeout=900):
    repo = os.environ.get('PMC_REPO', '/repo')
    env = dict(os.environ)
    env['PYTHONPATH'] = repo
    env.setdefault('PYTHONHASHSEED', '0')
    env['PYTHONDONTWRITEBYTECODE'] = '1'
    job = {'want_str': want_str,
           'histories': [{'psize': h['psize'], 'ops': [worker_op(o, h['crowd']) for o in h['ops']],
                          'crowd': {'names': crowd_names(h['crowd']['k']), 'texts': h['crowd']['texts']}} for h in histories]}
    p = subprocess.run([sys.executable, '-W', 'ignore', os.path.join(HERE, 'c17_crowd.py'), '--worker'],
                       input=json.dumps(job), capture_output=True, text=True, timeout=timeout, env=env)
    if p.returncode != 0:
        raise RuntimeError('crowd worker crashed rc=%s: %s' % (p.returncode, p.stderr[-1500:]))
    return json.loads(p.stdout)


def compare(h, lib, mod):
    viol, info = B.compare_history({'psize': h['psize'], 'ops': h['ops']}, lib, mod)
    if not viol and lib and not lib[-1].get('hang'):
        end = lib[-1]
        if end.get('crowd_changed'):
            viol.append(('%d crowd diagram(s), built once more at the end of the history, are not the diagram that was kept alive '
                         '(another root / not ==): %s' % (len(end['crowd_changed']), end['crowd_changed'][:3]), len(h['ops']) - 1,
                         ['crowd rebuilt: %s' % end['crowd_changed'][:6]]))
        elif end.get('left_after_crowd'):
            viol.append(('%d non-terminal node(s) stay alive after the crowd was released and collected' % end['left_after_crowd'],
                         len(h['ops']) - 1, ['left after the crowd: %d' % end['left_after_crowd']]))
    return viol, info


def run_batch(histories, want_str=False):
    lib = run_library(histories, want_str)
    mod = B.run_model([{'psize': h['psize'], 'ops': h['ops']} for h in histories])
    out = []
    for h, l, m in zip(histories, lib, mod):
        v, info = compare(h, l, m)
        out.append((v, info, [s.get('strs') for s in l] if want_str else None))
    return out


def report_violation(R, pid, h, v, extra=None):
    what, step, details = v
    if len(R.violations) >= 12:
        R.count('further_violations_not_written', 1)
        return
    hh = {'psize': h['psize'], 'ops': h['ops'][:step + 1]}
    if len(R.violations) < 2 and len(hh['ops']) > 1:
        try:
            hh = B.shrink_history(hh, lambda c: bool(run_batch([dict(c, crowd=h['crowd'])])[0][0]), budget=24)
        except Exception:
            pass
    c = h['crowd']
    data = {'psize': hh['psize'], 'ops': hh['ops'], 'crowd': c,
            'program': ['keep = [OBDD(t, ordering) for t in <%d texts over x0..x%d: %s ...>]   # ordering: the focus ordering with x0..x%d %s '
                        'the focus variables' % (len(c['texts']), c['k'] - 1, ', '.join(repr(t) for t in c['texts'][:4]), c['k'] - 1, c['layout'])]
            + [B.op_text(o) for o in hh['ops']],
            'first_difference': details, 'original_length': step + 1}
    if extra:
        data.update(extra)
    R.violation('%s (crowded unique table): %s' % (pid, what), data)


def replay(R, data):
    d = data['data']
    h = {'psize': d['psize'], 'ops': B.norm_ops(d['ops']), 'crowd': d['crowd']}
    lib = run_library([h], want_str=True)[0]
    mod = B.run_model([{'psize': h['psize'], 'ops': h['ops']}])[0]
    c = h['crowd']
    print('crowd: %d diagrams over x0..x%d kept alive (%s ...), crowd variables %s the focus variables'
          % (len(c['texts']), c['k'] - 1, ', '.join(c['texts'][:6]), c['layout']))
    for n, op in enumerate(h['ops']):
        print('step %d: %s' % (n, B.op_text(op)))
        print('  library:', json.dumps(lib[n]))
        print('  model  :', json.dumps(mod[n]))
    v, _ = compare(h, lib, mod)
    for x in v:
        print('DIFFERENCE at step %d: %s' % (x[1], x[2]))
        R.violation('replayed: ' + x[0], d)
    return v


# ========================================================================================
# the worker (fresh interpreter, imports the library under test)
# ========================================================================================
def worker_main():
    import gc, signal
    gc.disable()
    NAMES, NASSIGN, STEP_TIMEOUT, StepTimeout = B.NAMES, B.NASSIGN, B.STEP_TIMEOUT, B.StepTimeout

    def on_alarm(signum, frame):
        raise StepTimeout()
    signal.signal(signal.SIGALRM, on_alarm)

    def safe(fn):
        try:
            return fn()
        except Exception as e:
            return 'EXC:' + type(e).__name__
    job = json.load(sys.stdin)
    from pyModelChecking.BDD import OBDD, BDDNode
    from pyModelChecking.BDD.BDD import BDDTerminalNode
    want_str = job.get('want_str')
    varnum = {c: i for i, c in enumerate(NAMES)}
    gc.collect()
    gc.freeze()

    def is_term(n):
        return isinstance(n, BDDTerminalNode)

    def evaluate(node, m):
        while not is_term(node):
            node = node.high if (m >> varnum.get(node.var, 63)) & 1 else node.low
        return '1' if node.value else '0'

    def walk_up():
        seen = {}
        stack = [BDDNode(0), BDDNode(1)]
        while stack:
            n = stack.pop()
            if id(n) in seen:
                continue
            seen[id(n)] = n
            stack.extend(list(n.f_low))
            stack.extend(list(n.f_high))
        return seen

    def walk_down(root):
        seen = {}
        stack = [root]
        while stack:
            n = stack.pop()
            if id(n) in seen:
                continue
            seen[id(n)] = n
            if not is_term(n):
                stack.append(n.low)
                stack.append(n.high)
        return seen

    def observe(pool, status, with_api, base, cnames):
        psize = len(pool)
        cset = set(cnames)
        obs = {'status': status}
        obs['tt'] = ['-' if o is None else ''.join(evaluate(o.root, m) for m in range(NASSIGN)) for o in pool]
        eq, ne, same = [], [], []
        for i in range(psize):
            for j in range(psize):
                a, b = pool[i], pool[j]
                if a is None or b is None:
                    eq.append('-'); ne.append('-'); same.append('-')
                else:
                    r = safe(lambda: a == b)
                    eq.append('1' if r is True else '0' if r is False else '?')
                    r = safe(lambda: a != b)
                    ne.append('1' if r is True else '0' if r is False else '?')
                    same.append('1' if a.root is b.root else '0')
        obs['eq'] = ''.join(eq)
        obs['ne'] = ''.join(ne)
        obs['same'] = ''.join(same)

        def variables_of(o):
            vs = o.variables()
            out = sorted(str(v) for v in vs)
            vs.clear()
            vs.add('zz_callers_own')
            return out
        obs['vars'] = ['-' if o is None else safe(lambda: variables_of(o)) for o in pool]

        def ordering_of(o):
            lst = list(o.ordering.get_list())
            if [x for x in lst if x in cset] != cnames:
                return 'crowd variables out of order: %s' % lst[:12]
            return [x for x in lst if x not in cset]
        obs['ords'] = ['-' if o is None else safe(lambda: ordering_of(o)) for o in pool]
        up = walk_up()
        nonterm = [n for n in up.values() if not is_term(n)]
        obs['live'] = len(nonterm) - base
        if with_api:
            api = safe(lambda: BDDNode.nodes())
            if isinstance(api, str):
                obs['live_api'], obs['api_same'] = api, False
            else:
                obs['live_api'] = sum(1 for n in api if not is_term(n)) - base
                obs['api_same'] = set(id(n) for n in api) == set(up)
            del api
        trip = {}
        dups = []
        for n in nonterm:
            key = (n.var, id(n.low), id(n.high))
            if key in trip:
                dups.append('%s ? %s : %s' % (n.var, n.high, n.low))
            trip[key] = n
        obs['dups'] = dups
        lost = 0
        shapes = []
        for o in pool:
            if o is None:
                shapes.append('-')
                continue
            olist = safe(lambda: list(o.ordering.get_list()))
            order = {v: i for i, v in enumerate(olist)} if isinstance(olist, list) else {}
            down = walk_down(o.root)
            ordered, reduced, internal = 1, 1, 0
            for n in down.values():
                if is_term(n):
                    continue
                internal += 1
                if id(n) not in up or n not in n.low.f_low or n not in n.high.f_high:
                    lost += 1
                if n.low is n.high:
                    reduced = 0
                if n.var not in order:
                    ordered = 0
                for c in (n.low, n.high):
                    if not is_term(c) and not (c.var in order and n.var in order and order[n.var] < order[c.var]):
                        ordered = 0
            shapes.append([internal, ordered, reduced])
            del down
        obs['lost'] = lost
        obs['shape'] = shapes
        obs['parents_of_terminals'] = [len(BDDNode(0).f_low), len(BDDNode(0).f_high), len(BDDNode(1).f_low), len(BDDNode(1).f_high)]
        if want_str:
            obs['strs'] = ['-' if o is None else [safe(lambda: str(o.root)), safe(lambda: str(o))] for o in pool]
        for o in pool:
            if o is not None:
                safe(lambda: o.ordering.get_list().reverse())
        del up, nonterm, trip
        return obs

    def execute(pool, op):
        k = op[0]
        src = {'and': (1, 2), 'or': (1, 2), 'xor': (1, 2), 'not': (1,), 'restrict': (1,), 'alias': (1,)}.get(k, ())
        for s in src:
            if pool[op[s]] is None:
                return 'HARNESS:empty slot %d' % op[s]
        try:
            if k == 'parse':
                lst = list(op[2])
                if op[3] in lst and op[1] % 2 == 0:
                    pool[op[1]] = OBDD(BDDNode(''.join(list(op[3])), BDDNode(0), BDDNode(1)), lst)
                else:
                    pool[op[1]] = OBDD(op[3], lst)
                lst.reverse()
                lst.append('zz_callers_own')
                del lst[:1]
            elif k == 'node':
                def build(spec):
                    if not isinstance(spec, list):
                        return BDDNode(spec)
                    low, high = build(spec[1]), build(spec[2])
                    return BDDNode(''.join(list(spec[0])), low, high)
                lst = list(op[2])
                pool[op[1]] = OBDD(build(op[3]), lst)
                lst.reverse()
                lst.append('zz_callers_own')
            elif k == 'alias':
                pool[op[2]] = pool[op[1]]
            elif k in ('and', 'or', 'xor') and len(op) > 4:
                acc = pool[op[1]]
                if k == 'and':
                    acc &= pool[op[2]]
                elif k == 'or':
                    acc |= pool[op[2]]
                else:
                    acc ^= pool[op[2]]
                pool[op[3]] = acc
                del acc
            elif k == 'and':
                pool[op[3]] = pool[op[1]] & pool[op[2]]
            elif k == 'or':
                pool[op[3]] = pool[op[1]] | pool[op[2]]
            elif k == 'xor':
                pool[op[3]] = pool[op[1]] ^ pool[op[2]]
            elif k == 'not':
                pool[op[2]] = ~pool[op[1]]
            elif k == 'restrict':
                pool[op[4]] = pool[op[1]].restrict(op[2], op[3])
            elif k == 'drop':
                o = pool[op[1]]
                pool[op[1]] = None
                if op[2] == 'cycle' and o is not None:
                    cell = [o]
                    cell.append(cell)
                    del cell
                del o
            elif k == 'gc':
                gc.collect()
            else:
                return 'HARNESS:unknown op %r' % (op,)
            return 'ok'
        except Exception as e:
            if isinstance(e, SyntaxError):
                return 'SyntaxError'
            return type(e).__name__

    def count_live():
        return sum(1 for n in walk_up().values() if not is_term(n))

    results = []
    for h in job['histories']:
        cnames = list(h['crowd']['names'])
        # the crowd: built first, kept until the history is over
        keep = [OBDD(t, list(cnames)) for t in h['crowd']['texts']]
        base = count_live()
        pool = [None] * h['psize']
        steps = []
        hung = False
        for n, op in enumerate(h['ops']):
            if hung:
                steps.append({'hang': True})
                continue
            try:
                signal.alarm(STEP_TIMEOUT)
                st = execute(pool, op)
                obs = observe(pool, st, op[0] == 'gc' or n % 3 == 0, base, cnames)
                signal.alarm(0)
            except StepTimeout:
                hung = True
                steps.append({'hang': True})
                continue
            finally:
                signal.alarm(0)
            if st.startswith('HARNESS:'):
                obs['harness_bug'] = st
            steps.append(obs)
        if hung:
            pool = [None] * h['psize']
            keep = None
            results.append(json.dumps(steps))
            continue
        for i in range(len(pool)):
            pool[i] = None
        gc.collect()
        if steps:
            steps[-1]['left_after_release'] = count_live() - base
            # every crowd diagram once more: the very diagram that is kept
            changed = []
            for t, o in zip(h['crowd']['texts'], keep):
                r = safe(lambda: OBDD(t, list(cnames)))
                if isinstance(r, str) or r.root is not o.root or safe(lambda: r == o) is not True or safe(lambda: r != o) is not False:
                    changed.append(t)
                del r
            o = t = None
            steps[-1]['crowd_changed'] = changed
        keep = None
        gc.collect()
        if steps:
            steps[-1]['left_after_crowd'] = count_live()
        results.append(json.dumps(steps))
        del steps
    sys.stdout.write('[' + ','.join(results) + ']')


if __name__ == '__main__':
    if len(sys.argv) > 1 and sys.argv[1] == '--worker':
        worker_main()
