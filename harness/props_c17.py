"""C17 - OBDD operations compute the right function, reduced and ordered.

Theorems (Properties/C17.v): C17_apply, C17_restrict, C17_neg, C17_support, C17_guards over coq/Model/Bdd.v.
Correspondence: every pair of a %d-expression basis over a..d under several orderings, through & | ^, plus ~ and
restrict(v, b) for every (v, b) of every basis member; executed on the real classes (fresh interpreter per batch)
and on the extracted model; truth tables on all 16 assignments must equal (i) the model's and (ii) the Boolean
combination computed by plain integer arithmetic from the expression semantics; every result diagram is walked
(variable strictly earlier in the ordering than the children's, low is not high); variables() must be the true
support; combining different orderings / using a variable outside the ordering must raise RuntimeError.
Also: the SAME OBDD object as both operands (f&f, f|f, f^f, directly and through a second reference), the binary steps
spelled with augmented assignment, the answers of variables() / get_list() edited by the caller between observations,
orderings of 0, 1 and 2 variables (the two constants over the EMPTY ordering included), and the public node route
OBDD(BDDNode(...), ordering) with the reduced ordered diagram of f (must be the very OBDD of f) and with ill-formed diagrams
(defect at the root, on a root edge, and - second audit - at ANY depth of ONE branch only: a foreign variable, a variable repeated on
a path, a father/son pair against the ordering; stream "deep").  Stream "crowd" (c17_crowd.py): the same operations while tens to
hundreds of other diagrams are alive, so that the parent sets that make up the unique table are long."""
from common import *
import bddlib as B
import c17_crowd as CROWD
LEVEL = 'proof'

PAR3 = '((a & ~b | ~a & b) & ~c | ~(a & ~b | ~a & b) & c)'
PAR4 = '(%s & ~d | ~%s & d)' % (PAR3, PAR3)
BASIS = ['0', '1', 'a', 'b', 'c', 'd', '~a', '~d', 'a & b', 'a | b', 'a & ~b', '~a | b', 'c & d', 'b | d', 'a & d', '~b & ~c',
         'a & ~b | ~a & b', 'a & b | ~a & ~b', 'c & ~d | ~c & d', 'b & ~d | ~b & d', 'a & b & c', 'a | b | c', 'a & b | c',
         'a & (b | c)', '(a | b) & c', 'a & b | ~a & c', 'b & c | ~b & d', 'a & b | b & c | a & c', PAR3, 'a & b & c & d',
         'a | b | c | d', 'a & b | c & d', '(a | b) & (c | d)', 'a & c | b & d', '(a | d) & (b | c)', PAR4, '~' + PAR4,
         'a & ~c | b & ~d', 'a & b & ~c | d', '~a & ~b & ~c & ~d', 'a & (b | c & d)', 'a | b & (c | d)', 'd & (a | ~b)',
         'not a or b and not c', '(a and d) or (not a and not d)', 'a & d | ~a & c & ~b', 'b & (a | d) & ~(a & d)']
BASIS = [B.rn(t) for t in BASIS]
__doc__ = __doc__ % len(BASIS)
PSIZE = 4


# ----------------------------------------------------------------------------------------
# ill-formed diagrams with ONE defect at a chosen position of the (tree) spec of a reduced ordered diagram
# ----------------------------------------------------------------------------------------
def spec_positions(spec, pre=()):
    """positions (tuples of 1 = low / 2 = high) of the internal nodes"""
    if isinstance(spec, list):
        yield pre
        for d in (1, 2):
            for p in spec_positions(spec[d], pre + (d,)):
                yield p


def spec_at(spec, pos):
    for d in pos:
        spec = spec[d]
    return spec


def spec_put(spec, pos, new):
    if not pos:
        return new
    out = list(spec)
    out[pos[0]] = spec_put(spec[pos[0]], pos[1:], new)
    return out


def spec_ordered(spec, O, above=-1):
    """every node tests a variable of O strictly later than its father's"""
    if not isinstance(spec, list):
        return True
    if spec[0] not in O or O.index(spec[0]) <= above:
        return False
    return spec_ordered(spec[1], O, O.index(spec[0])) and spec_ordered(spec[2], O, O.index(spec[0]))


DEFECTS = ('foreign', 'repeat_father', 'repeat_ancestor', 'swap_with_son', 'earlier_variable')


def defect_specs(spec, O, rng, outsiders):
    """-> [(kind, depth of the changed node, ill-formed spec, expectation)] : every kind of defect at every position where it
    applies (the caller samples); the rest of the diagram, the other branch of every ancestor in particular, stays as it is"""
    out = []
    for pos in spec_positions(spec):
        node = spec_at(spec, pos)
        d = len(pos)
        anc = [spec_at(spec, pos[:i])[0] for i in range(d)]          # variables of the ancestors, root first
        cands = []
        if d >= 1:
            cands.append(('foreign', [rng.choice(outsiders)] + node[1:], 'inner_outside'))
            cands.append(('repeat_father', [anc[-1]] + node[1:], 'misordered'))
            earlier = [v for v in O[:O.index(anc[-1])] if v not in anc]
            if earlier:
                cands.append(('earlier_variable', [rng.choice(earlier)] + node[1:], 'misordered'))
        if d >= 2:
            cands.append(('repeat_ancestor', [rng.choice(anc[:-1])] + node[1:], 'misordered'))
        sons = [c for c in (1, 2) if isinstance(node[c], list)]
        if sons:
            c = rng.choice(sons)
            new = list(node)
            new[0] = node[c][0]
            new[c] = [node[0]] + node[c][1:]
            cands.append(('swap_with_son', new, 'misordered'))
        for kind, new, expect in cands:
            bad = spec_put(spec, pos, new)
            if not spec_ordered(bad, O):                                # by construction; a safety net of the generator
                out.append((kind, d + (1 if kind == 'swap_with_son' else 0), bad, expect))
    return out


def deep_node_ops(k, O, e, rng, want, min_depth=1):
    """`want` node steps OBDD(<ill-formed BDDNode>, O) -> p[k] for the diagram of e, preferring deep defects and distinct kinds"""
    O = list(O)
    if not O:
        return []
    spec = B.spec_of_tt(B.tt_eval(e), O)
    outs = [v for v in range(5) if v not in O] + ['zz', 'A']
    cands = [c for c in defect_specs(spec, O, rng, outs) if c[1] >= min_depth]
    rng.shuffle(cands)
    cands.sort(key=lambda c: -c[1])
    ops, seen = [], set()
    for kind, depth, bad, expect in cands:                            # deepest first, one per kind
        if len(ops) < want and kind not in seen:
            seen.add(kind)
            ops.append(['node', k, O, e, bad, expect, '%s@%d' % (kind, depth)])
    for kind, depth, bad, expect in cands:
        if len(ops) < want and (kind, depth) not in seen:
            seen.add((kind, depth))
            if not any(o[4] == bad for o in ops):
                ops.append(['node', k, O, e, bad, expect, '%s@%d' % (kind, depth)])
    return ops


def deep_history(O, e, rng):
    """stream "deep": the diagram of e through the node route, well-formed once and with every kind of single defect at several depths;
    every refusal must leave p[3] (the well-formed one) as it is, which the operations at the end use"""
    O = list(O)
    ops = [B.mk_parse(0, O, e), B.mk_node(3, O, e)]
    ops += deep_node_ops(3, O, e, rng, 9)
    ops += [['and', 0, 3, 2], ['xor', 3, 0, 2], ['not', 3, 1], ['or', 1, 3, 2], ['gc']]
    return {'psize': PSIZE, 'ops': ops, 'O': O, 'stream': 'deep'}


def crowd_history(rng, k, kind, layout, basis):
    """stream "crowd": focus operations over <= 4 variables while `k` crowd diagrams are alive (see c17_crowd.py).  The focus part
    builds every literal and its negation twice by different routes, the redundant test (z & f) | (~z & f) == f, and random
    operations between basis members"""
    O = list(range(4))
    rng.shuffle(O)
    O = O[:rng.choice([2, 3, 4, 4])]
    ops = []
    lit = lambda v: ('v', v)
    for v in O:
        # slot 0: node route BDDNode(v, 0, 1); slot 1: the parser; slot 2/3: the negation by ~ and by the parser
        ops += [B.mk_parse(0, O, lit(v)), B.mk_parse(1, O, lit(v)), ['not', 0, 2], B.mk_parse(3, O, ('not', lit(v), False)),
                ['xor', 2, 3, 2], ['not', 2, 2]]
    members = [e for e in basis if B.evars(e) <= set(O)]
    for n in range(6):
        z = rng.choice(O)
        f = rng.choice(members) if n % 2 else lit(rng.choice(O))
        # (z & f) | (~z & g), f and g two separately built diagrams of one function: must be f itself (no node testing z)
        ops += [B.mk_parse(0, O, f), B.mk_parse(1, O, B.to_kw(f) if n % 3 == 0 else f), B.mk_parse(2, O, lit(z)),
                ['and', 2, 0, 3], ['not', 2, 2], ['and', 2, 1, 2], ['or', 3, 2, 3]]
        if n % 3 == 2:
            ops.append(['gc'])
    for n in range(14):
        r = rng.random()
        i, j, dst = rng.randrange(4), rng.randrange(4), rng.randrange(4)
        if r < 0.3:
            ops.append(B.mk_parse(dst, O, rng.choice(members)))
        elif r < 0.75:
            ops.append([rng.choice(['and', 'or', 'xor']), i, j, dst] + (['aug'] if rng.random() < 0.2 else []))
        elif r < 0.85:
            ops.append(['not', i, dst])
        elif r < 0.95:
            ops.append(['restrict', i, rng.choice(O), rng.choice([True, False, 0, 1]), dst])
        else:
            ops.append(B.mk_node(dst, O, rng.choice(members)))
    ops.append(['gc'])
    return {'psize': PSIZE, 'ops': ops, 'O': O, 'stream': 'crowd',
            'crowd': {'k': k, 'kind': kind, 'layout': layout, 'texts': CROWD.crowd_texts(kind, k, rng)}}


def history_for(O, e1, basis, rng):
    """slot 0 = e1; slot 3 = unary results; slot 1 = e2 for every e2; slot 2 = binary results"""
    O = list(O)
    ops = [B.mk_parse(0, O, e1), ['not', 0, 3]]
    vals = [(True, False), (1, 0)]
    for v in range(5):
        pair = vals[(v + len(ops)) % 2]
        ops.append(['restrict', 0, v, pair[0], 3])
        ops.append(['restrict', 0, v, pair[1], 3])
    # one and the same OBDD object on both sides of the operator; then the same through a second reference to it
    ops += [['xor', 0, 0, 2], ['and', 0, 0, 2], ['or', 0, 0, 2], ['alias', 0, 3], ['xor', 0, 3, 2], ['or', 3, 0, 2, 'aug'],
            ['and', 3, 3, 2], ['xor', 3, 3, 3]]
    for n, e2 in enumerate(basis):
        ops.append(B.mk_parse(1, O, e2))
        if B.expected_status(e2, O) == 'ok':
            # one of the three spelled  acc = p[0]; acc &= p[1]; p[2] = acc
            ops.append(['and', 0, 1, 2] + (['aug'] if n % 3 == 0 else []))
            ops.append(['or', 0, 1, 2] + (['aug'] if n % 3 == 1 else []))
            ops.append(['xor', 0, 1, 2] + (['aug'] if n % 3 == 2 else []))
        if n % 8 == 7:
            ops.append(['gc'])
    # the public node route: the reduced ordered diagram of e1 handed over as a BDDNode is the OBDD of e1 (== p[0], same root);
    # a diagram with a variable outside the ordering (at the root / below the root) or against the ordering is refused
    ops.append(B.mk_node(3, O, e1))
    outs = [v for v in range(5) if v not in O]
    for kind in ('root_outside', 'inner_outside', 'misordered'):
        nd = B.mk_node(3, O, e1, kind, rng.choice(outs))
        if nd is not None:
            ops.append(nd)
    # one defect anywhere in ONE branch (deepest positions first, three different kinds)
    ops += deep_node_ops(3, O, e1, rng, 3)
    ops += [['and', 0, 3, 2], ['xor', 3, 0, 2]]
    # guards: another ordering of the same variables, a sub-ordering, an ordering lacking a used variable
    O2 = list(reversed(O))
    if O2 != O:
        ops.append(B.mk_parse(3, O2, e1))
        ops += [['and', 0, 3, 2], ['or', 3, 0, 2], ['xor', 0, 3, 2]]
    used = sorted(B.evars(e1))
    unused = [v for v in O if v not in used]
    if unused:
        O3 = [v for v in O if v != unused[0]]
        ops.append(B.mk_parse(3, O3, e1))
        ops += [['and', 0, 3, 2], ['xor', 3, 0, 2]]
    if used:
        gone = rng.choice(used)
        O4 = [v for v in O if v != gone]
        ops.append(B.mk_parse(3, O4, e1))
        ops.append(B.mk_parse(3, O4, e1, lam=True))
    ops.append(['gc'])
    return {'psize': PSIZE, 'ops': ops, 'O': O}


def batch(histories):
    """histories of the crowd stream go to the crowd worker, the others to the common one; answers in the order of the histories"""
    plain = [h for h in histories if 'crowd' not in h]
    crowd = [h for h in histories if 'crowd' in h]
    rp = iter(B.run_batch(plain) if plain else [])
    rc = iter(CROWD.run_batch(crowd) if crowd else [])
    return [next(rc) if 'crowd' in h else next(rp) for h in histories]


def run(R):
    rng = R.rng
    basis = [B.struct_of_text(t) for t in BASIS]
    perms4 = [list(p) for p in itertools.permutations(range(4))]
    perms3 = [list(p) for s in itertools.combinations(range(4), 3) for p in itertools.permutations(s)]
    if R.thorough:
        orders = perms4 + perms3
    else:
        orders = [perms4[0], perms4[23], perms4[10], perms4[13], perms3[1], perms3[22]]
    # small orderings: none, one and two variables (thorough: all of them)
    small = [[]] + [[v] for v in range(4)] + [list(p) for c in itertools.combinations(range(4), 2) for p in itertools.permutations(c)]
    orders = orders + (small if R.thorough else [[], [1], [3], [2, 0], [1, 3], [3, 2]])
    R.rule = ('basis of %d expressions over a..d (constants, literals, all 2-variable connectives, majority, if-then-else, parity of 3 and 4, '
              'DNF/CNF shapes that skip levels, keyword spellings); orderings: %s; for every ordering O and every basis member f whose '
              'variables lie in O: ~f, f.restrict(v, b) for v in a..e and b in {True, False, 1, 0}, and f&g, f|g, f^g for EVERY basis member g '
              '(members using a variable outside O must fail to parse with RuntimeError); guards: f under the reversed ordering, under O minus '
              'an unused variable, and under O minus a used variable (expression and lambda notation); f&f, f|f, f^f with ONE object as both '
              'operands (directly and through a second reference p[3]=p[0]); a third of the binary steps spelled acc=f; acc&=g; the node route '
              'OBDD(BDDNode(...), O) with the reduced O-ordered diagram of f computed by the harness (must == f, same root) and with three '
              'ill-formed diagrams (root variable outside O -> RuntimeError; a variable outside O below the root -> refused, class recorded; '
              'a diagram ordered by reversed O -> refused); small orderings: %s (over [] the two constants, built from text and from '
              'BDDNode(0/1), through every operation). The worker edits what variables() and get_list() returned after every observation. '
              'Observed after every step: status, truth '
              'tables of the pool on all 16 assignments (library = model = integer arithmetic on the operand tables), variables() = set of '
              'variables the table depends on, node walk of every pool diagram (ordered, low is not high), plus the C16 unique-table scans. '
              'Second audit: (i) single defects in ONE branch of the node route: for every history three, and in a stream "deep" of %d '
              'histories (basis members and random expressions with >= 3 levels, random orderings of 3 and 4 variables) up to nine, '
              'ill-formed diagrams obtained from the reduced ordered diagram by ONE change at a position of the tree (deepest positions '
              'first, every kind): a variable outside the ordering (a fifth name of the harness, "zz", "A"), the variable of the father '
              'repeated, the variable of a farther ancestor repeated, the variables of a node and its son exchanged, an earlier variable '
              'that is not on the path; every other branch stays well-formed; all must be refused (only acceptance is a violation) and '
              'leave the slot as it was. (ii) stream "crowd" (c17_crowd.py): %d histories of ~80 focus steps over 2-4 of the variables '
              '(every literal and its negation built twice by different routes - BDDNode(v,0,1), parser, ~ - ; (z & f) | (~z & g) for two '
              'separately built diagrams f, g of one function; random &,|,^,~,restrict, node-route steps between basis members) executed '
              'while 12..%d other diagrams (literals / negated literals / both / random two-variable connectives over crowd variables '
              'x0..) are alive, the crowd variables before, after or between the focus variables in the ordering: the parent sets of the '
              'two terminals (the lists the unique-table lookup scans) hold from 4 to > 200 nodes; same observations and the same model '
              'comparison (node counts relative to the crowd), plus: every crowd diagram built again at the end is the kept one (same '
              'root, ==, not !=), nothing is alive after the crowd is released. '
              'A case = (ordering, operation, operands); non-trivial = the result diagram has >= 2 internal nodes (node route: every '
              'ill-formed diagram, and well-formed ones of >= 2 nodes)'
              % (len(BASIS), 'all 24 permutations of a..d and all 24 orderings of 3 of the 4 variables' if R.thorough else
                 '4 permutations of a..d and 2 three-variable orderings',
                 'every ordering of 0, 1 and 2 variables' if R.thorough else '[], 2 one-variable and 3 two-variable orderings',
                 96 if R.thorough else 20, 24 if R.thorough else 6, 520 if R.thorough else 260))
    hs = []
    for O in orders:
        for e1 in basis:
            if B.evars(e1) <= set(O):
                hs.append(history_for(O, e1, basis, rng))
    hs.sort(key=lambda h: -len(repr(h['ops'][0])))       # big diagrams first: better load balance
    # stream "deep": diagrams of 3 and 4 levels (basis members and random expressions) with single defects at every depth
    big = [e for e in basis if len(B.tt_support(B.tt_eval(e))) >= 3]
    deep = []
    n = 0
    while len(deep) < (96 if R.thorough else 20):
        n += 1
        O = list(rng.choice(perms4 if n % 4 else perms3))
        e = rng.choice(big) if n % 2 else B.rand_expr(rng, 4, O, p_kw=0.2, p_const=0.0)
        if B.evars(e) <= set(O) and len(B.tt_support(B.tt_eval(e))) >= 3:
            deep.append(deep_history(O, e, rng))
    # stream "crowd": parent sets of the terminals from a dozen to some hundreds of nodes
    sizes = [12, 34, 40, 70, 130, 260, 520, 90] if R.thorough else [12, 34, 40, 70, 130, 260]
    crowds = []
    for rep in range(3 if R.thorough else 1):
        for n, k in enumerate(sizes):
            kind = CROWD.CROWD_KINDS[(n + rep) % 4] if k != 40 else 'both'
            crowds.append(crowd_history(rng, k, kind, CROWD.LAYOUTS[(n + rep) % 3], basis))
    # the crowd histories first (the longest single jobs), one per batch
    batches = [[h] for h in crowds] + B.chunks(hs, 2) + B.chunks(deep, 4)
    results = B.parallel(batch, batches)
    kinds, errors, sizes, node_refusals, defects, crowd_cov = {}, {}, {}, {}, {}, []
    for bt, res in zip(batches, results):
        for h, (viol, info, _) in zip(bt, res):
            for v in viol:
                if 'crowd' in h:
                    CROWD.report_violation(R, 'C17', h, v, extra={'ordering': [B.NAMES[x] for x in h['O']]})
                else:
                    B.report_violation(R, 'C17', h, v, extra={'ordering': [B.NAMES[x] for x in h['O']]})
            if 'crowd' in h:
                c = h['crowd']
                crowd_cov.append('%d %s, crowd variables %s the focus ordering %s: %d steps'
                                 % (c['k'], c['kind'], c['layout'], [B.NAMES[x] for x in h['O']], len(info)))
            cur = {}
            for op, s in zip(h['ops'], info):
                k = op[0]
                if k in ('parse', 'lambda'):
                    cur[op[1]] = op[4]
                    if s['status'] != 'ok':
                        errors['%s:%s' % (k, s['status'])] = errors.get('%s:%s' % (k, s['status']), 0) + 1
                    continue
                if k in ('gc', 'drop', 'alias'):
                    continue
                if k == 'node':
                    R.evaluations += 1
                    key = '%s:%s' % (op[5], s['lib_status'])
                    node_refusals[key] = node_refusals.get(key, 0) + 1
                    if len(op) > 6:
                        defects[op[6]] = defects.get(op[6], 0) + 1
                    if op[5] != 'ok' or B.spec_nodes(op[4]) >= 2:
                        R.nontriv((tuple(h['O']), 'node', op[5], B.spec_text(op[4])) + (('crowd', h['crowd']['k']) if 'crowd' in h else ()))
                    continue
                if k in ('and', 'or', 'xor') and len(op) > 4:
                    kinds[k + '(augmented)'] = kinds.get(k + '(augmented)', 0) + 1
                if k in ('and', 'or', 'xor') and op[1] == op[2]:
                    kinds[k + '(one object twice)'] = kinds.get(k + '(one object twice)', 0) + 1
                R.evaluations += 1
                kinds[k] = kinds.get(k, 0) + 1
                if s['status'] != 'ok':
                    errors['%s:%s' % (k, s['status'])] = errors.get('%s:%s' % (k, s['status']), 0) + 1
                    continue
                dst = op[3] if k in ('and', 'or', 'xor') else op[-1]
                internal = s['shape'][dst][0]
                sizes[internal] = sizes.get(internal, 0) + 1
                if internal >= 2 and h.get('stream') == 'crowd':
                    R.nontriv(('crowd', h['crowd']['k'], h['crowd']['kind'], tuple(h['O']), k, cur.get(0), cur.get(1), tuple(op[1:5])))
                elif internal >= 2:
                    key = (tuple(h['O']), k, cur.get(0)) + ((cur.get(1),) if k in ('and', 'or', 'xor') else tuple(op[2:4]) if k == 'restrict' else ())
                    R.nontriv(key)
                    if k in ('xor', 'restrict') and internal >= 4:
                        R.sample({'ordering': [B.NAMES[x] for x in h['O']], 'op': B.op_text(op), 'p[0]': cur.get(0), 'p[1]': cur.get(1),
                                  'result_nodes': internal})
    R.cov['distribution'] = {'orderings': len(orders), 'histories': len(hs), 'operations': kinds, 'expected_errors': errors,
                             'result_internal_nodes': {str(k): v for k, v in sorted(sizes.items())},
                             'node_route(kind:library status)': node_refusals,
                             'node_route single defects (kind@depth of the offending node, root = 0)': dict(sorted(defects.items())),
                             'crowd histories (diagrams kept alive, kind, layout, focus ordering)': crowd_cov}
    R.cov['informational'] = ('node route, not part of the violation logic: a BDDNode whose ROOT variable is outside the ordering is refused by the '
                              'library\'s explicit guard (RuntimeError, demanded); a variable outside the ordering BELOW the root is refused with '
                              'KeyError (ListOrdering.cmp looks the name up before the guard of the child is reached) - C17 speaks of RuntimeError '
                              'for COMBINING OBDDs / parsing with a variable outside the ordering and theorem C17_respects_ordering only decides '
                              '"accepted <-> ordered", so any refusal (RuntimeError, KeyError, ValueError) is accepted there and only acceptance is '
                              'a violation; the classes seen are in distribution["node_route(kind:library status)"]')
    R.cov['live_count_rule'] = 'as in C16 (exact after gc.collect(), >= otherwise)'
    R.exhaustive = False


def replay(R, data):
    if 'crowd' in data['data']:
        CROWD.replay(R, data)
    else:
        B.replay_history(R, data)
