"""C17 - OBDD operations compute the right function, reduced and ordered.

Theorems (Properties/C17.v): C17_apply, C17_restrict, C17_neg, C17_support, C17_guards over coq/Model/Bdd.v.
Correspondence: every pair of a %d-expression basis over a..d under several orderings, through & | ^, plus ~ and
restrict(v, b) for every (v, b) of every basis member; executed on the real classes (fresh interpreter per batch)
and on the extracted model; truth tables on all 16 assignments must equal (i) the model's and (ii) the Boolean
combination computed by plain integer arithmetic from the expression semantics; every result diagram is walked
(variable strictly earlier in the ordering than the children's, low is not high); variables() must be the true
support; combining different orderings / using a variable outside the ordering must raise RuntimeError."""
from common import *
import bddlib as B
LEVEL = 'proof'

PAR3 = '((a & ~b | ~a & b) & ~c | ~(a & ~b | ~a & b) & c)'
PAR4 = '(%s & ~d | ~%s & d)' % (PAR3, PAR3)
BASIS = ['0', '1', 'a', 'b', 'c', 'd', '~a', '~d', 'a & b', 'a | b', 'a & ~b', '~a | b', 'c & d', 'b | d', 'a & d', '~b & ~c',
         'a & ~b | ~a & b', 'a & b | ~a & ~b', 'c & ~d | ~c & d', 'b & ~d | ~b & d', 'a & b & c', 'a | b | c', 'a & b | c',
         'a & (b | c)', '(a | b) & c', 'a & b | ~a & c', 'b & c | ~b & d', 'a & b | b & c | a & c', PAR3, 'a & b & c & d',
         'a | b | c | d', 'a & b | c & d', '(a | b) & (c | d)', 'a & c | b & d', '(a | d) & (b | c)', PAR4, '~' + PAR4,
         'a & ~c | b & ~d', 'a & b & ~c | d', '~a & ~b & ~c & ~d', 'a & (b | c & d)', 'a | b & (c | d)', 'd & (a | ~b)',
         'not a or b and not c', '(a and d) or (not a and not d)', 'a & d | ~a & c & ~b', 'b & (a | d) & ~(a & d)']
BASIS = [B.rn(t) for t in BASIS]
__doc__ = __doc__ % len(BASIS)
PSIZE = 4


def history_for(O, e1, basis, rng):
    """slot 0 = e1; slot 3 = unary results; slot 1 = e2 for every e2; slot 2 = binary results"""
    O = list(O)
    ops = [B.mk_parse(0, O, e1), ['not', 0, 3]]
    vals = [(True, False), (1, 0)]
    for v in range(5):
        pair = vals[(v + len(ops)) % 2]
        ops.append(['restrict', 0, v, pair[0], 3])
        ops.append(['restrict', 0, v, pair[1], 3])
    for n, e2 in enumerate(basis):
        ops.append(B.mk_parse(1, O, e2))
        if B.expected_status(e2, O) == 'ok':
            ops.append(['and', 0, 1, 2])
            ops.append(['or', 0, 1, 2])
            ops.append(['xor', 0, 1, 2])
        if n % 8 == 7:
            ops.append(['gc'])
    # guards: another ordering of the same variables, a sub-ordering, an ordering lacking a used variable
    O2 = list(reversed(O))
    if O2 != O:
        ops.append(B.mk_parse(3, O2, e1))
        ops += [['and', 0, 3, 2], ['or', 3, 0, 2], ['xor', 0, 3, 2]]
    used = sorted(B.evars(e1))
    unused = [v for v in O if v not in used]
    if unused:
        O3 = [v for v in O if v != unused[0]]
        ops.append(B.mk_parse(3, O3, e1))
        ops += [['and', 0, 3, 2], ['xor', 3, 0, 2]]
    if used:
        gone = rng.choice(used)
        O4 = [v for v in O if v != gone]
        ops.append(B.mk_parse(3, O4, e1))
        ops.append(B.mk_parse(3, O4, e1, lam=True))
    ops.append(['gc'])
    return {'psize': PSIZE, 'ops': ops, 'O': O}


def batch(histories):
    return B.run_batch(histories)


def run(R):
    rng = R.rng
    basis = [B.struct_of_text(t) for t in BASIS]
    perms4 = [list(p) for p in itertools.permutations(range(4))]
    perms3 = [list(p) for s in itertools.combinations(range(4), 3) for p in itertools.permutations(s)]
    if R.thorough:
        orders = perms4 + perms3
    else:
        orders = [perms4[0], perms4[23], perms4[10], perms4[13], perms3[1], perms3[22]]
    R.rule = ('basis of %d expressions over a..d (constants, literals, all 2-variable connectives, majority, if-then-else, parity of 3 and 4, '
              'DNF/CNF shapes that skip levels, keyword spellings); orderings: %s; for every ordering O and every basis member f whose '
              'variables lie in O: ~f, f.restrict(v, b) for v in a..e and b in {True, False, 1, 0}, and f&g, f|g, f^g for EVERY basis member g '
              '(members using a variable outside O must fail to parse with RuntimeError); guards: f under the reversed ordering, under O minus '
              'an unused variable, and under O minus a used variable (expression and lambda notation). Observed after every step: status, truth '
              'tables of the pool on all 16 assignments (library = model = integer arithmetic on the operand tables), variables() = set of '
              'variables the table depends on, node walk of every pool diagram (ordered, low is not high), plus the C16 unique-table scans. '
              'A case = (ordering, operation, operands); non-trivial = the result diagram has >= 2 internal nodes'
              % (len(BASIS), 'all 24 permutations of a..d and all 24 orderings of 3 of the 4 variables' if R.thorough else
                 '4 permutations of a..d and 2 three-variable orderings'))
    hs = []
    for O in orders:
        for e1 in basis:
            if B.evars(e1) <= set(O):
                hs.append(history_for(O, e1, basis, rng))
    hs.sort(key=lambda h: -len(repr(h['ops'][0])))       # big diagrams first: better load balance
    batches = B.chunks(hs, 2)
    results = B.parallel(batch, batches)
    kinds, errors, sizes = {}, {}, {}
    for bt, res in zip(batches, results):
        for h, (viol, info, _) in zip(bt, res):
            for v in viol:
                B.report_violation(R, 'C17', h, v, extra={'ordering': [B.NAMES[x] for x in h['O']]})
            cur = {}
            for op, s in zip(h['ops'], info):
                k = op[0]
                if k in ('parse', 'lambda'):
                    cur[op[1]] = op[4]
                    if s['status'] != 'ok':
                        errors['%s:%s' % (k, s['status'])] = errors.get('%s:%s' % (k, s['status']), 0) + 1
                    continue
                if k in ('gc', 'drop'):
                    continue
                R.evaluations += 1
                kinds[k] = kinds.get(k, 0) + 1
                if s['status'] != 'ok':
                    errors['%s:%s' % (k, s['status'])] = errors.get('%s:%s' % (k, s['status']), 0) + 1
                    continue
                dst = op[-1]
                internal = s['shape'][dst][0]
                sizes[internal] = sizes.get(internal, 0) + 1
                if internal >= 2:
                    key = (tuple(h['O']), k, cur.get(0)) + ((cur.get(1),) if k in ('and', 'or', 'xor') else tuple(op[2:4]) if k == 'restrict' else ())
                    R.nontriv(key)
                    if k in ('xor', 'restrict') and internal >= 4:
                        R.sample({'ordering': [B.NAMES[x] for x in h['O']], 'op': B.op_text(op), 'p[0]': cur.get(0), 'p[1]': cur.get(1),
                                  'result_nodes': internal})
    R.cov['distribution'] = {'orderings': len(orders), 'histories': len(hs), 'operations': kinds, 'expected_errors': errors,
                             'result_internal_nodes': {str(k): v for k, v in sorted(sizes.items())}}
    R.cov['live_count_rule'] = 'as in C16 (exact after gc.collect(), >= otherwise)'
    R.exhaustive = False


def replay(R, data):
    B.replay_history(R, data)
