"""C17 - OBDD operations compute the right function, reduced and ordered.

Theorems (Properties/C17.v): C17_apply, C17_restrict, C17_neg, C17_support, C17_guards over coq/Model/Bdd.v.
Correspondence: every pair of a %d-expression basis over a..d under several orderings, through & | ^, plus ~ and
restrict(v, b) for every (v, b) of every basis member; executed on the real classes (fresh interpreter per batch)
and on the extracted model; truth tables on all 16 assignments must equal (i) the model's and (ii) the Boolean
combination computed by plain integer arithmetic from the expression semantics; every result diagram is walked
(variable strictly earlier in the ordering than the children's, low is not high); variables() must be the true
support; combining different orderings / using a variable outside the ordering must raise RuntimeError.
Also: the SAME OBDD object as both operands (f&f, f|f, f^f, directly and through a second reference), the binary steps
spelled with augmented assignment, the answers of variables() / get_list() edited by the caller between observations,
orderings of 0, 1 and 2 variables (the two constants over the EMPTY ordering included), and the public node route
OBDD(BDDNode(...), ordering) with the reduced ordered diagram of f (must be the very OBDD of f) and with ill-formed diagrams."""
from common import *
import bddlib as B
LEVEL = 'proof'

PAR3 = '((a & ~b | ~a & b) & ~c | ~(a & ~b | ~a & b) & c)'
PAR4 = '(%s & ~d | ~%s & d)' % (PAR3, PAR3)
BASIS = ['0', '1', 'a', 'b', 'c', 'd', '~a', '~d', 'a & b', 'a | b', 'a & ~b', '~a | b', 'c & d', 'b | d', 'a & d', '~b & ~c',
         'a & ~b | ~a & b', 'a & b | ~a & ~b', 'c & ~d | ~c & d', 'b & ~d | ~b & d', 'a & b & c', 'a | b | c', 'a & b | c',
         'a & (b | c)', '(a | b) & c', 'a & b | ~a & c', 'b & c | ~b & d', 'a & b | b & c | a & c', PAR3, 'a & b & c & d',
         'a | b | c | d', 'a & b | c & d', '(a | b) & (c | d)', 'a & c | b & d', '(a | d) & (b | c)', PAR4, '~' + PAR4,
         'a & ~c | b & ~d', 'a & b & ~c | d', '~a & ~b & ~c & ~d', 'a & (b | c & d)', 'a | b & (c | d)', 'd & (a | ~b)',
         'not a or b and not c', '(a and d) or (not a and not d)', 'a & d | ~a & c & ~b', 'b & (a | d) & ~(a & d)']
BASIS = [B.rn(t) for t in BASIS]
__doc__ = __doc__ % len(BASIS)
PSIZE = 4


def history_for(O, e1, basis, rng):
    """slot 0 = e1; slot 3 = unary results; slot 1 = e2 for every e2; slot 2 = binary results"""
    O = list(O)
    ops = [B.mk_parse(0, O, e1), ['not', 0, 3]]
    vals = [(True, False), (1, 0)]
    for v in range(5):
        pair = vals[(v + len(ops)) % 2]
        ops.append(['restrict', 0, v, pair[0], 3])
        ops.append(['restrict', 0, v, pair[1], 3])
    # one and the same OBDD object on both sides of the operator; then the same through a second reference to it
    ops += [['xor', 0, 0, 2], ['and', 0, 0, 2], ['or', 0, 0, 2], ['alias', 0, 3], ['xor', 0, 3, 2], ['or', 3, 0, 2, 'aug'],
            ['and', 3, 3, 2], ['xor', 3, 3, 3]]
    for n, e2 in enumerate(basis):
        ops.append(B.mk_parse(1, O, e2))
        if B.expected_status(e2, O) == 'ok':
            # one of the three spelled  acc = p[0]; acc &= p[1]; p[2] = acc
            ops.append(['and', 0, 1, 2] + (['aug'] if n % 3 == 0 else []))
            ops.append(['or', 0, 1, 2] + (['aug'] if n % 3 == 1 else []))
            ops.append(['xor', 0, 1, 2] + (['aug'] if n % 3 == 2 else []))
        if n % 8 == 7:
            ops.append(['gc'])
    # the public node route: the reduced ordered diagram of e1 handed over as a BDDNode is the OBDD of e1 (== p[0], same root);
    # a diagram with a variable outside the ordering (at the root / below the root) or against the ordering is refused
    ops.append(B.mk_node(3, O, e1))
    outs = [v for v in range(5) if v not in O]
    for kind in ('root_outside', 'inner_outside', 'misordered'):
        nd = B.mk_node(3, O, e1, kind, rng.choice(outs))
        if nd is not None:
            ops.append(nd)
    ops += [['and', 0, 3, 2], ['xor', 3, 0, 2]]
    # guards: another ordering of the same variables, a sub-ordering, an ordering lacking a used variable
    O2 = list(reversed(O))
    if O2 != O:
        ops.append(B.mk_parse(3, O2, e1))
        ops += [['and', 0, 3, 2], ['or', 3, 0, 2], ['xor', 0, 3, 2]]
    used = sorted(B.evars(e1))
    unused = [v for v in O if v not in used]
    if unused:
        O3 = [v for v in O if v != unused[0]]
        ops.append(B.mk_parse(3, O3, e1))
        ops += [['and', 0, 3, 2], ['xor', 3, 0, 2]]
    if used:
        gone = rng.choice(used)
        O4 = [v for v in O if v != gone]
        ops.append(B.mk_parse(3, O4, e1))
        ops.append(B.mk_parse(3, O4, e1, lam=True))
    ops.append(['gc'])
    return {'psize': PSIZE, 'ops': ops, 'O': O}


def batch(histories):
    return B.run_batch(histories)


def run(R):
    rng = R.rng
    basis = [B.struct_of_text(t) for t in BASIS]
    perms4 = [list(p) for p in itertools.permutations(range(4))]
    perms3 = [list(p) for s in itertools.combinations(range(4), 3) for p in itertools.permutations(s)]
    if R.thorough:
        orders = perms4 + perms3
    else:
        orders = [perms4[0], perms4[23], perms4[10], perms4[13], perms3[1], perms3[22]]
    # small orderings: none, one and two variables (thorough: all of them)
    small = [[]] + [[v] for v in range(4)] + [list(p) for c in itertools.combinations(range(4), 2) for p in itertools.permutations(c)]
    orders = orders + (small if R.thorough else [[], [1], [3], [2, 0], [1, 3], [3, 2]])
    R.rule = ('basis of %d expressions over a..d (constants, literals, all 2-variable connectives, majority, if-then-else, parity of 3 and 4, '
              'DNF/CNF shapes that skip levels, keyword spellings); orderings: %s; for every ordering O and every basis member f whose '
              'variables lie in O: ~f, f.restrict(v, b) for v in a..e and b in {True, False, 1, 0}, and f&g, f|g, f^g for EVERY basis member g '
              '(members using a variable outside O must fail to parse with RuntimeError); guards: f under the reversed ordering, under O minus '
              'an unused variable, and under O minus a used variable (expression and lambda notation); f&f, f|f, f^f with ONE object as both '
              'operands (directly and through a second reference p[3]=p[0]); a third of the binary steps spelled acc=f; acc&=g; the node route '
              'OBDD(BDDNode(...), O) with the reduced O-ordered diagram of f computed by the harness (must == f, same root) and with three '
              'ill-formed diagrams (root variable outside O -> RuntimeError; a variable outside O below the root -> refused, class recorded; '
              'a diagram ordered by reversed O -> refused); small orderings: %s (over [] the two constants, built from text and from '
              'BDDNode(0/1), through every operation). The worker edits what variables() and get_list() returned after every observation. '
              'Observed after every step: status, truth '
              'tables of the pool on all 16 assignments (library = model = integer arithmetic on the operand tables), variables() = set of '
              'variables the table depends on, node walk of every pool diagram (ordered, low is not high), plus the C16 unique-table scans. '
              'A case = (ordering, operation, operands); non-trivial = the result diagram has >= 2 internal nodes'
              % (len(BASIS), 'all 24 permutations of a..d and all 24 orderings of 3 of the 4 variables' if R.thorough else
                 '4 permutations of a..d and 2 three-variable orderings',
                 'every ordering of 0, 1 and 2 variables' if R.thorough else '[], 2 one-variable and 3 two-variable orderings'))
    hs = []
    for O in orders:
        for e1 in basis:
            if B.evars(e1) <= set(O):
                hs.append(history_for(O, e1, basis, rng))
    hs.sort(key=lambda h: -len(repr(h['ops'][0])))       # big diagrams first: better load balance
    batches = B.chunks(hs, 2)
    results = B.parallel(batch, batches)
    kinds, errors, sizes, node_refusals = {}, {}, {}, {}
    for bt, res in zip(batches, results):
        for h, (viol, info, _) in zip(bt, res):
            for v in viol:
                B.report_violation(R, 'C17', h, v, extra={'ordering': [B.NAMES[x] for x in h['O']]})
            cur = {}
            for op, s in zip(h['ops'], info):
                k = op[0]
                if k in ('parse', 'lambda'):
                    cur[op[1]] = op[4]
                    if s['status'] != 'ok':
                        errors['%s:%s' % (k, s['status'])] = errors.get('%s:%s' % (k, s['status']), 0) + 1
                    continue
                if k in ('gc', 'drop', 'alias'):
                    continue
                if k == 'node':
                    R.evaluations += 1
                    key = '%s:%s' % (op[5], s['lib_status'])
                    node_refusals[key] = node_refusals.get(key, 0) + 1
                    if op[5] != 'ok' or B.spec_nodes(op[4]) >= 2:
                        R.nontriv((tuple(h['O']), 'node', op[5], B.spec_text(op[4])))
                    continue
                if k in ('and', 'or', 'xor') and len(op) > 4:
                    kinds[k + '(augmented)'] = kinds.get(k + '(augmented)', 0) + 1
                if k in ('and', 'or', 'xor') and op[1] == op[2]:
                    kinds[k + '(one object twice)'] = kinds.get(k + '(one object twice)', 0) + 1
                R.evaluations += 1
                kinds[k] = kinds.get(k, 0) + 1
                if s['status'] != 'ok':
                    errors['%s:%s' % (k, s['status'])] = errors.get('%s:%s' % (k, s['status']), 0) + 1
                    continue
                dst = op[3] if k in ('and', 'or', 'xor') else op[-1]
                internal = s['shape'][dst][0]
                sizes[internal] = sizes.get(internal, 0) + 1
                if internal >= 2:
                    key = (tuple(h['O']), k, cur.get(0)) + ((cur.get(1),) if k in ('and', 'or', 'xor') else tuple(op[2:4]) if k == 'restrict' else ())
                    R.nontriv(key)
                    if k in ('xor', 'restrict') and internal >= 4:
                        R.sample({'ordering': [B.NAMES[x] for x in h['O']], 'op': B.op_text(op), 'p[0]': cur.get(0), 'p[1]': cur.get(1),
                                  'result_nodes': internal})
    R.cov['distribution'] = {'orderings': len(orders), 'histories': len(hs), 'operations': kinds, 'expected_errors': errors,
                             'result_internal_nodes': {str(k): v for k, v in sorted(sizes.items())},
                             'node_route(kind:library status)': node_refusals}
    R.cov['informational'] = ('node route, not part of the violation logic: a BDDNode whose ROOT variable is outside the ordering is refused by the '
                              'library\'s explicit guard (RuntimeError, demanded); a variable outside the ordering BELOW the root is refused with '
                              'KeyError (ListOrdering.cmp looks the name up before the guard of the child is reached) - C17 speaks of RuntimeError '
                              'for COMBINING OBDDs / parsing with a variable outside the ordering and theorem C17_respects_ordering only decides '
                              '"accepted <-> ordered", so any refusal (RuntimeError, KeyError, ValueError) is accepted there and only acceptance is '
                              'a violation; the classes seen are in distribution["node_route(kind:library status)"]')
    R.cov['live_count_rule'] = 'as in C16 (exact after gc.collect(), >= otherwise)'
    R.exhaustive = False


def replay(R, data):
    B.replay_history(R, data)
