"""C18 - expression and lambda notation build the same OBDD; printing round-trips.

Theorems (Properties/C18.v): C18_lambda, C18_synonyms, C18_roundtrip, C18_errors over coq/Model/BExp.v.
Correspondence, per (expression e, argument order O), as one 6-step history on the real classes (fresh interpreter per
batch) and on the extracted model:
    p0 = OBDD(e written with & | ~, O)          p1 = OBDD('lambda O: e')            (e as generated)
    p2 = OBDD(e written with and/or/not, O)     p3 = OBDD('lambda O: e with and/or/not')
    p4 = OBDD(str(p0.root), p0.ordering)        p5 = OBDD(str(p0))
after every step status / truth tables / == matrix / root identity / variables() are compared with the model (whose ==
matrix is all ones here, by C18_lambda, C18_synonyms, C18_roundtrip) and with plain truth-table arithmetic; the printed
root str(p0.root) is tokenised and compared with the model's printer `(printbdd O e)`.  Error streams: a variable missing
from the ordering / argument list (RuntimeError) and non-Boolean or ill-formed text (SyntaxError), in both notations.
When O has two or more variables a seventh slot p6 is built FIRST and stays alive: one of the four texts under ANOTHER
argument order (so every case has two orderings alive together); well-formed expressions that are not lambdas go through the
one-argument form OBDD(text) (SyntaxError); every comparison operator and chains of them are among the non-Boolean fragments;
keyword chains have up to 6 operands.  (w) wide printed forms (4-variable functions with big diagrams), (g) the connectives
of other languages (&& || ! AND OR NOT ...) as ill-formed text, (f) all of it again under other variable names (NAME_TABLES,
own worker c18_worker.py): identifiers with underscores, digits, capitals, soft keywords and long names."""
from common import *
import bddlib as B
import ast, contextlib, functools, subprocess
LEVEL = 'proof'
PSIZE = 6

# ----------------------------------------------------------------------------------------------------------------------
# (f) other variable names.  bddlib.NAMES (a, ab, b, bb, e_x) is shared; the tables below are C18's own renaming: every
# legal kind of Python identifier has to be a legal variable of an ordering / lambda argument list (underscore inside,
# leading underscore, dunder, '_' alone, digits, capitals, soft keywords, names that only BEGIN like a keyword, names that
# extend one another) and LONG names make the printed forms str(o.root) / str(o) long (hundreds of characters: whatever the
# printer does to long lines - wrapping, truncation, an ellipsis - shows in OBDD(str(o))).  ASCII only: ast NFKC-normalises
# identifiers, the library does not (OBDD('µ', ['µ']) raises RuntimeError on the unchanged tree) - outside this property.
# A history that carries h['names'] is generated, executed (c18_worker.py), compared, shrunk, reported and replayed with
# bddlib.NAMES swapped for that table.
# ----------------------------------------------------------------------------------------------------------------------
NAME_TABLES = [
    ['x_1', '_p', 'Q', 'v2', 'e_x'],                                          # underscore / leading underscore / capital / digit
    ['req_in', 'ack_out', '__', 'X9_', 'e_x'],                                # the demo's names, a dunder, trailing underscore
    ['match', 'case', '_', 'type', 'e_x'],                                    # soft keywords and the lone underscore
    ['nota', 'or_', 'And', 'lambda_', 'e_x'],                                 # names that begin like the keywords / differ by case
    ['a1', 'a', 'a_', '_a', 'e_x'],                                           # names extending one another
    ['request_line_in', 'acknowledge_out', 'grant_token_0', 'bus_is_busy', 'e_x'],           # long: printed forms of 100-400 chars
    ['the_first_input_of_the_arbiter_cell', 'x', 'second_input_of_the_arbiter_cell_n0', 'Y_' * 9, 'e_x']]   # one name > 30 chars
LONG_TABLES = (5, 6)


def run_library_named(names, histories, want_str=False, timeout=900):
    """bddlib.run_library through c18_worker.py (the same worker under the name table `names`)"""
    repo = os.environ.get('PMC_REPO', '/repo')
    env = dict(os.environ)
    env['PYTHONPATH'] = repo
    env.setdefault('PYTHONHASHSEED', '0')
    env['PYTHONDONTWRITEBYTECODE'] = '1'
    env['C18_NAMES'] = json.dumps(list(names))
    job = {'want_str': want_str,
           'histories': [{'psize': h['psize'], 'ops': [B.worker_op(o) for o in h['ops']]} for h in histories]}
    p = subprocess.run([sys.executable, '-W', 'ignore', os.path.join(B.HERE, 'c18_worker.py')],
                       input=json.dumps(job), capture_output=True, text=True, timeout=timeout, env=env)
    if p.returncode != 0:
        raise RuntimeError('library worker (names %s) crashed rc=%s: %s' % (names, p.returncode, p.stderr[-1500:]))
    return json.loads(p.stdout)


@contextlib.contextmanager
def using_names(names):
    """inside the block bddlib renders, tokenises, runs, shrinks and replays with the given name table"""
    if not names:
        yield
        return
    old = (B.NAMES, B.run_library)
    B.NAMES = [str(x) for x in names]
    B.run_library = functools.partial(run_library_named, list(B.NAMES))
    try:
        yield
    finally:
        B.NAMES, B.run_library = old


# ----------------------------------------------------------------------------------------------------------------------
# (g) the connectives of OTHER languages.  & | ~ and and/or/not are the only spellings; a text that writes one or all of its
# connectives the way C, SQL/Pascal, mathematics, ... write them is not Python at all (checked with ast.parse here) and must
# raise SyntaxError in both notations - a front end that "helpfully" normalises such spellings accepts them instead.
# ----------------------------------------------------------------------------------------------------------------------
FOREIGN = {'C': {'&': '&&', '|': '||', '~': '!'},
           'C-not-only': {'~': '!'},
           'upper-case keywords': {'&': 'AND', '|': 'OR', '~': 'NOT '},
           'mathematics': {'&': '∧', '|': '∨', '~': '¬'},
           'ascii art': {'&': '/\\', '|': '\\/', '~': '-.'},
           'arrows and words': {'&': 'et', '|': 'vel', '~': 'non '},
           'doubled': {'&': '& &', '|': '| |', '~': '~!'},
           'postfix not': {'~': "'"}}


def foreign_text(rng, e, style, mode):
    """the operator-style text of e with the connectives respelt: mode 'all' | 'kind' (every occurrence of one connective)
    | 'one' (a single occurrence); None when nothing was respelt or Python still reads the result"""
    text = B.render(B.to_op(e))
    table = FOREIGN[style]
    pos = [i for i, c in enumerate(text) if c in table]
    if not pos:
        return None
    if mode == 'one':
        pos = [rng.choice(pos)]
    elif mode == 'kind':
        k = rng.choice(sorted(set(text[i] for i in pos)))
        pos = [i for i in pos if text[i] == k]
    out = []
    for i, c in enumerate(text):
        if i in pos and style == 'postfix not':
            continue
        out.append(table[c] if i in pos else c)
    text2 = ''.join(out)
    if style == 'postfix not':
        text2 = text2 + "'"
    try:
        ast.parse(text2, mode='eval')
    except SyntaxError:
        return text2
    except Exception:
        return None
    return None


FOREIGN_TEXTS = ['!a', 'a && b', 'a || b', 'a || !b', '!(a && b) || a', 'a & !b', '!a | b', '~a && b', 'a and !b', 'not a || b',
                 '!!a', '! a', 'a &&b', 'a||b', '(a && b) | c', 'a & (b || c)', '!0', '1 && 1', 'a !| b', 'a AND b', 'NOT a',
                 'a OR NOT b', 'a ∧ b', '¬a', 'a ∨ ¬b', 'a -> b', 'a <-> b', 'a <=> b', 'a xor b', 'a nand b',
                 "a'", 'a /\\ b', 'a \\/ b', 'a . b', 'a &&& b', 'a ||| b', 'a &| b', '(!a)', 'a & b || c & a', '!a && !b']


def case_history(O, e, mixed=None, full=False, shadow=None):
    """e: structure in operator style (to_op); mixed: the spelling used for the lambda form (default e)"""
    e_op = B.to_op(e)
    e_kw = B.to_kw(e)
    m = e if mixed is None else mixed
    ops = [B.mk_parse(0, O, e_op, full=full), B.mk_parse(1, O, m, lam=True), B.mk_parse(2, O, e_kw), B.mk_parse(3, O, e_kw, lam=True, full=full),
           ['reparse', 0, 4, 'root'], ['reparse', 0, 5, 'lambda']]
    if len(O) >= 2 and shadow is not None:
        # the same text under another argument order, built first and alive to the end: it is a different OBDD (unless constant)
        which, O2 = shadow
        src = ops[which]
        ops.insert(0, B.mk_parse(6, O2, src[3], text=src[4], lam=(src[0] == 'lambda')))
    return {'psize': PSIZE + 1 if len(ops) > 6 else PSIZE, 'ops': ops, 'kind': 'roundtrip', 'O': list(O), 'e': e_op,
            'first': len(ops) - 6}


def other_order(O, n):
    """a permutation of O different from O, chosen by the counter n"""
    O = list(O)
    if n % 3 == 0:
        return list(reversed(O))
    if n % 3 == 1:
        return O[1:] + O[:1]
    return [O[1], O[0]] + O[2:]


def notlambda_history(O, e, text=None):
    """a well-formed Boolean expression that is NOT a lambda, through the one-argument form OBDD(text): SyntaxError"""
    if text is None:
        text = B.render(e)
        B.check_render(e, text)
    bad = ('bad', text)
    ops = [B.mk_parse(0, O, e, text=text), B.mk_parse(1, O, bad, text=text, lam=True) + [text]]
    return {'psize': 2, 'ops': ops, 'kind': 'notlambda', 'O': list(O), 'e': bad}


def error_history(O, e, text=None, lam=True):
    """both notations must fail the same way and leave the pool untouched"""
    ops = [B.mk_parse(0, O, ('v', O[0])) if O else B.mk_parse(0, O, ('c', True, '1')),
           B.mk_parse(1, O, e, text=text), B.mk_parse(2, O, e, text=text, lam=lam)]
    return {'psize': 3, 'ops': ops, 'kind': 'error', 'O': list(O), 'e': e}


def text_history(O, text):
    """a text Python reads as a Boolean expression (structure taken from Python's own parser): both notations"""
    e = B.struct_of_text(text)
    ops = [B.mk_parse(0, O, e, text=text), B.mk_parse(1, O, e, text=text, lam=True), B.mk_parse(2, O, B.to_op(e)),
           ['reparse', 0, 3, 'root'], ['reparse', 1, 4, 'lambda']]
    return {'psize': 5, 'ops': ops, 'kind': 'variant', 'O': list(O), 'e': e}


def statement_history(O, text):
    """statement-shaped text: as the expression, as the whole lambda text, and as a lambda body"""
    bad = ('bad', text)
    ops = [B.mk_parse(0, O, ('v', O[0])),
           B.mk_parse(1, O, bad, text=text),
           B.mk_parse(2, O, bad, text=text, lam=True) + [text],
           B.mk_parse(2, O, bad, text=text, lam=True)]
    return {'psize': 3, 'ops': ops, 'kind': 'error', 'O': list(O), 'e': bad}


def batch(histories):
    """one batch = histories under ONE name table (h['names'], None = bddlib.NAMES)"""
    with using_names(histories[0].get('names') if histories else None):
        return batch_named(histories)


def batch_named(histories):
    res = B.run_batch(histories, want_str=True)
    cmds, idx = [], []
    for n, h in enumerate(histories):
        if h['kind'] == 'roundtrip':
            cmds.append(['printbdd', h['O'], B.sx(h['e'])])
            idx.append(n)
    outs = model_batch(cmds)
    prints = {}
    for n, o in zip(idx, outs):
        prints[n] = o
    out = []
    for n, (viol, info, strs) in enumerate(res):
        extra = None
        if not viol and n in prints:
            o = prints[n]
            if o[0] != 'ok':
                raise B.MachineryError('printbdd failed on %r' % (histories[n]['ops'][histories[n]['first']],))
            lib_str = strs[histories[n]['first']][0][0]
            lt = B.tokens_of(lib_str)
            mt = B.model_tokens(o[1])
            if lt != mt:
                viol = [('printed root differs from the model printer', histories[n]['first'],
                         ['str(root) = %r, tokens %s; model tokens %s' % (lib_str, lt, mt)])]
            # str(o) is 'lambda <ordering>: <str(root)>' - recorded as internal agreement only
            extra = (lib_str, strs[histories[n]['first']][0][1] == B.lambda_text(histories[n]['O'], lib_str),
                     len(strs[histories[n]['first']][0][1]))
        out.append((viol, info, extra))
    return out


def all_exprs(depth, leaves):
    """every expression over ~ & | of at most the given depth"""
    allf = list(leaves)
    for _ in range(depth):
        prev = list(allf)
        new = [('not', f, False) for f in prev]
        for t in ('and', 'or'):
            new.extend((t, f, g) for f in prev for g in prev)
        seen = set(allf)
        for f in new:
            if f not in seen:
                seen.add(f)
                allf.append(f)
    return allf


def run(R):
    rng = R.rng
    leaves3 = [('v', 0), ('v', 1), ('v', 2), ('c', False, '0'), ('c', True, '1')]
    d2 = all_exprs(2, leaves3)
    perms3 = [list(p) for p in itertools.permutations(range(3))]
    perms4 = [list(p) for p in itertools.permutations(range(4))]
    hs = []
    # (0) regression corpus, runs first: statement-shaped text (fix c730a7d) must raise SyntaxError
    for t in B.STATEMENT_TEXTS:
        for O in ([0, 1, 2], [1, 0]):
            hs.append(statement_history(O, t))
    n_corpus = len(hs)
    for t in B.LEXICAL_VARIANTS:
        hs.append(text_history([0, 1, 2], t))
    # keyword chains of 4 and more operands
    for n, t in enumerate(B.NARY_TEXTS):
        for O in ([0, 1, 2, 3], perms4[(5 * n + 7) % 24]):
            hs.append(text_history(O, t))
    n_variants = len(B.LEXICAL_VARIANTS) + 2 * len(B.NARY_TEXTS)
    n_shadow = [0]

    def shadow_for(O):
        n_shadow[0] += 1
        return (n_shadow[0] % 4, other_order(O, n_shadow[0] // 4))
    # (a) exhaustive: every expression of depth <= 2 over a,b,c,0,1
    for n, e in enumerate(d2):
        if R.thorough or B.edepth(e) <= 1:
            for O in perms3:
                hs.append(case_history(O, e, shadow=shadow_for(O)))
        else:
            hs.append(case_history(perms3[n % 6], e, shadow=shadow_for(perms3[n % 6]) if R.thorough or n % 4 < 2 else None))
            if n % 5 == 0:
                hs.append(case_history(perms3[(n // 6 + 3) % 6], e, shadow=shadow_for(perms3[(n // 6 + 3) % 6])))
    # (a') the smallest orderings: NO variable at all (constant expressions only; str(o) is then 'lambda: <root>') and one variable
    c0, c1 = ('c', False, '0'), ('c', True, '1')
    for e in all_exprs(2, [c0, c1]):
        hs.append(case_history([], e))
    for e in all_exprs(2, [('v', 1), c0, c1]):
        hs.append(case_history([1], e))
    n_exh = len(hs) - n_corpus - n_variants
    # (b) depth 3 over 3 variables and depth 4 over 4 variables, sampled, mixed spellings (keywords, n-ary and/or,
    #     True/False), every sample under one random argument order (thorough: two)
    for depth, nv, count in ((3, 3, 20000 if R.thorough else 1500), (4, 4, 12000 if R.thorough else 900)):
        perms = perms3 if nv == 3 else perms4
        vs = list(range(nv))
        for _ in range(count):
            e = B.rand_expr(rng, depth, vs, p_kw=0.35, p_const=0.06)
            while B.edepth(e) < depth - 1:
                e = B.rand_expr(rng, depth, vs, p_kw=0.35, p_const=0.06)
            for O in rng.sample(perms, 2 if R.thorough else 1):
                hs.append(case_history(O, e, mixed=e, full=rng.random() < 0.2, shadow=shadow_for(O)))
    n_rt = len(hs) - n_corpus
    # (c) missing variable: argument list / ordering lacks a variable the expression uses
    pool = [h for h in hs if h['kind'] == 'roundtrip' and B.evars(h['e'])]
    for h in rng.sample(pool, min(len(pool), 6000 if R.thorough else 700)):
        gone = rng.choice(sorted(B.evars(h['e'])))
        hs.append(error_history([v for v in h['O'] if v != gone], h['ops'][h['first'] + 1][3]))
    # (d) non-Boolean syntax inside an otherwise fine expression, and text Python itself rejects
    for _ in range(4000 if R.thorough else 500):
        e = B.rand_expr(rng, rng.randint(0, 3), [0, 1, 2], p_kw=0.3, p_const=0.05, p_bad=0.35)
        if 'bad' not in repr(e):
            e = ('and', e, ('bad', rng.choice(B.BAD_FRAGMENTS)))
        O = rng.choice(perms3) if rng.random() < 0.8 else [0, 1]
        hs.append(error_history(O, e))
    # a non-Boolean operator directly UNDER a negation (~-a, not +a, ~~-a, not(a + b) ...): a double-negation shortcut may not skip it
    for frag in ('-a', '+a', '-1', '+0', 'a + b', 'a < b', '-(a & b)', 'a - b'):
        for kw1 in (False, True):
            inner = ('not', ('bad', B.rn(frag)), kw1)
            for e in (inner, ('not', inner, False), ('not', inner, True), ('and', ('v', 1), inner), ('orl', (inner, ('v', 0)))):
                hs.append(error_history([0, 1, 2], e))
    for t in B.BAD_TEXTS:
        for O in ([0, 1, 2], [2, 0], []):
            hs.append(error_history(O, ('bad', t), text=t))
    for f in B.BAD_FRAGMENTS:
        hs.append(error_history([0, 1, 2], ('bad', f), text=f))
    for t in B.BAD_TEXTS_EXPR_ONLY:                # fine as a lambda body, ill-formed as a whole text
        hs.append(error_history([0, 1, 2], ('bad', t), text=t, lam=False))
    # (e) well-formed expressions that are not lambdas, through the one-argument form
    n_before = len(hs)
    for e in d2:
        if B.edepth(e) <= 1:
            hs.append(notlambda_history([0, 1, 2], e))
    for h in rng.sample(pool, min(len(pool), 4000 if R.thorough else 400)):
        src = h['ops'][h['first'] + rng.choice([0, 2])]
        hs.append(notlambda_history(h['O'], src[3], text=src[4]))
    for t in B.LEXICAL_VARIANTS + B.NARY_TEXTS:
        hs.append(notlambda_history([0, 1, 2, 3], B.struct_of_text(t), text=t))
    n_notlambda = len(hs) - n_before
    scale = 8 if R.thorough else 1

    def wide_expr(nv, min_nodes):
        """a random expression over ALL of nv variables whose reduced diagram (as a tree) has >= min_nodes inner nodes"""
        vs = list(range(nv))
        while True:
            e = B.rand_expr(rng, 4, vs, p_kw=0.35, p_const=0.03)
            t = B.tt_eval(e)
            if len(B.tt_support(t)) == nv and B.spec_nodes(B.spec_of_tt(t, vs)) >= min_nodes:
                return e
    # (w) wide printed forms under the usual names: 4-variable functions that depend on all four variables, big diagrams
    n_before = len(hs)
    for _ in range(250 * scale):
        e = wide_expr(4, 6)
        O = rng.choice(perms4)
        hs.append(case_history(O, e, mixed=e, full=rng.random() < 0.2, shadow=shadow_for(O)))
    n_wide = len(hs) - n_before
    # (g) connectives of other languages: the fixed corpus and random expressions respelt (all / one kind / one occurrence)
    n_before = len(hs)
    for t in FOREIGN_TEXTS:
        t = B.rn(t)
        for O in ([0, 1, 2], [1, 0, 2, 3]):
            hs.append(error_history(O, ('bad', t), text=t))
    foreign_styles = {}
    styles = sorted(FOREIGN)
    n = 0
    while n < 360 * scale:
        e = B.rand_expr(rng, rng.randint(1, 3), [0, 1, 2], p_kw=0.0, p_const=0.05)
        style, mode = styles[n % len(styles)], ('all', 'kind', 'one')[(n // len(styles)) % 3]
        t = foreign_text(rng, e, style, mode)
        if t is None:
            if not any(c in B.render(B.to_op(e)) for c in FOREIGN[style]):
                continue
            n += 1
            continue
        n += 1
        foreign_styles[style + '/' + mode] = foreign_styles.get(style + '/' + mode, 0) + 1
        hs.append(error_history(rng.choice(perms3), ('bad', t), text=t))
    n_foreign = len(hs) - n_before
    # (f) the same streams under OTHER variable names (own renaming, see NAME_TABLES): round trips of every size of argument
    #     list, wide ones under the long names, a missing variable, an expression through the one-argument form
    named = []
    for ti, names in enumerate(NAME_TABLES):
        mine = []
        with using_names(names):
            for k in range((200 if ti in LONG_TABLES else 110) * scale):
                if ti in LONG_TABLES and k % 4:
                    nv = 4 if k % 4 == 1 else 3
                    e = wide_expr(nv, nv + 1)
                else:
                    nv = (4, 3, 4, 2, 4, 3, 1, 4)[k % 8]
                    e = B.rand_expr(rng, min(4, nv + 1), list(range(nv)), p_kw=0.35, p_const=0.05)
                O = list(rng.choice(perms4))[:] if nv == 4 else [v for v in rng.choice(perms4) if v < nv]
                if k % 8 == 5:
                    O = rng.choice(perms4)                  # an ordering with a variable the expression cannot use
                h = case_history(O, e, mixed=e, full=rng.random() < 0.2, shadow=shadow_for(O) if len(O) >= 2 else None)
                mine.append(h)
                if k % 5 == 0 and B.evars(e):
                    gone = rng.choice(sorted(B.evars(e)))
                    mine.append(error_history([v for v in O if v != gone], e))
                if k % 9 == 0:
                    src = h['ops'][h['first'] + rng.choice([0, 2])]
                    mine.append(notlambda_history(O, src[3], text=src[4]))
        for h in mine:
            h['names'] = list(names)
        named.append(mine)
    n_named = sum(len(m) for m in named)
    R.rule = ('(0) corpus first: %d statement-shaped texts (a = b, a; b, return a, x = lambda a: a, lambda a: a; 1, a += b, del a, pass, import a, '
              'multi-line text ...) as expression text, as the whole lambda text and as a lambda body -> SyntaxError, pool unchanged; %d lexical '
              'variants (leading blanks, comments, line continuation, redundant brackets, 0b1/0x0) read with Python\'s own parser -> same OBDD in '
              'both notations; %d texts with keyword chains of 4-8 operands (one BoolOp node), under two argument orders; '
              % (len(B.STATEMENT_TEXTS), len(B.LEXICAL_VARIANTS), len(B.NARY_TEXTS)) +
              '(a) every expression over ~ & | of depth <= 2 with leaves a, b, c, 0, 1 (%d expressions): depth <= 1 under all 6 argument orders, '
              'depth 2 under %s; (b) random expressions of depth 3 over a..c and depth 4 over a..d with mixed spellings (& | ~ / and or not, '
              'keyword chains of 2-6 operands, 0 1 True False), minimal or full bracketing, under random argument orders; each case builds the expression '
              'form, the lambda form, both keyword forms, OBDD(str(o.root), o.ordering) and OBDD(str(o)) and compares all six pairwise (==, root '
              'identity), plus the printed root token by token with the model printer; whenever the argument order has >= 2 variables a seventh '
              'OBDD (quick tier: for half of the depth-2 cases of (a), for all others) is built FIRST and kept alive to the end: one of the four texts (rotating: expression form, lambda form, keyword form, keyword '
              'lambda form) under ANOTHER argument order (reversed / rotated / first two swapped), so two orderings with the same variables and the '
              'same text are alive together and the seventh must differ from the six unless the function is constant; (c) the same expressions with one used variable removed '
              'from the ordering / argument list -> RuntimeError in both notations; (d) non-Boolean fragments (%d kinds: + - call if-else ^ '
              'subscripts, EVERY comparison operator < <= > >= == != in not-in is is-not, chained and mixed comparisons, comparisons with 0/1, '
              'shifts, division, power, set/dict/tuple displays, comprehension, slice, f-string ...) planted in random expressions and %d ill-formed texts (dangling operator, empty string, unbalanced brackets, '
              'indentation, walrus, star, <> !== =< =>) -> SyntaxError in both notations, the pool unchanged; (e) well-formed Boolean expressions '
              'that are NOT lambdas (all of depth <= 1, a sample of the texts of (a)/(b) in both spellings, the lexical variants and long chains) '
              'through the one-argument form OBDD(text) -> SyntaxError, pool unchanged. A case = (text, argument order); non-trivial = the diagram '
              'of the expression has >= 2 internal nodes (error cases: the rejected text has at least one operator)'
              % (len(d2), 'all 6' if R.thorough else '1-2 of the 6 (rotating)', len(B.BAD_FRAGMENTS), len(B.BAD_TEXTS)) +
              '; (w) %d WIDE round trips under the usual names: random depth-4 expressions that depend on all four variables and whose diagram '
              'has >= 6 inner nodes (printed lambdas of 60-130 characters), all seven slots as in (b); (g) connectives of OTHER languages -> '
              'SyntaxError in both notations: a corpus of %d texts (!a, a && b, a || !b, a AND b, NOT a, the mathematical signs, ->, <=>, xor, '
              "a', /\\ ...) under two argument orders and random expressions of depth 1-3 respelt in %d styles (%s), every connective / every "
              'occurrence of one connective / a single occurrence (each text checked to be rejected by Python\'s own parser); (f) OTHER VARIABLE '
              'NAMES - %d name tables of the check\'s own (%s): under each of them random round trips (all seven slots, printed root against the '
              'model printer) over 1-4 variables incl. argument lists with a variable the expression does not use, a missing variable '
              '(RuntimeError) and an expression through the one-argument form (SyntaxError); under the two LONG tables three quarters of the '
              'expressions depend on all their 3-4 variables and have big diagrams, so str(o) has 100-600 characters'
              % (n_wide, len(FOREIGN_TEXTS), len(FOREIGN), ', '.join(sorted(FOREIGN)), len(NAME_TABLES),
                 '; '.join(' '.join(t[:4]) for t in NAME_TABLES)))
    batches = B.chunks(hs, 60)
    for mine in named:
        batches.extend(B.chunks(mine, 40))       # one name table per batch (see batch); smaller: these histories are the big ones
    all_hs = hs + [h for mine in named for h in mine]
    results = B.parallel(batch, batches)
    kinds = {'statement_corpus': n_corpus, 'lexical_variants_and_long_keyword_chains': n_variants, 'exhaustive_depth<=2': n_exh,
             'sampled_depth3/4': n_rt - n_exh - n_variants,
             'error_cases': len(hs) - n_rt - n_corpus - n_notlambda - n_wide - n_foreign,
             'expression_through_the_one_argument_form': n_notlambda,
             'wide_roundtrips_usual_names': n_wide, 'foreign_connectives': n_foreign,
             'under_other_variable_names(all kinds)': n_named,
             'roundtrip_cases_with_a_second_ordering_alive': sum(1 for h in all_hs if h.get('first'))}
    chain = {}

    def widest(e):
        t = e[0]
        if t in ('v', 'c', 'bad'):
            return 0
        if t == 'not':
            return widest(e[1])
        if t in ('and', 'or'):
            return max(2, widest(e[1]), widest(e[2]))
        return max([len(e[1])] + [widest(x) for x in e[1]])
    for h in all_hs:
        if h['kind'] in ('roundtrip', 'variant'):
            w = widest(h['ops'][h.get('first', 0) + (1 if h['kind'] == 'roundtrip' else 0)][3])
            chain[w] = chain.get(w, 0) + 1
    errors, sizes, depths, plen, by_table = {}, {}, {}, {}, {}
    fmt_ok = fmt_all = 0
    for bt, res in zip(batches, results):
        for h, (viol, info, extra) in zip(bt, res):
            R.evaluations += 1
            for v in viol:
                with using_names(h.get('names')):
                    B.report_violation(R, 'C18', h, v, extra={'kind': h['kind'], 'names': h.get('names')})
            if viol:
                continue
            if h['kind'] == 'notlambda':
                st = info[1]['status']
                errors['one-argument form:' + st] = errors.get('one-argument form:' + st, 0) + 1
                if any(c in h['ops'][1][4] for c in '&|~') or ' ' in h['ops'][1][4].strip():
                    R.nontriv(('notlambda', h['ops'][1][4]))
                continue
            if h['kind'] == 'roundtrip':
                f0 = h['first']
                internal = info[f0]['shape'][0][0]
                sizes[internal] = sizes.get(internal, 0) + 1
                d = B.edepth(h['e'])
                depths[d] = depths.get(d, 0) + 1
                fmt_all += 1
                fmt_ok += bool(extra[1])
                bucket = '<40' if extra[2] < 40 else '40-79' if extra[2] < 80 else '80-159' if extra[2] < 160 else '160-319' if extra[2] < 320 else '>=320'
                plen[bucket] = plen.get(bucket, 0) + 1
                tab = NAME_TABLES.index(h['names']) if h.get('names') else -1
                by_table[tab] = by_table.get(tab, 0) + 1
                if internal >= 2:
                    R.nontriv((h['ops'][f0 + 1][4], tuple(h['O'])))
                    if internal >= 4:
                        R.sample({'lambda': B.lambda_text(h['O'], h['ops'][f0 + 1][4]), 'keywords': h['ops'][f0 + 2][4], 'str(root)': extra[0],
                                  'internal_nodes': internal})
            elif h['kind'] == 'variant':
                R.nontriv(('variant', h['ops'][0][4]))
            else:
                st = info[1]['status']
                errors[st] = errors.get(st, 0) + 1
                if info[2]['status'] != st:
                    raise B.MachineryError('oracle: notations differ')
                if any(c in h['ops'][1][4] for c in '&|~+-<^(!') or ' ' in h['ops'][1][4].strip():
                    R.nontriv(('err', h['ops'][1][4], tuple(h['O'])))
    R.cov['distribution'] = {'cases': kinds, 'expected_errors': errors, 'widest_connective(operands)': {str(k): v for k, v in sorted(chain.items())}, 'expression_depth': {str(k): v for k, v in sorted(depths.items())},
                             'diagram_internal_nodes': {str(k): v for k, v in sorted(sizes.items())},
                             'len(str(o))_of_round_trips': plen, 'foreign_connective_texts(style/mode)': foreign_styles,
                             'round_trips_by_name_table': {('bddlib.NAMES' if k < 0 else ' '.join(NAME_TABLES[k][:4])): v
                                                           for k, v in sorted(by_table.items())}}
    R.cov['internal_agreement'] = {'str(obdd) == "lambda <ordering>: " + str(root)': '%d/%d' % (fmt_ok, fmt_all)}
    R.cov['informational'] = ('not part of the violation logic: constants other than 0/1 (2, None, "x", ...) raise SyntaxError through the deprecated '
                              'ast attribute node.n (DeprecationWarning on 3.12, gone in 3.14; the worker runs with -W ignore); floats 1.0/0.0 are '
                              'accepted as 1/0; lambda forms with positional-only / keyword-only / star arguments drop those arguments from the ordering')
    R.exhaustive = False


def replay(R, data):
    names = data['data'].get('names')
    if names:
        print('variable names of this case: %s (bddlib.NAMES swapped, worker c18_worker.py)' % (names,))
    with using_names(names):
        replay_named(R, data)


def replay_named(R, data):
    B.replay_history(R, data)
    d = data['data']
    ops = B.norm_ops(d['ops'])
    main = [n for n, op in enumerate(ops) if op[0] == 'parse' and op[1] == 0]
    if d.get('kind') == 'roundtrip' and main:
        h = {'psize': d['psize'], 'ops': ops[:main[0] + 1]}
        lib = B.run_library([h], want_str=True)[0]
        out = model_batch([['printbdd', ops[main[0]][2], B.sx(ops[main[0]][3])]])[0]
        s = lib[main[0]]['strs'][0]
        print('printed root: library %r -> tokens %s' % (s[0] if s != '-' else s, B.tokens_of(s[0]) if s != '-' else None))
        print('              model   %s' % (out,))
        if s != '-' and out[0] == 'ok' and B.tokens_of(s[0]) != B.model_tokens(out[1]):
            R.violation('replayed: printed root differs from the model printer', d)
