"""run.py <Cxx> - entry point of one property check (called by /verif/check)."""
import sys, os, json, traceback
sys.path.insert(0, os.path.dirname(os.path.abspath(__file__)))
import common
from common import Run, load_known_findings


def main():
    pid = sys.argv[1]
    import importlib
    mod = importlib.import_module('props_' + pid.lower())
    R = Run(pid, level=getattr(mod, 'LEVEL', 'proof'))
    replay = os.environ.get('PMC_VERIF_REPLAY', '')
    try:
        if replay:
            data = json.load(open(replay))
            mod.replay(R, data)
        else:
            R.run_gate()
            mod.run(R)
    except Exception:
        # a crash of the machinery is not a verdict about the repository
        traceback.print_exc()
        print('CHECK-ERROR property=%s (machinery failure, not a violation)' % pid)
        sys.exit(2)
    sys.exit(R.finish())


if __name__ == '__main__':
    main()
