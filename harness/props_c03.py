"""C03 - CTL* model checking is exact for arbitrary quantifier / path-operator nesting.
Theorem (Properties/C03.v): exactness of the elimination scheme on top of C01 and C02.
Correspondence: CTLS.modelcheck on live objects vs the extracted model."""
from common import *
from mccheck import *
import props_c03_streams as X3
LEVEL = 'proof'

KFS = [
    {'id': 'KF-print-a', 'what': "printed-form identity: And(A(X('p')), Not(AtomicProposition... see DESIGN D10) - CTL* inherits the CTL/LTL memo and closure collisions"},
    {'id': 'KF-C03-a', 'what': "fresh atom '[E(X(p))]' collides with a formula atom of that name that labels no state: And(E(X('p')), Not(AtomicProposition('[E(X(p))]')))"},
]


def known_finding_probe(R):
    import pyModelChecking.CTLS as C
    kd = {'S': [0, 1], 'S0': [], 'R': [(0, 1), (1, 1)], 'L': {0: [], 1: ['p']}}
    K = kd_py(kd)
    # D11: E X p holds at 0 and 1; the extra conjunct is true everywhere (no state is labelled '[E(X(p))]')
    f = C.And(C.E(C.X('p')), C.Not(C.AtomicProposition('[E(X(p))]')))
    r = call(lambda: C.modelcheck(K, f))
    if r[0] == 'ok' and sorted(r[1]) != [0, 1]:
        R.known_hits['KF-C03-a'] = 1
        known_finding_line('C03', 'KF-C03-a', KFS[1]['what'] + ' (got %s, exact answer [0, 1])' % sorted(r[1]))
    else:
        R.cov.setdefault('known_finding_no_longer_reproduces', []).append('KF-C03-a')
    # D10 through the CTL back end: the quantifier-free skeleton is checked by CTL.modelcheck with its memo
    K2 = kd_py({'S': [0, 1], 'S0': [], 'R': [(0, 1), (1, 0)], 'L': {0: ['p'], 1: []}})
    f2 = C.Or(C.AtomicProposition('(p or q)'), C.Or('p', 'q'))
    r2 = call(lambda: C.modelcheck(K2, f2))
    if r2[0] == 'ok' and sorted(r2[1]) != [0]:
        R.known_hits['KF-print-a'] = 1
        known_finding_line('C03', 'KF-print-a', "memo keyed by printed form (via the CTL back end): Or(AtomicProposition('(p or q)'), Or('p','q')) (got %s, exact answer [0])" % sorted(r2[1]))
    else:
        R.cov.setdefault('known_finding_no_longer_reproduces', []).append('KF-print-a')


def backend_tags(f, tags):
    """which back end answers each quantified subformula (mirrors _checkQuantifiedFormula)"""
    t = f[0]
    if t in ('true', 'false', 'ap'):
        return f
    if t in ('A', 'E'):
        g = backend_tags(f[1], tags)
        q = (t, g)
        if is_ctl_state(q):
            tags['CTL'] = tags.get('CTL', 0) + 1
        elif t == 'A':
            tags['LTL'] = tags.get('LTL', 0) + 1
        else:
            tags['E-via-notAnot'] = tags.get('E-via-notAnot', 0) + 1
        return ('ap', '#')
    return (t,) + tuple(backend_tags(g, tags) for g in f[1:])


def ctls_pool(rng, n, depth):
    out = []
    for _ in range(n):
        out.append(rand_ctls_state(rng, depth))
    return out


def cases(R):
    rng = R.rng
    small = list(all_kripkes(1)) + list(all_kripkes(2))
    out = []
    # quantifier over every path formula with <= 1 operator, both quantifiers, plus negation / nesting
    ops1 = path_formulas_ops(1)
    ops2 = path_formulas_ops(2)
    base = [(q, g) for q in 'AE' for g in ops1]
    nest = [(q, (o, (q2, g))) for q in 'AE' for o in 'XFG' for q2 in 'AE' for g in rng.sample(ops1, 12)]
    nest += [(q, ('U', (q2, g), h)) for q in 'AE' for q2 in 'AE' for g in rng.sample(ops1, 6) for h in rng.sample(ops1, 3)]
    pool = base + nest + [(q, g) for q in 'AE' for g in rng.sample(ops2, 400 if R.thorough else 120)]
    pool += [('not', f) for f in rng.sample(pool, 40)] + [('and', f, g) for f in rng.sample(pool, 8) for g in rng.sample(pool, 4)]
    for f in pool:
        for kd in rng.sample(small, 20 if R.thorough else 4):
            out.append((kd, f))
    if R.thorough:
        k3 = list(all_kripkes(3))
        for f in rng.sample(pool, 600):
            for kd in rng.sample(k3, 6):
                out.append((kd, f))
    for _ in range(30000 if R.thorough else 1500):
        out.append((rand_kripke(rng, rng.randint(1, 4)), rand_ctls_state(rng, rng.randint(1, 3))))
    return out


def run(R):
    R.rule = ('(Kripke structure, CTL* state formula): A/E over every path formula with <= 1 operator, sampled 2-operator bodies, '
              'nested quantifiers under X/F/G/U, Boolean combinations, on sampled structures with <= 2 states (3 in thorough), '
              'random <= 4 states / depth <= 3; non-trivial = temporal operator present and answer neither empty nor all states; '
              'cases are tagged by the back end that answers each quantifier (CTL / LTL / E-via-not-A-not). '
              'PRESENTATIONS: a sample of the cases is re-run with the states renamed (1-based / sparse / negative ints, strings, tuples with a None field, '
              'mutually unorderable mixed types; the model stays on numbers) and with label containers that are not sets (frozenset, list, tuple, installed '
              'through replace_labelling_function). TEXT: a sample is passed as hand-written concrete syntax with multi-character atom names. '
              'LIVE STRUCTURES (mccheck.run_live): sessions on ONE Kripke object - queries interleaved with edits of its owner through the public API '
              '(labels(s) add/discard, replace_labelling_function with set/frozenset/list/shared containers, add_edge, a new state with its edges and '
              'labels) - with a pool of formula OBJECTS (composed from shared sub-objects) reused across the calls (now and then also passed to '
              'CTL/LTL.modelcheck); every answer must equal the proved model on the presentation read back at the time of the call, every formula object '
              'must keep its tree, K must be left alone, returned sets are cleared / polluted by the caller after being recorded STACKED NEGATIONS: random formulas with 2-4 negations stacked on random subformulas (under quantifiers, between temporal operators, over derived operators and constants), object and text channel. JOINED ATOM NAMES: atom names of which one is the concatenation / blank- or comma-join / repetition / case variant of others ({p, q} and {pq} are different label sets), most structures with a state of each kind. '
              'BUILT STRUCTURES (props_c03_streams.run_built): the Kripke object is built by recorded public-API steps on a total core - new states '
              'enter through add_edge / add_node and are NEVER labelled by the caller (or labelled afterwards through labels(s).update); in a quarter '
              'of the cases the caller also deletes the entries of label-less states from the labelling dict (its own, installed by '
              'replace_labelling_function, or the one returned by labelling_function()) - nested-quantifier formulas, model on the presentation read '
              'back. OBJECT STATES: a sample of all the above with states that are plain instances hashed by IDENTITY, instances holding a lock '
              '(cannot be copied / pickled), or a mixture with ints: every element of the answer must be one of K\'s own state objects. '
              'LONG DETERMINISTIC STRUCTURES (run_long): rings, chains into a loop and merging chains with 1100-3000 states and random labellings x '
              'random CTL formulas with 1-3 temporal operators (answered by the CTL back end: EG/EU/AF/AU/AR/ER...) and a few non-CTL bodies; the exact '
              'answer is computed by an iterative evaluation along the unique path of each state (A = E there). '
              'STALE FALLBACK NAMES: structures labelled with the fresh name of a quantified subformula (computed innermost-first, nested quantifiers '
              'included) and with \'[<name>(k)]\' for a random set of indexes k in 0..11')
    known_finding_probe(R)
    cs = cases(R)
    tags = {}
    for _, f in cs:
        backend_tags(f, tags)
    R.cov['backend_histogram'] = tags
    run_mc(R, 'CTLS', cs, alias_every=3)
    long_structures(R, 'C03', 'CTLS')
    run_mc(R, 'CTLS', dense_cases(R.rng, 4000 if R.thorough else 500, 'CTLS'), label='_dense')
    # two different quantified subformulas whose printed forms share a long prefix (fresh-name / memo keys must tell them apart)
    run_mc(R, 'CTLS', long_prefix_cases(R.rng, 3000 if R.thorough else 300), label='_long_common_prefix', alias_every=0)
    # or/and nodes with 3-5 (or 1) operands, each a distinct temporal (possibly quantified) formula
    run_mc(R, 'CTLS', wide_cases(R.rng, 4000 if R.thorough else 400, 'CTLS'), label='_wide_connectives', alias_every=4)
    # negations stacked (not not phi, not not not phi) at random positions: over quantifiers, between temporal operators, over derived operators
    neg = stacked_negation_cases(R.rng, 4000 if R.thorough else 400, 'CTLS')
    run_mc(R, 'CTLS', neg, label='_stacked_negations', alias_every=4)
    # atom names of which one is the concatenation / join of others: {p, q} and {pq} are different label sets
    run_mc(R, 'CTLS', joined_name_cases(R.rng, 3000 if R.thorough else 300, 'CTLS'), label='_joined_atom_names', alias_every=4)
    # structures with 4-6 states and few distinct label sets, ALL installed with shared label-set objects, and formulas with nested
    # quantifiers: the fresh-atom labelling of the working clone must not leak from one state to the states that shared its set
    rng = R.rng
    extra = []
    for _ in range(6000 if R.thorough else 500):
        kd = rand_kripke(rng, rng.randint(4, 6), aps=('p',) if rng.random() < 0.5 else ('p', 'q'))
        f = rand_ctls_state(rng, rng.randint(2, 3))
        extra.append((kd, f))
    run_mc(R, 'CTLS', extra, label='_shared_label_sets', alias_every=1)
    # structures that ALREADY carry labels spelled like the fresh names the elimination will generate for the quantified
    # subformulas of the very formula being checked ('[' + str(subformula) + ']' and its first fallback), on arbitrary states:
    # the checker must not mistake such a label for the truth set of the subformula (the theorem has no hypothesis on K's labels)
    stale = stale_label_cases(rng, 4000 if R.thorough else 400, lambda: rand_ctls_state(rng, rng.randint(2, 3)))
    run_mc(R, 'CTLS', stale, label='_stale_fresh_looking_labels', alias_every=4)
    # the same cases under other presentations of the structure: states that are not 0..n-1 (1-based / sparse ints, strings, tuples with
    # a None field, mutually unorderable types) and label containers that are not sets (frozenset, list, tuple, installed through
    # replace_labelling_function): the working clone must be labelled with the fresh atoms all the same
    light = [c for c in cs if tcount(c[1]) <= 4]
    run_mc(R, 'CTLS', rng.sample(light, 10000 if R.thorough else 1000) + extra[::4] + stale[::4], label='_renamed_states', alias_every=0, varied=True)
    # the text channel with multi-character atom names
    run_text(R, 'CTLS', [c for c in rng.sample(light, 4000 if R.thorough else 400) + extra[::8] + neg[::3] if all(len(g) > 2 or g[0] not in NARY for g in subformulas(c[1]))])
    # one structure queried, edited by its owner and queried again; formula objects reused
    run_live(R, 'CTLS', 3000 if R.thorough else 250)
    # ---- second audit ----
    import time as _t
    t_audit2 = _t.time()
    # structures grown through the public API whose new states the caller never labels (and label entries the owner of the dict dropped)
    X3.run_built(R, X3.grown_cases(rng, 6000 if R.thorough else 600), '_grown_unlabelled')
    # states that are objects: identity-hashed instances, instances that cannot be copied; the answer must be made of K's own states
    X3.run_built(R, X3.object_state_cases(rng, rng.sample(light, 3000 if R.thorough else 300) + extra[::5] + stale[::8]), '_object_states')
    # labels spelled like the fresh names AND like members of their fallback family '[name(k)]', k in a random subset of 0..11
    stale2 = X3.stale_index_cases(rng, 4000 if R.thorough else 400, lambda: rand_ctls_state(rng, rng.randint(2, 3)))
    run_mc(R, 'CTLS', stale2, label='_stale_fallback_family', alias_every=4)
    run_mc(R, 'CTLS', stale2[::4], label='_stale_fallback_family_renamed', alias_every=0, varied=True)
    # long deterministic structures x random CTL formulas (the CTL back end of the CTL* checker) and a few non-CTL bodies
    t_long = _t.time()
    X3.run_long(R, 8 if R.thorough else 3, 80 if R.thorough else 30, 6 if R.thorough else 2)
    R.cov['second_audit_streams_wall_s'] = {'built+stale': round(t_long - t_audit2, 1), 'long': round(_t.time() - t_long, 1)}


def replay(R, data):
    st = data['data'].get('stream')
    if st == 'built structures':
        return X3.replay_built(R, data['data'])
    if st == 'long deterministic structures':
        return X3.replay_long(R, data['data'])
    replay_mc(R, data)
