"""parse_probe.py - differential test of the parser model (coq/Model/Parse.v, driver command
`(parse <LANG> "<text>")`) against the real Lark-based parsers of pyModelChecking.

For each of the four languages (one worker process each) the same strings are given to
`<Lang>.Parser()` and to the extracted model; compared are accept/reject, on accept the tree
(`tree_of`, never `==`) and that every node of the returned object belongs to the parser's own
language module (`langs_in`).  Categories:

  words4   all sequences of length <= 4 over the 17-word alphabet, joined by one space (88 740)
  words3x  all sequences of length <= 3 over that alphabet plus ~ | & "s t" orb Until Ab true_
  glue3    all sequences of length <= 3 over the 17 words with every choice of ''/' ' per gap
  printed  str(f) of random formulas of every language (CTL formulas in CTL's compact notation
           and in CTL* notation), every pool fed to every parser (so each language's valid
           strings reach the other three parsers)
  mutated  token-level delete / insert / swap / replace of the printed strings
  respaced printed strings with symbolic synonyms (~ | &), quoted atoms, and random glue
           ('' / blanks / tabs / newlines) between the tokens
  special  hand-written strings: no-space forms, quoted atoms, escapes, garbage characters
  deep6    (only with --deep) all 5- and 6-word sequences over {not or and A X U ( ) p}

Prints the counts and every mismatch; exit code 1 on any mismatch.

Usage: PYTHONPATH=/repo PYTHONHASHSEED=0 /venv/bin/python harness/parse_probe.py [--quick] [--deep] [--lang L]
"""
import sys, os, re, random, itertools, time, argparse
sys.path.insert(0, os.path.dirname(os.path.abspath(__file__)))
import common
from common import (Q, model_batch, lang_module, to_py, tree_of, langs_in, fparse, call,
                    rand_ctl, rand_path, rand_ctls_state, rand_pl)

LANGS = ('PL', 'CTLS', 'CTL', 'LTL')
WORDS17 = ['true', 'false', 'not', 'or', 'and', '-->', 'A', 'E', 'X', 'F', 'G', 'U', 'R', '(', ')', 'p', 'q']
EXTRA = ['~', '|', '&', '"s t"', 'orb', 'Until', 'Ab', 'true_']
ATOMS = ('p', 'q', 'Ab', 'AX', 'orb', 'true_', '_x1', 'Until')
SEED = int(os.environ.get('VERIF_SEED', '0'))
TOKEN_RE = re.compile(r'-->|[()~|&]|"(?:[^"\\]|\\.)*"|[A-Za-z_0-9]+')


# ----------------------------------------------------------------------------------------
# string generators
# ----------------------------------------------------------------------------------------
def seqs(alphabet, maxlen, sep=' '):
    for n in range(1, maxlen + 1):
        for t in itertools.product(alphabet, repeat=n):
            yield sep.join(t)


def glued(alphabet, maxlen):
    for n in range(1, maxlen + 1):
        for t in itertools.product(alphabet, repeat=n):
            for gaps in itertools.product(('', ' '), repeat=n - 1):
                yield ''.join(w + g for w, g in zip(t, gaps + ('',)))


def printed_pools(n):
    """valid printed strings, by pool name; the same for every worker (seeded)"""
    rng = random.Random(SEED * 7919 + 1)
    PLm, CTLSm, CTLm, LTLm = (lang_module(x) for x in LANGS)
    pools = {k: [] for k in ('PL', 'CTLS', 'CTLS_path', 'CTL_compact', 'CTL_as_CTLS', 'LTL', 'LTL_A')}
    for _ in range(n):
        d = rng.choice((1, 2, 2, 3, 3, 4))
        pools['PL'].append(str(to_py(rand_pl(rng, d, ATOMS), PLm)))
        pools['CTLS'].append(str(to_py(rand_ctls_state(rng, d, ATOMS), CTLSm)))
        pools['CTLS_path'].append(str(to_py(rand_path(rng, d, ATOMS, quant=True), CTLSm)))
        f = rand_ctl(rng, d, ATOMS)
        pools['CTL_compact'].append(str(to_py(f, CTLm)))
        pools['CTL_as_CTLS'].append(str(to_py(f, CTLSm)))
        g = rand_path(rng, d, ATOMS, quant=False)
        pools['LTL'].append(str(to_py(g, LTLm)))
        pools['LTL_A'].append(str(to_py(('A', g), LTLm)))
    return pools


def mutations(rng, s, k):
    toks = TOKEN_RE.findall(s)
    vocab = WORDS17 + EXTRA + list(ATOMS)
    out = []
    for _ in range(k):
        t = list(toks)
        kind = rng.choice(('del', 'ins', 'swap', 'rep'))
        if kind == 'del' and t:
            del t[rng.randrange(len(t))]
        elif kind == 'ins':
            t.insert(rng.randrange(len(t) + 1), rng.choice(vocab))
        elif kind == 'swap' and len(t) >= 2:
            i = rng.randrange(len(t) - 1)
            j = i + 1 if rng.random() < 0.7 else rng.randrange(len(t))
            t[i], t[j] = t[j], t[i]
        elif kind == 'rep' and t:
            t[rng.randrange(len(t))] = rng.choice(vocab)
        out.append(' '.join(t))
    return out


QUOTED = ['"a b"', '"x\\"y"', '"or"', '""', '"(p"', '"b\\\\"', '"caf\xe9"', '"A U"']
SYN = {'not': '~', 'or': '|', 'and': '&'}
GLUE = ['', '', '', ' ', ' ', '  ', '\t', '\n', '\r\n', '\f']


def respace(rng, s):
    toks = TOKEN_RE.findall(s)
    t2 = []
    for t in toks:
        if t in SYN and rng.random() < 0.5:
            t = SYN[t]
        elif t in ATOMS and rng.random() < 0.15:
            t = rng.choice(QUOTED)
        t2.append(t)
    mode = rng.random()
    out = []
    for i, t in enumerate(t2):
        out.append(t)
        if i + 1 < len(t2):
            a, b = t, t2[i + 1]
            wordish = (a[-1].isalnum() or a[-1] == '_') and (b[0].isalnum() or b[0] == '_')
            if mode < 0.5 and wordish:
                out.append(rng.choice((' ', ' ', '\t', '\n', '  ')))     # keep the words apart
            else:
                out.append(rng.choice(GLUE))                             # may merge words
    return ''.join(out)


SPECIAL = [
    '', ' ', '\t\n', 'p', ' p ', '(p)', '((p))', '( ( p ) )', '()', '(', ')', ')(', 'p)', '(p',
    '(p)or(q)', '(p)and(q)', '(p)-->(q)', 'p-->q', 'p--> q', 'p -->q', '~p', '~ p', '~~p', '~(p)', 'not(p)', 'notp',
    'not not p', 'p|q', 'p&q', 'p|q|r', 'p | q or r', 'p or q | r', 'p & q and r', 'p | q & r', 'p|q-->r',
    'p or q', 'p or q or r', 'p or q or r or s', 'p and q and r', 'p or q and r', 'p and q or r',
    '(p or q) and r', 'p or (q and r)', 'p --> q', 'p --> q --> r', '(p --> q) --> r', 'p --> (q --> r)',
    'p --> q or r', 'p or q --> r', 'not p or q', 'not (p or q)', '(not p) or q', 'not p --> not q',
    'p orb', 'p or1', 'p orand', 'p ortrue', 'p ornot q', 'p or_1', 'p or_', 'porq', 'p orq', 'p andq', 'p and1',
    'p Until', 'p Until q', 'pUq', 'p Uq', 'p U1', 'p Rq', 'p Release', 'p UU', 'p UU U', 'p Unot q', 'p UX q',
    'p orU', 'p orA F q', 'p andE X q', 'p UA', 'p RE', 'p orE', 'p ortrue_', 'p orfalse',
    'true', 'false', 'true_', 'truep', 'True', 'TRUE', 'true or false', 'not true', '(true)', 'true false',
    '"a b"', '"a b" or q', 'p or "a b"', '"a\\"b" or q', '"a\\\\" or q', '"a\\\\\\" or q', '"a\\\\\\"" or q',
    '"a\nb"', '"ab', '"', '""', '"" or ""', '"a""b"', '"a" "b"', 'p "a"', '"a" p', 'not "a"', '"\\"', '"\\\\"',
    '"not"', '"true"', '"(" or ")"', '"a\tb"', '"a\rb"', 'A "a"', 'A X "a b"', 'A("a" U "b")', '"caf\xe9"',
    'p # q', 'p -> q', 'p -- q', 'p - q', 'p --', 'p -', '-->', '--> p', 'p -->', 'p ---> q', 'p -->> q', 'p = q',
    'p ! q', '!p', 'p ; q', 'p, q', 'p.q', 'p $', '1p', 'p1', '1', 'p 1', '_', '_1', '__', 'p\x0bq', 'p\x0b or q',
    'caf\xe9', 'p or \xe9', 'p\x00', '[p]', '{p}', 'p || q', 'p && q', '||', '&&', '~', '|', '&', 'p |', '| p', 'p ~ q',
    'p | ~ q', 'p ~| q', '~ | ~',
    'A', 'E', 'X', 'F', 'G', 'U', 'R', 'or', 'and', 'not', 'A A', 'A E', 'E A', 'A X', 'A X p', 'A X X p', 'A F G', 'A F G q',
    'A G F p', 'A(G(F p))', 'A G(F p)', 'A(X p)', 'A (X p)', 'A((X p))', 'AX p', 'AXp', 'A Xp', 'EX p', 'AF p', 'AG p',
    'A(p U q)', 'A (p U q)', 'A p U q', 'A(p) U q', 'A((p) U q)', 'A((p) U (q))', 'A((p U q))', 'A(((p U q)))',
    'A((p or q) U r)', 'A(p or q U r)', 'A(p U q or r)', 'A(p U q) or r', 'A p U q or r', 'A(p U q U r)', 'A((p U q) U r)',
    'A(p U (q U r))', 'A(p U A(q U r))', 'A p U A q U r', 'A p U E q R r', 'E(p R q)', 'E p R q', 'A p', 'A (p)', 'A (p or q)',
    'A not p', 'A not X p', 'A not p U q', 'A (not p) U q', 'A true U p', 'A X true', 'not A X p', 'not A p U q',
    'not X', 'not X p', 'not (X p)', '(X p)', '(X p) or q', '(X) or p', 'X p', 'X p or q', 'X (p or q)', 'X p U q', 'X X p',
    'F p', 'G p', 'F G p', 'p U q', 'p R q', 'p U q U r', '(p U q) U r', 'p U (q U r)', 'p U q R r', 'p U q or r', 'p or q U r',
    '(p U q) or r', 'p or (q U r)', 'X p U X q', 'not p U not q', 'U U U', 'U U', 'R R R', 'A U U', 'A A U A', 'E E R E',
    'A (A U A)', 'A (U U U)', 'A U U U', 'X U X', 'or or or', 'and and and', 'or and or', 'not or not', 'not not',
    'A or A', 'A A or A', 'A or', '(A)', '(A p)', '(A X p)', '(A)or p', 'p or A', 'p or A X q', 'p U A', 'E F A G p',
    'A F E G p', 'A (F p)', 'A ((F p))', 'A ((F p)) or q', 'A (F p) U q', '((p)) U q', 'A ((p)) U q', 'A (((p)) U q)',
    'A X (p U q)', 'A X A (p U q)', 'A (X p U q)', 'A (X (p) U q)', 'A ((X p) U q)', 'E (G p) R q',
    'A (p --> q)', 'A G (p --> F q)', 'A G (p --> A F q)', 'A(G(p --> F(q)))', 'A(G((p --> A(F(q)))))',
    'AG(p --> AF q)', 'A G p --> A F q', '(A G p) --> (A F q)',
    'A', 'A p q', 'A X p q', 'p q', 'p (q)', '(p) q', '(p)(q)', 'p not q', 'p A q', 'p X q',
]
# long / deeply nested inputs (the model's fuel must never run out)
SPECIAL += [
    '(' * 150 + 'p' + ')' * 150, '(' * 150 + 'p' + ')' * 149, '(' * 150 + 'p or q' + ')' * 150,
    'not ' * 200 + 'p', '~' * 200 + 'p', 'A X ' * 100 + 'p', 'A F E G ' * 60 + 'p', 'X ' * 200 + 'p',
    ' or '.join(['p'] * 300), ' and '.join(['(p or q)'] * 150), '|'.join(['p'] * 300) + ' and q',
    'A(' * 100 + 'p' + ' U q)' * 100, 'A(' * 100 + 'p' + ' U q)' * 99, '(' * 100 + 'p' + ' --> q)' * 100,
    'p or' + 'or' * 100, 'p or ' + 'orb' * 100, 'x' * 2000, 'p U' + 'U' * 500,
]


DEEP_WORDS = ['not', 'or', 'and', 'A', 'X', 'U', '(', ')', 'p']


def build_cases(quick, deep=False):
    """list of (category, string); identical for the four languages"""
    rng = random.Random(SEED * 104729 + 3)
    cases = []
    if deep:     # optional: longer sequences over a reduced alphabet (nesting, chains, A ( ... ))
        cases += [('deep6', ' '.join(t)) for n in (5, 6) for t in itertools.product(DEEP_WORDS, repeat=n)]
    cases += [('words4', s) for s in seqs(WORDS17, 3 if quick else 4)]
    cases += [('words3x', s) for s in seqs(WORDS17 + EXTRA, 2 if quick else 3)]
    cases += [('glue3', s) for s in glued(WORDS17, 2 if quick else 3)]
    pools = printed_pools(300 if quick else 2500)
    for name in sorted(pools):
        uniq = sorted(set(pools[name]))
        cases += [('printed:' + name, s) for s in uniq]
        sample = uniq if len(uniq) <= 1500 else rng.sample(uniq, 1500)
        for s in sample:
            cases += [('mutated:' + name, m) for m in mutations(rng, s, 4)]
            cases += [('respaced:' + name, respace(rng, s)) for _ in range(2)]
    cases += [('special', s) for s in SPECIAL]
    seen = set()
    out = []
    for c in cases:
        if c not in seen:
            seen.add(c)
            out.append(c)
    return out


# ----------------------------------------------------------------------------------------
# one language
# ----------------------------------------------------------------------------------------
def real_outcome(parser, s):
    r = call(lambda: parser(s))
    if r[0] == 'ok':
        o = r[1]
        return ('ok', tree_of(o), tuple(sorted(langs_in(o))))
    return r


def run_lang(args):
    L, quick, deep = args
    t0 = time.time()
    cases = build_cases(quick, deep)
    strings = sorted({s for _, s in cases})
    parser = lang_module(L).Parser()
    real = {s: real_outcome(parser, s) for s in strings}
    t1 = time.time()
    model = {}
    CH = 40000
    for i in range(0, len(strings), CH):
        chunk = strings[i:i + CH]
        for s, a in zip(chunk, model_batch([['parse', L, Q(s)] for s in chunk], timeout=1800)):
            model[s] = ('ok', fparse(a[1])) if a[0] == 'ok' else ('err', str(a[1]))
    t2 = time.time()
    counts = {}
    mism = []
    for cat, s in cases:
        c = counts.setdefault(cat, {'n': 0, 'accepted': 0, 'rejected': 0, 'mismatch': 0})
        c['n'] += 1
        r, m = real[s], model[s]
        if r[0] == 'ok':
            c['accepted'] += 1
            good = (m[0] == 'ok' and m[1] == r[1] and r[2] == (L,))
        else:
            c['rejected'] += 1
            good = (m[0] == 'err' and r[1] == 'ParserError' and m[1] == 'ParserError')
        if not good:
            c['mismatch'] += 1
            mism.append((L, cat, s, r, m))
    return {'lang': L, 'counts': counts, 'mismatches': mism, 'strings': len(strings),
            't_real': t1 - t0, 't_model': t2 - t1}


# spellings hard-wired in Parse.v (uop_of_word, split_kw, classify, lex_start), per language
MODEL_SYMBOLS = {'Not': ['not', '~'], 'Or': ['or', '|'], 'And': ['and', '&'], 'Imply': ['-->'],
                 'A': ['A'], 'E': ['E'], 'X': ['X'], 'F': ['F'], 'G': ['G'], 'U': ['U'], 'R': ['R']}
MODEL_OPS = {'PL': ('Not', 'Or', 'And', 'Imply'),
             'CTLS': ('Not', 'Or', 'And', 'Imply', 'A', 'E', 'X', 'F', 'G', 'U', 'R'),
             'CTL': ('Not', 'Or', 'And', 'Imply', 'A', 'E', 'X', 'F', 'G', 'U', 'R'),
             'LTL': ('Not', 'Or', 'And', 'Imply', 'A', 'X', 'F', 'G', 'U', 'R')}


def check_symbols():
    """the live symbol tables must be the ones the model was written for"""
    bad = 0
    for L in LANGS:
        import importlib
        alpha = importlib.import_module('pyModelChecking.%s.language' % L).alphabet
        live = {k: list(c.symbols) for k, c in alpha.items() if k not in ('Bool', 'AtomicProposition')}
        want = {k: MODEL_SYMBOLS[k] for k in MODEL_OPS[L]}
        bools = dict(alpha['Bool'].symbols)
        if live != want or bools != {True: 'true', False: 'false'}:
            print('SYMBOL TABLE MISMATCH %s: live %r %r, model %r' % (L, live, bools, want))
            bad += 1
    return bad


def main():
    ap = argparse.ArgumentParser()
    ap.add_argument('--quick', action='store_true')
    ap.add_argument('--deep', action='store_true', help='add all 5- and 6-word sequences over 9 words')
    ap.add_argument('--lang', action='append')
    ap.add_argument('--max-print', type=int, default=60)
    a = ap.parse_args()
    langs = a.lang or list(LANGS)
    symbad = check_symbols()
    print('symbol tables of the live modules %s the model' % ('DIFFER from' if symbad else 'agree with'))
    import multiprocessing as mp
    with mp.Pool(len(langs)) as pool:
        results = pool.map(run_lang, [(L, a.quick, a.deep) for L in langs])
    total = 0
    bad = symbad
    for res in results:
        print('== %s: %d cases (%d distinct strings), real %.1fs, model %.1fs'
              % (res['lang'], sum(c['n'] for c in res['counts'].values()), res['strings'],
                 res['t_real'], res['t_model']))
        for cat in sorted(res['counts']):
            c = res['counts'][cat]
            print('   %-22s n=%6d accepted=%6d rejected=%6d mismatches=%d'
                  % (cat, c['n'], c['accepted'], c['rejected'], c['mismatch']))
            total += c['n']
            bad += c['mismatch']
    for res in results:
        for (L, cat, s, r, m) in res['mismatches'][:a.max_print]:
            print('MISMATCH %s [%s] %r\n    real : %r\n    model: %r' % (L, cat, s, r, m))
        if len(res['mismatches']) > a.max_print:
            print('... %d more mismatches for %s' % (len(res['mismatches']) - a.max_print, res['lang']))
    print('TOTAL cases=%d mismatches=%d' % (total, bad))
    sys.exit(1 if bad else 0)


if __name__ == '__main__':
    main()
