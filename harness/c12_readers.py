"""c12_readers.py - the ways callers READ compute_SCCs (helper of props_c12).

compute_SCCs is a generator function: an evaluation lives from the moment it is asked for until it is exhausted, closed or
forgotten.  A "reading" is a small script over several graph objects and several evaluation HANDLES:

  ['new', g]            ask for the components of graph g (nothing is read yet); handles are numbered in creation order
  ['read', h, k]        read at most k further components from handle h (k >= 99: to the end)
  ['close', h]          h.close()
  ['drop', h]           forget the handle (the suspended generator is garbage)
  ['edge', g, a, b]     g.add_edge(a, b)   } only carried out while NO evaluation of g is suspended in the middle
  ['node', g, v]        g.add_node(v)      } (editing a graph during the consumption of its components is outside the property)

graphs: [{'V': .., 'E': ..} | {'clone_of': i}]; two handles over one index read the SAME object.

What must hold for every handle (checked by reader_bad against the proved model): the components read are pairwise disjoint,
distinct members of the SCC partition of the graph at ONE well-defined moment - as it was when the evaluation was first read
(what the lazy library does) or as it was when the evaluation was asked for - and all of that partition if the handle was read to
the end; no read raises; reading changes no graph; the objects handed out keep their contents."""
from graphgen import rand_digraph, live_sx

END = object()
ALL = 99
PATTERNS = ('abandon', 'nested', 'lockstep', 'create-edit-consume', 'random')


def _graph(rng, nmax=5, nmin=1):
    n = rng.randint(nmin, nmax)
    V = list(range(n))
    rng.shuffle(V)
    E = rand_digraph(rng, n, rng.choice([0.2, 0.3, 0.4, 0.5]))
    rng.shuffle(E)
    return {'V': V, 'E': [list(e) for e in E]}


def _second(rng, nmax):
    """the other graph of a reading: the same object, a clone of it, or an unrelated graph"""
    t = rng.random()
    if t < 0.35:
        return None, 0
    if t < 0.5:
        return {'clone_of': 0}, 1
    return _graph(rng, nmax), 1


def _edits(rng, g, m, k):
    ops = []
    for _ in range(k):
        t = rng.random()
        if t < 0.4:
            ops.append(['edge', g, rng.randrange(m), rng.randrange(m)])              # between nodes that exist
        elif t < 0.8:
            a, b = rng.randrange(m + 2), rng.randrange(m + 2)                      # (probably) creating nodes
            if a < m and b < m:
                b = m
            ops.append(['edge', g, a, b])
            m = max(m, a + 1, b + 1)
        else:
            ops.append(['node', g, m])
            m += 1
    return ops, m


def pattern_abandon(graph, stops, resume):
    """readers that stop after k components (any() / next() / break) - closed, forgotten or kept - then the question is asked again"""
    s = []
    for i, (k, end) in enumerate(stops):
        s += [['new', 0], ['read', i, k]]
        if end in ('close', 'drop'):
            s.append([end, i])
    s += [['new', 0], ['read', len(stops), ALL]]
    if resume:                                                # a kept reader goes on after another one came and went
        s += [['read', i, ALL] for i, (k, end) in enumerate(stops) if end == 'keep']
    return {'pattern': 'abandon', 'graphs': [graph], 'script': s}


def pattern_nested(graphs, outer, inner, n_outer, inner_k=ALL):
    """for a in compute_SCCs(A): for b in compute_SCCs(B): ...   (B may be A)"""
    s = [['new', outer]]
    for i in range(n_outer + 1):
        s += [['read', 0, 1], ['new', inner], ['read', i + 1, inner_k]]
    return {'pattern': 'nested', 'graphs': graphs, 'script': s}


def rand_reading(rng, nmax=5, pattern=None):
    pat = pattern or rng.choice(PATTERNS)
    A = _graph(rng, nmax, 2 if pat != 'random' else 1)
    nA = len(A['V'])
    if pat == 'abandon':
        stops = [(rng.randint(0, nA), rng.choice(['close', 'drop', 'keep', 'keep'])) for _ in range(1 if rng.random() < 0.7 else 2)]
        return pattern_abandon(A, stops, rng.random() < 0.7)
    if pat == 'nested':
        B, gi = _second(rng, nmax)
        graphs = [A] + ([B] if B else [])
        return pattern_nested(graphs, 0, gi, nA, ALL if rng.random() < 0.7 else rng.randint(1, 2))
    if pat == 'lockstep':
        B, gi = _second(rng, nmax)
        graphs = [A] + ([B] if B else [])
        gs = [0, gi] + ([rng.choice([0, gi])] if rng.random() < 0.3 else [])
        s = [['new', g] for g in gs]
        if rng.random() < 0.6:                                # zip(): one component from each in turn
            for _ in range(nmax + 1):
                s += [['read', h, 1] for h in range(len(gs))]
        else:
            for _ in range(rng.randint(2, 2 * nmax)):
                s.append(['read', rng.randrange(len(gs)), rng.randint(1, 2)])
        order = list(range(len(gs)))
        rng.shuffle(order)
        s += [['read', h, ALL] for h in order]
        return {'pattern': pat, 'graphs': graphs, 'script': s}
    if pat == 'create-edit-consume':
        s = []
        if rng.random() < 0.4:
            s += [['new', 0], ['read', 0, ALL]]               # compute -> create -> edit -> consume
        h = len(s) // 2
        s.append(['new', 0])
        ed, m = _edits(rng, 0, nA, rng.randint(1, 3))
        s += ed
        nh = h + 1
        if rng.random() < 0.4:
            s.append(['new', 0])                              # a second evaluation asked for after the edits
            nh += 1
        if rng.random() < 0.3:
            s.append(['read', h, rng.randint(1, 2)])
            if nh > h + 1:
                s.append(['read', h + 1, ALL])
        order = list(range(h, nh))
        rng.shuffle(order)
        s += [['read', x, ALL] for x in order]
        return {'pattern': pat, 'graphs': [A], 'script': s}
    # random: anything
    B, gi = _second(rng, nmax)
    graphs = [A] + ([B] if B else [])
    sizes = [nA] + ([len(B['V']) if 'V' in B else nA] if B else [])
    s, nh = [], 0
    for _ in range(rng.randint(3, 10)):
        t = rng.random()
        if nh == 0 or t < 0.25:
            s.append(['new', rng.randrange(len(graphs))])
            nh += 1
        elif t < 0.65:
            s.append(['read', rng.randrange(nh), rng.choice([0, 1, 1, 1, 2, ALL])])
        elif t < 0.72:
            s.append([rng.choice(['close', 'drop']), rng.randrange(nh)])
        else:
            g = rng.randrange(len(graphs))
            ed, sizes[g] = _edits(rng, g, sizes[g], 1)
            s += ed
    order = list(range(nh))
    rng.shuffle(order)
    s += [['read', h, ALL] for h in order]
    return {'pattern': pat, 'graphs': graphs, 'script': s}


def exec_reading(case, call):
    """run one reading on live objects.  Returns (handles, notes, skipped edits); a handle is a dict: g, state, at_new / at_first
    (presentation of its graph when asked for / first read), copies (components copied when yielded), exhausted, err"""
    from pyModelChecking.graph import DiGraph, compute_SCCs
    graphs = []
    for spec in case['graphs']:
        if 'clone_of' in spec:
            graphs.append(graphs[spec['clone_of']].clone())
        else:
            graphs.append(DiGraph(V=list(spec['V']), E=[tuple(e) for e in spec['E']]))
    handles, notes, skipped = [], [], 0

    def step(h):
        c = next(h['gen'], END)
        return c if c is END else (c, list(c))

    for op in case['script']:
        if op[0] == 'new':
            G = graphs[op[1] % len(graphs)]
            h = {'g': op[1] % len(graphs), 'state': 'new', 'at_new': live_sx(G), 'at_first': None, 'held': [], 'copies': [],
                 'exhausted': False, 'err': None, 'gen': None}
            r = call(lambda: compute_SCCs(G))
            if r[0] != 'ok':
                h['err'], h['state'] = 'asking for the components raised %s' % r[1], 'done'
            else:
                h['gen'] = r[1]
            handles.append(h)
        elif op[0] == 'read':
            if op[1] >= len(handles):
                continue
            h = handles[op[1]]
            if h['state'] not in ('new', 'running') or op[2] <= 0:
                continue
            before = [live_sx(G) for G in graphs]
            if h['state'] == 'new':
                h['at_first'] = before[h['g']]
                h['state'] = 'running'
            for _ in range(op[2]):
                r = call(lambda: step(h))
                if r[0] != 'ok':
                    h['err'], h['state'] = 'reading component %d raised %s' % (len(h['copies']), r[1]), 'done'
                    break
                if r[1] is END:
                    h['exhausted'], h['state'] = True, 'done'
                    break
                h['held'].append(r[1][0])
                h['copies'].append(r[1][1])
            if [live_sx(G) for G in graphs] != before:
                notes.append('reading handle %d changed a graph' % op[1])
        elif op[0] in ('close', 'drop'):
            if op[1] >= len(handles):
                continue
            h = handles[op[1]]
            if h['gen'] is not None:
                if op[0] == 'close':
                    r = call(h['gen'].close)
                    if r[0] != 'ok':
                        notes.append('close() of handle %d raised %s' % (op[1], r[1]))
                h['gen'] = None
                if h['state'] != 'done':
                    h['state'] = 'closed'
        else:
            g = op[1] % len(graphs)
            if any(h['g'] == g and h['state'] == 'running' for h in handles):
                skipped += 1
                continue
            G = graphs[g]
            if op[0] == 'edge':
                call(lambda: G.add_edge(op[2], op[3]))            # a duplicate edge fails: the graph stays as it is
            else:
                call(lambda: G.add_node(op[2]))
    for i, h in enumerate(handles):
        now = call(lambda: [list(c) for c in h['held']])
        if now[0] != 'ok' or now[1] != h['copies']:
            notes.append('the components handed out by handle %d changed after they were yielded: now %r, at yield time %r' % (i, now[1], h['copies']))
        if len(set(map(id, h['held']))) != len(h['held']):
            notes.append('handle %d yields one object for several components' % i)
        h['gen'] = None
    return handles, notes, skipped


def presentations(handles):
    for h in handles:
        yield h['at_new']
        if h['at_first'] is not None:
            yield h['at_first']


def reader_bad(h, model):
    """what is wrong with what one handle gave (None = fine); model: presentation -> model components"""
    if h['err']:
        return h['err']
    flat = [x for c in h['copies'] for x in c]
    if any(type(x) is not int for x in flat):
        return 'a component contains an object that is not a node'
    S = [frozenset(c) for c in h['copies']]
    moments = [('first read', h['at_first']), ('asked for', h['at_new'])]
    seen = []
    for name, p in moments:
        if p is None or p in seen:
            continue
        seen.append(p)
        P = set(frozenset(int(x) for x in c) for c in model(p))
        if len(flat) == len(set(flat)) and len(set(S)) == len(S) and all(s in P for s in S) and (not h['exhausted'] or set(S) == P):
            return None
    return ('%s %r: %s of the SCC partition of its graph neither as it was when first read (%r) nor as it was when asked for (%r)'
            % ('read to the end it gave' if h['exhausted'] else 'stopped early it gave', h['copies'],
               'not the whole' if h['exhausted'] else 'not distinct members',
               h['at_first'], h['at_new']))
