"""common.py - shared machinery of the correspondence checks.

* talks to the extracted Coq model (coq/Extract/driver) over an s-expression line protocol,
* converts between harness-level values (formula tuples, Kripke dicts) and the live
  pyModelChecking objects of /repo's *current working tree*,
* generators (exhaustive small scope and seeded random),
* the proof gate (re-compiles Properties/Cxx.v, reads Print Assumptions),
* evidence / replay writers and the verdict logic.
"""
import sys, os, json, time, random, itertools, subprocess, hashlib, re, io, contextlib

VERIF = os.path.dirname(os.path.dirname(os.path.abspath(__file__)))
REPO = os.environ.get('PMC_REPO', '/repo')
COQ = os.path.join(VERIF, 'coq')
DRIVER = os.path.join(COQ, 'Extract', 'driver')
if sys.path[0] != REPO:
    sys.path.insert(0, REPO)

# ----------------------------------------------------------------------------------------
# s-expressions
# ----------------------------------------------------------------------------------------
class Q(str):
    """a quoted string in an s-expression (as opposed to a bare atom)"""
    pass


def sx_parse(s):
    """parse one s-expression produced by the driver -> nested lists / str / Q"""
    n = len(s)
    stack = [[]]
    i = 0
    while i < n:
        c = s[i]
        if c in ' \t\r\n':
            i += 1
        elif c == '(':
            stack.append([])
            i += 1
        elif c == ')':
            top = stack.pop()
            stack[-1].append(top)
            i += 1
        elif c == '"':
            j = i + 1
            buf = []
            while s[j] != '"':
                if s[j] == '\\':
                    d = s[j + 1]
                    if d == 'n':
                        buf.append('\n'); j += 2
                    elif d == 'x':
                        buf.append(chr(int(s[j + 2:j + 4], 16))); j += 4
                    else:
                        buf.append(d); j += 2
                else:
                    buf.append(s[j]); j += 1
            stack[-1].append(Q(''.join(buf)))
            i = j + 1
        else:
            j = i
            while j < n and s[j] not in ' \t\r\n()"':
                j += 1
            stack[-1].append(s[i:j])
            i = j
    assert len(stack) == 1 and len(stack[0]) == 1, s[:200]
    return stack[0][0]


def sx_str(x):
    if isinstance(x, Q):
        out = ['"']
        for ch in x:
            o = ord(ch)
            if ch == '"':
                out.append('\\"')
            elif ch == '\\':
                out.append('\\\\')
            elif ch == '\n':
                out.append('\\n')
            elif o < 32 or o > 126:
                if o > 255:
                    raise ValueError('non latin-1 atom')
                out.append('\\x%02x' % o)
            else:
                out.append(ch)
        out.append('"')
        return ''.join(out)
    if isinstance(x, bool):
        return '1' if x else '0'
    if isinstance(x, (list, tuple)):
        return '(' + ' '.join(sx_str(y) for y in x) + ')'
    return str(x)


def model_batch(cmds, timeout=600):
    """run the extracted model on a list of commands (nested lists); returns parsed answers"""
    if not cmds:
        return []
    data = '\n'.join(sx_str(c) for c in cmds) + '\n'
    p = subprocess.run([DRIVER], input=data, capture_output=True, text=True, timeout=timeout)
    lines = p.stdout.split('\n')
    if lines and lines[-1] == '':
        lines.pop()
    if len(lines) != len(cmds):
        raise RuntimeError('model driver returned %d answers for %d commands (rc=%s, stderr=%s)'
                           % (len(lines), len(cmds), p.returncode, p.stderr[:300]))
    out = []
    for c, l in zip(cmds, lines):
        r = sx_parse(l)
        if isinstance(r, list) and r and r[0] == 'fail':
            raise RuntimeError('model driver failed on %s: %s' % (sx_str(c)[:300], l[:300]))
        out.append(r)
    return out


def model_batch_parallel(cmds, jobs=8, timeout=900):
    """split a big batch over several driver processes"""
    if len(cmds) < 400 or jobs <= 1:
        return model_batch(cmds, timeout)
    from concurrent.futures import ThreadPoolExecutor
    size = (len(cmds) + jobs - 1) // jobs
    chunks = [cmds[i:i + size] for i in range(0, len(cmds), size)]
    with ThreadPoolExecutor(max_workers=jobs) as ex:
        res = list(ex.map(lambda c: model_batch(c, timeout), chunks))
    return [x for r in res for x in r]


def ints(x):
    return [int(a) for a in x]


# ----------------------------------------------------------------------------------------
# formulas: harness tuples <-> python objects <-> s-expressions
# ----------------------------------------------------------------------------------------
PYNAME = {'not': 'Not', 'or': 'Or', 'and': 'And', 'imp': 'Imply', 'X': 'X', 'F': 'F', 'G': 'G',
          'U': 'U', 'R': 'R', 'A': 'A', 'E': 'E'}
TAG = {v: k for k, v in PYNAME.items()}
UNARY = ('not', 'X', 'F', 'G', 'A', 'E')
BINARY = ('imp', 'U', 'R')
NARY = ('or', 'and')


def lang_module(name):
    import importlib
    return importlib.import_module('pyModelChecking.' + name)


def to_py(f, L):
    """build the python object of tree f bottom-up with the classes of language module L"""
    t = f[0]
    if t == 'true':
        return L.Bool(True)
    if t == 'false':
        return L.Bool(False)
    if t == 'ap':
        return L.AtomicProposition(f[1])
    return getattr(L, PYNAME[t])(*[to_py(g, L) for g in f[1:]])


def lang_of_obj(o):
    m = type(o).__module__
    parts = m.split('.')
    if len(parts) >= 2 and parts[0] == 'pyModelChecking' and parts[1] in ('PL', 'CTLS', 'CTL', 'LTL'):
        return parts[1]
    return m


def tree_of(o):
    """structure of a python formula object, read from class names and children (never ==)"""
    from pyModelChecking import language as BL
    name = type(o).__name__
    if name == 'Bool':
        return ('true',) if o._value else ('false',)
    if name == 'AtomicProposition':
        return ('ap', str(o.name))
    return (TAG[name],) + tuple(tree_of(c) for c in o.subformulas())


def langs_in(o):
    """set of language names of all nodes of a python formula object"""
    s = {lang_of_obj(o)}
    if type(o).__name__ not in ('Bool', 'AtomicProposition'):
        for c in o.subformulas():
            s |= langs_in(c)
    return s


def fsx(f):
    t = f[0]
    if t == 'true':
        return ['t']
    if t == 'false':
        return ['f']
    if t == 'ap':
        return ['a', Q(f[1])]
    return [t] + [fsx(g) for g in f[1:]]


def fparse(x):
    """driver s-expression of a formula -> tuple"""
    t = x[0]
    if t == 't':
        return ('true',)
    if t == 'f':
        return ('false',)
    if t == 'a':
        return ('ap', str(x[1]))
    return (t,) + tuple(fparse(y) for y in x[1:])


def fstr(f):
    """readable rendering of a formula tuple (for samples / replays)"""
    t = f[0]
    if t in ('true', 'false'):
        return t
    if t == 'ap':
        return f[1]
    if t in UNARY:
        return '%s(%s)' % (t, fstr(f[1]))
    return '(' + (' %s ' % t).join(fstr(g) for g in f[1:]) + ')'


def fheight(f):
    if f[0] in ('true', 'false', 'ap'):
        return 0
    return 1 + max(fheight(g) for g in f[1:])


def fsize(f):
    if f[0] in ('true', 'false', 'ap'):
        return 1
    return 1 + sum(fsize(g) for g in f[1:])


def subformulas(f):
    yield f
    if f[0] not in ('true', 'false', 'ap'):
        for g in f[1:]:
            yield from subformulas(g)


def fatoms(f):
    return {g[1] for g in subformulas(f) if g[0] == 'ap'}


TEMPORAL = ('X', 'F', 'G', 'U', 'R')


def is_pl(f):
    return all(g[0] not in TEMPORAL + ('A', 'E') for g in subformulas(f))


def is_ctl_state(f):
    t = f[0]
    if t in ('true', 'false', 'ap'):
        return True
    if t in ('not', 'or', 'and', 'imp'):
        return all(is_ctl_state(g) for g in f[1:])
    if t in ('A', 'E'):
        p = f[1]
        return p[0] in TEMPORAL and all(is_ctl_state(g) for g in p[1:])
    return False


def is_ctl_path(f):
    return f[0] in TEMPORAL and all(is_ctl_state(g) for g in f[1:])


def is_ltl_path(f):
    return all(g[0] not in ('A', 'E') for g in subformulas(f))


def is_ltl_state(f):
    return f[0] == 'A' and is_ltl_path(f[1])


def is_ctls_state(f):
    t = f[0]
    if t in ('true', 'false', 'ap', 'A', 'E'):
        return True
    if t in ('not', 'or', 'and', 'imp'):
        return all(is_ctls_state(g) for g in f[1:])
    return False


# ----------------------------------------------------------------------------------------
# Kripke structures: harness dicts <-> python objects <-> s-expressions
# ----------------------------------------------------------------------------------------
def mk_py_kripke(S, S0, R, L):
    from pyModelChecking import Kripke
    return Kripke(S=S, S0=S0, R=R, L=L)


def graph_sx(G, num=None):
    """model presentation of a live DiGraph: dict order and set iteration order read back"""
    num = num or (lambda v: v)
    return [[num(k), [num(d) for d in ds]] for k, ds in G._next.items()]


def kripke_sx(K, num=None):
    """model presentation of a live Kripke object (iteration orders read back from it)"""
    num = num or (lambda v: v)
    g = graph_sx(K, num)
    init = [num(s) for s in K.S0]
    # label entries of NON-states (possible after replace_labelling_function) are not part of the structure
    lab = [[num(s), [Q(str(a)) for a in sorted(K._labels[s], key=str)]] for s in K._labels if s in K._next]
    return [g, init, lab]


def kripke_snapshot(K):
    """deep, order-insensitive snapshot of a Kripke object incl. identity of label sets"""
    return (tuple(sorted((repr(s), tuple(sorted(map(repr, ds)))) for s, ds in K._next.items())),
            tuple(sorted(map(repr, K.S0))),
            tuple(sorted((repr(s), tuple(sorted(map(repr, ls)))) for s, ls in K._labels.items())))


def rand_kripke(rng, n, aps=('p', 'q'), maxdeg=3):
    states = list(range(n))
    succ = {s: rng.sample(states, rng.randint(1, min(n, maxdeg))) for s in states}
    lab = {s: sorted(a for a in aps if rng.random() < 0.5) for s in states}
    return {'S': states, 'S0': [s for s in states if rng.random() < 0.3],
            'R': [(s, d) for s in states for d in succ[s]], 'L': lab}


def all_kripkes(n, aps=('p', 'q')):
    """every total structure over states 0..n-1 and labels over aps"""
    states = list(range(n))
    succ_choices = [[c for r in range(1, n + 1) for c in itertools.combinations(states, r)] for _ in states]
    labsets = [list(c) for r in range(len(aps) + 1) for c in itertools.combinations(aps, r)]
    for succs in itertools.product(*succ_choices):
        for labs in itertools.product(labsets, repeat=n):
            yield {'S': states, 'S0': [], 'R': [(s, d) for s in states for d in succs[s]],
                   'L': {s: list(labs[s]) for s in states}}


def alias_labels(K):
    """re-install K's labelling through Kripke.replace_labelling_function with states of equal label set SHARING one set
    object (a legitimate state of a Kripke object: the method stores the caller's dict as it is); for an even number of
    distinct label sets the dict also carries an entry for an object that is not a state (e.g. one design-wide dict)"""
    groups, L = {}, {}
    for s in K.states():
        key = frozenset(K.labels(s))
        L[s] = groups.setdefault(key, set(key))
    if len(groups) % 2 == 0:
        L[10 ** 6 + 7] = set(a for ls in L.values() for a in ls) | {'p', 'q'}
    K.replace_labelling_function(L)
    return K


def kd_py(kd):
    K = mk_py_kripke(kd['S'], kd['S0'], kd['R'], kd['L'])
    return alias_labels(K) if kd.get('alias') else K


def kd_json(kd):
    j = {'S': list(kd['S']), 'S0': list(kd['S0']), 'R': [list(e) for e in kd['R']],
         'L': {str(k): list(v) for k, v in kd['L'].items()}}
    if kd.get('alias'):
        j['alias'] = 1          # labels installed with shared set objects (alias_labels)
    return j


def kd_from_json(j):
    kd = {'S': j['S'], 'S0': j['S0'], 'R': [tuple(e) for e in j['R']],
          'L': {int(k): v for k, v in j['L'].items()}}
    if j.get('alias'):
        kd['alias'] = 1
    return kd


# ----------------------------------------------------------------------------------------
# formula generators
# ----------------------------------------------------------------------------------------
def rand_leaf(rng, aps):
    r = rng.random()
    if r < 0.1:
        return ('true',)
    if r < 0.15:
        return ('false',)
    return ('ap', rng.choice(aps))


def rand_nary(rng, t, gen, allow1=False):
    """or/and node: 2 operands (80%) or 3; with a small probability the node is WIDE (4-9 operands): the operands beyond the
    first two are leaves (atoms that occur in the generated operands, true, false), so that the formula stays small while an
    operand in position >= 4 exists.  allow1 (only for checks that neither print nor parse the formula): a node with ONE
    operand with a small probability."""
    k = 2 if rng.random() < 0.8 else 3
    x = rng.random()
    if allow1 and x > 0.97:
        return (t, gen())
    ops = [gen() for _ in range(k)]
    if x < 0.05:
        w = rng.randint(4, 9) if x < 0.02 else rng.randint(4, 5)
        neutral, absorbing = (('false',), ('true',)) if t == 'or' else (('true',), ('false',))
        leaves = [('ap', a) for a in sorted(set(a for g in ops for a in fatoms(g)))] * 3 + [neutral, neutral, absorbing]
        ops = ops[:2] + [rng.choice(leaves) for _ in range(w - 2)]
        rng.shuffle(ops)
    return (t,) + tuple(ops)


def rand_ctl(rng, d, aps=('p', 'q')):
    if d == 0 or rng.random() < 0.2:
        return rand_leaf(rng, aps)
    t = rng.choice(['not', 'or', 'and', 'imp', 'Q', 'Q', 'Q', 'Q'])
    if t == 'not':
        return (t, rand_ctl(rng, d - 1, aps))
    if t in ('or', 'and'):
        return rand_nary(rng, t, lambda: rand_ctl(rng, d - 1, aps))
    if t == 'imp':
        return (t, rand_ctl(rng, d - 1, aps), rand_ctl(rng, d - 1, aps))
    q = rng.choice(['A', 'E'])
    o = rng.choice(['X', 'F', 'G', 'U', 'R'])
    if o in 'XFG':
        return (q, (o, rand_ctl(rng, d - 1, aps)))
    return (q, (o, rand_ctl(rng, d - 1, aps), rand_ctl(rng, d - 1, aps)))


def rand_path(rng, d, aps=('p', 'q'), quant=False):
    """LTL path formula (quant=False) or CTL* path formula (quant=True)"""
    if d == 0 or rng.random() < 0.2:
        return rand_leaf(rng, aps)
    ops = ['not', 'or', 'and', 'imp', 'X', 'F', 'G', 'U', 'R'] + (['A', 'E'] if quant else [])
    t = rng.choice(ops)
    if t in UNARY:
        return (t, rand_path(rng, d - 1, aps, quant))
    if t in NARY:
        return rand_nary(rng, t, lambda: rand_path(rng, d - 1, aps, quant))
    return (t, rand_path(rng, d - 1, aps, quant), rand_path(rng, d - 1, aps, quant))


def rand_ctls_state(rng, d, aps=('p', 'q')):
    if d == 0 or rng.random() < 0.15:
        return rand_leaf(rng, aps)
    t = rng.choice(['not', 'or', 'and', 'imp', 'Q', 'Q', 'Q', 'Q', 'Q'])
    if t == 'not':
        return (t, rand_ctls_state(rng, d - 1, aps))
    if t in ('or', 'and'):
        return rand_nary(rng, t, lambda: rand_ctls_state(rng, d - 1, aps))
    if t == 'imp':
        return (t, rand_ctls_state(rng, d - 1, aps), rand_ctls_state(rng, d - 1, aps))
    return (rng.choice(['A', 'E']), rand_path(rng, d - 1, aps, quant=rng.random() < 0.5))


def rand_pl(rng, d, aps=('p', 'q')):
    if d == 0 or rng.random() < 0.2:
        return rand_leaf(rng, aps)
    t = rng.choice(['not', 'or', 'and', 'imp'])
    if t == 'not':
        return (t, rand_pl(rng, d - 1, aps))
    if t in NARY:
        return rand_nary(rng, t, lambda: rand_pl(rng, d - 1, aps))
    return (t, rand_pl(rng, d - 1, aps), rand_pl(rng, d - 1, aps))


def all_trees(depth, leaves, unary, binary, nary=()):
    """all operator trees up to a depth over the given operators (n-ary ones with 2 operands)"""
    level = list(leaves)
    allf = list(level)
    for _ in range(depth):
        new = []
        prev = allf
        for u in unary:
            new.extend((u, f) for f in prev)
        for b in tuple(binary) + tuple(nary):
            new.extend((b, f, g) for f in prev for g in prev)
        seen = set(allf)
        for f in new:
            if f not in seen:
                seen.add(f)
                allf.append(f)
    return allf


# ----------------------------------------------------------------------------------------
# exceptions -> small enum
# ----------------------------------------------------------------------------------------
def exc_name(e):
    n = type(e).__name__
    if n in ('TypeError', 'RuntimeError', 'SyntaxError', 'ValueError'):
        return n
    if n in ('UnexpectedToken', 'UnexpectedCharacters'):
        return 'ParserError'
    return 'other:' + n


def call(fn):
    """run fn, swallowing stdout noise; returns ('ok', value) or ('err', enum)"""
    buf = io.StringIO()
    try:
        with contextlib.redirect_stdout(buf):
            v = fn()
        return ('ok', v)
    except RecursionError:
        return ('err', 'other:RecursionError')
    except Exception as e:  # noqa
        return ('err', exc_name(e))


def model_result(r):
    """driver answer (ok X)/(err E) -> ('ok', X) / ('err', E)"""
    return (r[0], r[1])


# ----------------------------------------------------------------------------------------
# proof gate
# ----------------------------------------------------------------------------------------
ALLOWED_AXIOMS = {'Classical_Prop.classic'}
FORBIDDEN = re.compile(r'\b(Admitted|admit|Axiom|Parameter|Conjecture|Abort All)\b|Unset Guard|bypass_check|type-in-type|impredicative-set')


def grep_forbidden():
    bad = []
    for root, _, files in os.walk(COQ):
        for fn in files:
            if fn.endswith('.v'):
                p = os.path.join(root, fn)
                txt = open(p).read()
                # strip comments (non-nested is enough for our sources)
                txt2 = re.sub(r'\(\*.*?\*\)', '', txt, flags=re.S)
                for m in FORBIDDEN.finditer(txt2):
                    bad.append('%s: %s' % (os.path.relpath(p, VERIF), m.group(0)))
    return bad


def proof_gate(pid, thorough=False):
    """make the development, re-compile Properties/<pid>.v, parse Print Assumptions.
    returns dict(obligations, discharged, theorems=[(name, axioms)], ok, log, checker_cmd)"""
    t0 = time.time()
    res = {'obligations': 0, 'discharged': 0, 'theorems': [], 'ok': False, 'log': '', 'failed': []}
    mk = subprocess.run(['timeout', '3000', 'make', '-C', COQ, '-j16', '-s'], capture_output=True, text=True)
    res['make_rc'] = mk.returncode
    if mk.returncode != 0:
        res['log'] = (mk.stdout + mk.stderr)[-3000:]
        # find which files failed
        res['failed'] = re.findall(r'File "\./([^"]+)"', mk.stdout + mk.stderr)
    pf = os.path.join(COQ, 'Properties', pid + '.v')
    if not os.path.exists(pf):
        res['log'] += '\nno property file ' + pf
        return res
    src = open(pf).read()
    src_nc = re.sub(r'\(\*.*?\*\)', '', src, flags=re.S)
    thms = re.findall(r'^\s*Theorem\s+(\w+)', src_nc, flags=re.M)
    res['obligations'] = len(thms)
    cmd = ['timeout', '900', 'coqc', '-Q', '.', 'PMC', 'Properties/%s.v' % pid]
    res['checker_cmd'] = 'cd %s && make -j16 && %s' % (COQ, ' '.join(cmd[2:]))
    p = subprocess.run(cmd, cwd=COQ, capture_output=True, text=True)
    out = p.stdout + p.stderr
    if p.returncode != 0:
        res['log'] += out[-3000:]
        res['failed'].append('Properties/%s.v' % pid)
        return res
    # Print Assumptions output blocks, in order of appearance
    blocks = re.split(r'(?m)^(?=Closed under the global context|Axioms:)', out)
    blocks = [b for b in blocks if b.startswith('Closed under') or b.startswith('Axioms:')]
    pa = re.findall(r'Print Assumptions\s+(\w+)', src_nc)
    assum = {}
    for name, b in zip(pa, blocks):
        if b.startswith('Closed under'):
            assum[name] = []
        else:
            assum[name] = re.findall(r'^(\S+)\s*:', b[len('Axioms:'):], flags=re.M)
    ok_all = True
    for t in thms:
        ax = assum.get(t)
        good = ax is not None and all(a in ALLOWED_AXIOMS for a in ax)
        res['theorems'].append({'name': t, 'axioms': ax})
        if good:
            res['discharged'] += 1
        else:
            ok_all = False
            res['failed'].append('theorem %s: assumptions %s' % (t, ax))
    forb = grep_forbidden()
    if forb:
        ok_all = False
        res['failed'].extend('forbidden: ' + f for f in forb)
    if thorough and ok_all:
        ck = subprocess.run(['timeout', '1800', 'coqchk', '-silent', '-o', '-Q', '.', 'PMC', 'PMC.Properties.' + pid],
                            cwd=COQ, capture_output=True, text=True)
        res['coqchk_rc'] = ck.returncode
        res['coqchk_tail'] = (ck.stdout + ck.stderr)[-1500:]
        if ck.returncode != 0:
            ok_all = False
            res['failed'].append('coqchk failed')
    res['ok'] = ok_all and mk.returncode == 0 and res['obligations'] > 0
    res['wall_s'] = round(time.time() - t0, 1)
    return res


# ----------------------------------------------------------------------------------------
# verdicts, evidence, replays
# ----------------------------------------------------------------------------------------
TRUSTED_BASE = [
    'Coq 8.16.1 kernel (coqc; coqchk in the thorough tier); vm_compute used in Examples, refutation witnesses and finite case analyses; no native_compute',
    'axioms: only Classical_Prop.classic where Print Assumptions lists it',
    'extraction: ExtrOcamlBasic + ExtrOcamlString directives only (no Extract Constant of ours, nat unary), OCaml 4.13 compiler, coq/Extract/driver.ml s-expression driver',
    'hand-written Gallina models tied to /repo by this correspondence check (differential testing, not proof)',
    'python harness: generators, canonicalisers, readers of live iteration order, reference oracle harness/ref.py (classification only)',
    'modelled rather than verified: Python dict/set/WeakSet, reference counting and gc, hashing of state/label values, str.format, ast.parse, Lark LALR(1) + contextual lexer, exception propagation',
]


def load_known_findings():
    p = os.path.join(VERIF, 'known_findings.json')
    return json.load(open(p)) if os.path.exists(p) else {'findings': [], 'fixed': []}


class Run:
    """one check run: collects counts, samples, violations; writes evidence; decides exit code"""

    def __init__(self, pid, level='proof'):
        self.pid = pid
        self.tier = os.environ.get('VERIF_TIER', 'quick')
        self.seed = int(os.environ.get('VERIF_SEED', '20260926'))
        self.rng = random.Random(self.seed)
        self.level = level
        self.t0 = time.time()
        self.evaluations = 0
        self.nontrivial = set()
        self.samples = []
        self.violations = []     # dicts: what, replay data
        self.known_hits = {}     # finding id -> count
        self.cov = {}
        self.rule = ''
        self.gate = None
        self.assumptions = []
        self.exhaustive = False
        if not os.environ.get('PMC_VERIF_REPLAY'):
            # replays of earlier runs of this property are stale once it is re-run
            import glob
            for old in glob.glob(os.path.join(VERIF, 'replays', pid + '-*.json')):
                try:
                    os.remove(old)
                except OSError:
                    pass

    @property
    def thorough(self):
        return self.tier == 'thorough'

    def count(self, key, n=1):
        self.cov[key] = self.cov.get(key, 0) + n

    def sample(self, x, limit=6):
        if len(self.samples) < limit:
            self.samples.append(x)

    def nontriv(self, key):
        self.nontrivial.add(hashlib.sha1(repr(key).encode()).hexdigest()[:16])

    def violation(self, what, data, no_input=False):
        self.violations.append({'what': what, 'data': data, 'no_failing_input': no_input})

    def run_gate(self):
        self.gate = proof_gate(self.pid, self.thorough)
        return self.gate

    def finish(self):
        os.makedirs(os.path.join(VERIF, 'evidence'), exist_ok=True)
        os.makedirs(os.path.join(VERIF, 'replays'), exist_ok=True)
        lines = []
        rc = 0
        gate = self.gate
        if gate is not None and not gate['ok']:
            # a theorem of the property no longer checks; if the correspondence found a failing
            # input it is reported below, otherwise this is no-failing-input-found
            if not any(not v['no_failing_input'] for v in self.violations):
                self.violation('proof obligation no longer checks: %s' % '; '.join(gate['failed'][:5]),
                               {'theorems': gate['theorems'], 'failed': gate['failed'], 'log': gate['log'][-2000:]},
                               no_input=True)
        # prefer violations with a concrete failing input
        vs = sorted(self.violations, key=lambda v: v['no_failing_input'])
        shown = 0
        for v in vs:
            h = hashlib.sha1(json.dumps(v, sort_keys=True, default=str).encode()).hexdigest()[:10]
            path = os.path.join(VERIF, 'replays', '%s-%s.json' % (self.pid, h))
            with open(path, 'w') as fh:
                json.dump({'property': self.pid, 'tier': self.tier, 'seed': self.seed, **v}, fh, indent=1, default=str)
            if shown < 5:
                lines.append('VIOLATION property=%s replay=%s%s' % (self.pid, path, ' no-failing-input-found' if v['no_failing_input'] else ''))
                shown += 1
            rc = 1
        cov = dict(self.cov)
        cov.update({
            'evaluations': self.evaluations,
            'distinct_nontrivial': len(self.nontrivial),
            'rule': self.rule,
            'samples': self.samples if self.samples else ['(none)'],
            'exhaustive': self.exhaustive,
            'known_findings_hit': self.known_hits,
        })
        # keys of the evidence schema with a fixed type: a check that uses one of these names for something else must not invalidate the file
        for k in ('states', 'transitions', 'traces_validated_against_impl', 'programs', 'disagreements_checked'):
            if k in cov and (isinstance(cov[k], bool) or not isinstance(cov[k], int)):
                cov[k + '_detail'] = cov.pop(k)
        if gate is not None:
            cov.update({
                'obligations': gate['obligations'],
                'discharged': gate['discharged'],
                'checker_cmd': gate.get('checker_cmd', ''),
                'trusted_base': TRUSTED_BASE + ['Print Assumptions: ' + json.dumps(gate['theorems'])],
                'proof_gate_wall_s': gate.get('wall_s'),
            })
        ev = {'property_id': self.pid, 'tier': self.tier, 'seed': self.seed, 'level': self.level,
              'coverage': cov, 'assumptions': self.assumptions, 'wall_s': round(time.time() - self.t0, 2),
              'violations': len(self.violations)}
        with open(os.path.join(VERIF, 'evidence', self.pid + '.json'), 'w') as fh:
            json.dump(ev, fh, indent=1, default=str)
        for l in lines:
            print(l)
        print('%s tier=%s evaluations=%d nontrivial=%d violations=%d wall=%.1fs%s' % (
            self.pid, self.tier, self.evaluations, len(self.nontrivial), len(self.violations),
            time.time() - self.t0,
            '' if gate is None else ' theorems=%d/%d' % (gate['discharged'], gate['obligations'])))
        return rc


def known_finding_line(pid, fid, what):
    print('KNOWN-FINDING: property=%s %s %s' % (pid, fid, what))
