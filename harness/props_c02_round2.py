"""C02, streams added after the second white-box audit (used by props_c02.py):
  TIMING CHAINS      nested X chains (X-depth 3-6, connectives interleaved) over structures with 2-3 states: the tableau then has
                     transient chains LONGER than the structure has states (nothing may be cut off after |S| rounds)
  OPERATOR STACKS    every word of length 2-4 over {X, F, G} (negations interleaved) applied to a small operand: F G F, G F G,
                     F F, G G, X F X ... - the shapes an 'absorption' rewriting would target
  HASH-EQUAL STATES  presentations of the states whose hashes collide (-1 / -2, 0 / 2**61-1, tuples of those, user objects with a
                     constant __hash__)
  EDGE EDITS         sessions on ONE Kripke object whose owner removes / adds / retargets transitions IN PLACE through the live
                     successor set handed out by K.next(s) (there is no remove_edge) and through add_edge, queries in between
  DERIVED LABELS     (informational only) a Kripke subclass overriding labels()"""
from common import *
import mccheck
from mccheck import *

P, Q_ = ('ap', 'p'), ('ap', 'q')
LITS = [P, Q_, ('not', P), ('not', Q_)]
M61 = 2 ** 61 - 1


class HState(object):
    """a user-defined state: equality by name, every instance has the SAME hash (legal, merely slow)"""
    __slots__ = ('name',)

    def __init__(self, name):
        self.name = name

    def __eq__(self, other):
        return isinstance(other, HState) and other.name == self.name

    def __ne__(self, other):
        return not self.__eq__(other)

    def __hash__(self):
        return 42

    def __repr__(self):
        return 'HState(%r)' % (self.name,)


# registered in the shared table (at import of this module only: build_K / replay_mc / run_session look names up there)
mccheck.RENAMES['hashclash'] = lambda i: [-1, -2, -(2 ** 61 + 1)][i] if i < 3 else M61 * (i - 3)     # hashes -2 -2 -2 0 0 0 ...
mccheck.RENAMES['hashclash_tuple'] = lambda i: ('n', -1 - (i % 2), i // 2)                          # ('n',-1,0) / ('n',-2,0) collide
mccheck.RENAMES['hashclash_obj'] = lambda i: HState('s%d' % i)
CLASH = ['hashclash', 'hashclash_tuple', 'hashclash_obj']


def n_xformulas(f):
    """number of X-formulas of the closure (each doubles the number of atoms per state)"""
    return len(set(g for g in subformulas(f) if g[0] in TEMPORAL))


def transient_kripke(rng, n):
    """2-3 states, out-degree <= 2, most states with a self-loop and an exit (paths that wait, then move on)"""
    kd = rand_kripke(rng, n, maxdeg=2)
    E = set(kd['R'])
    for s in kd['S']:
        if rng.random() < 0.6:
            E.add((s, s))
    kd['R'] = rng.sample(sorted(E), len(E))
    if rng.random() < 0.5:      # p on a prefix of the states only: p ... p, then never again
        k = rng.randint(1, n - 1) if n > 1 else 1
        kd['L'] = {s: (['p'] if s < k else []) + [a for a in kd['L'][s] if a == 'q'] for s in kd['S']}
    return kd


def waiting_chain(rng, n):
    """0 -> 1 -> ... -> n-1, every state with a self-loop (a path waits any number of steps in a state, then moves on for good); labels
    change along the chain; now and then one edge back"""
    E = [(s, s) for s in range(n)] + [(s, s + 1) for s in range(n - 1)]
    if rng.random() < 0.2:
        E.append((n - 1, rng.randrange(n - 1)))
    rng.shuffle(E)
    flip = rng.random() < 0.5
    L = {s: ([a for a in ['p'] if (s % 2 == 0) != flip] + [a for a in ['q'] if rng.random() < 0.4]) for s in range(n)}
    return {'S': list(range(n)), 'S0': [], 'R': E, 'L': L}


def timing_cases(rng, n, maxx=6):
    """X^k(core) with connectives interleaved.  Over-weighted: 'change detectors' (a --> X a, a and X not a) on waiting chains, where
    the only violating paths switch state at exactly one moment, k steps away: the tableau chain that witnesses the exclusion is
    transient and longer than |S|.  Structures on which EVERY state satisfies the formula are re-drawn (up to 3 times)."""
    out = []
    while len(out) < n:
        a, b = rng.choice(LITS), rng.choice(LITS)
        det = [('or', ('not', a), ('X', a)), ('imp', a, ('X', a)), ('not', ('and', a, ('X', ('not', a)))), ('or', a, ('X', ('not', a))), ('imp', a, ('X', ('X', a)))]
        chainy = rng.random() < 0.6
        g = rng.choice(det if chainy else [a, ('or', a, ('X', b)), ('imp', a, ('X', b)), ('and', a, ('X', b)), ('U', a, b), ('F', a), ('G', a), ('and', a, ('X', ('not', a)))] + det[:2])
        for _ in range(rng.randint(2, 5)):
            g = ('X', g)
            r = rng.random()
            if r < 0.1:
                g = ('not', ('not', g)) if chainy else ('not', g)
            elif r < 0.3:
                g = (rng.choice(['or', 'and']), rng.choice(LITS), g)
            elif r < 0.36:
                g = ('imp', rng.choice(LITS), g)
        if xdepth(g) < 3 or n_xformulas(g) > maxx:
            continue
        for _ in range(3):
            m = rng.choice([2, 2, 3])
            kd = waiting_chain(rng, m) if chainy or rng.random() < 0.3 else transient_kripke(rng, m)
            try:
                if len(ref_check(kd, ('A', g))) < m:
                    break
            except Exception:  # noqa
                break
        out.append((kd, ('A', g)))
    return out


def xdepth(f):
    if f[0] in ('true', 'false', 'ap'):
        return 0
    return (1 if f[0] == 'X' else 0) + max(xdepth(g) for g in f[1:])


def stack_words():
    ws = []
    for k in (2, 3, 4):
        ws += [''.join(w) for w in itertools.product('XFG', repeat=k)]
    return ws


def _stack(layers, g):
    for o, neg in reversed(layers):
        g = (o, g)
        if neg:
            g = ('not', g)
    return g


def discriminating_kripke(rng, g, siblings, tries=4):
    """of `tries` random structures the one on which A g differs from A g' for most of the sibling formulas g' (g with one operator
    dropped): a case that cannot tell g from a simplification of g tests nothing about the rewriting of g"""
    best, score = None, -1
    for t in range(tries):
        if t >= 2 and score == 0:          # (g is probably equivalent to each of its simplifications: F F a, G G a)
            break
        kd = transient_kripke(rng, rng.choice([2, 2, 3, 3, 4])) if rng.random() < 0.7 else rand_kripke(rng, rng.randint(1, 3))
        try:
            want = ref_check(kd, ('A', g))
            sc = sum(1 for h in siblings if ref_check(kd, ('A', h)) != want)
        except Exception:  # noqa
            sc = 0
        if sc > score:
            best, score = kd, sc
        if sc == len(siblings):
            break
    return best, score


def stack_cases(rng, per_word, thorough=False):
    """every word over {X, F, G} of length 2-4 x per_word structures (words of length <= 3: twice as many); a negation between two
    operators now and then; the stack alone or as an operand of U / R / or / and / -->.  Structures are chosen so that the stack
    is told apart from its simplifications (one operator dropped: F G F a vs G F a vs F F a vs F G a)."""
    out = []
    hist = {}
    for w in stack_words():
        for _ in range(per_word * (2 if len(w) <= 3 else 1)):
            a, b = rng.choice(LITS), rng.choice(LITS)
            g0 = rng.choice([a, a, a, P, ('or', a, b), ('and', a, b)] + ([('U', a, b)] if len(w) < 4 else []))
            layers = [(o, rng.random() < 0.12) for o in w]
            g = _stack(layers, g0)
            sibs = []
            for i in range(len(layers)):
                h = _stack(layers[:i] + layers[i + 1:], g0)
                if h not in sibs:
                    sibs.append(h)
            kd, sc = discriminating_kripke(rng, g, sibs)
            hist[str(sc)] = hist.get(str(sc), 0) + 1
            r = rng.random()
            if r < 0.08:
                g = ('U', b, g)
            elif r < 0.14:
                g = ('R', g, b)
            elif r < 0.22:
                g = (rng.choice(['or', 'and']), g, b)
            elif r < 0.26:
                g = ('imp', g, ('X', b))
            if n_xformulas(g) > 5:
                continue
            out.append((kd, ('A', g)))
    stack_cases.hist = hist
    return out


def run_mc_items(R, logic, items, label):
    """mccheck.run_mc with the presentation of every case given explicitly: items = [(kd, f, rename, containers)]"""
    its = [(logic, kd, f, False, rename, containers) for kd, f, rename, containers in items]
    res = pmap_chunks(mccheck._mc_chunk, its, per=max(6, min(40, len(its) // (4 * n_jobs()) + 1)))
    outs = model_batch_parallel([c for _, c, _, _ in res])
    bad = 0
    for (_, kd, f, _, rename, containers), (r, _, unchanged, n), o in zip(its, res, outs):
        R.evaluations += 1
        m = model_obs(o)
        if rename:
            R.count('states_renamed:' + rename)
        if tuple(r) != m or not unchanged:
            bad += 1
            try:
                rr = sorted(ref_check(kd, f))
            except Exception as e:  # noqa
                rr = 'ref-failed: %r' % e
            R.violation('%s.modelcheck differs from the proved model%s%s' % (logic, '' if unchanged else ' (and modified K)',
                                                                           ' [states presented as %s]' % rename if rename else ''),
                        {'logic': logic, 'kripke': kd_json(kd), 'formula': f, 'formula_str': fstr(f), 'impl': r, 'model': m, 'reference': rr,
                         'labels_installed_with_shared_set_objects': False, 'states_renamed': rename, 'label_containers': containers,
                         'states_as_given': None if not rename else [repr(renaming(rename)(s)) for s in kd['S']],
                         'impl_wrong_by_reference': (r[0] != 'ok' or r[1] != rr)})
            continue
        R.count('agree_' + logic + label)
        if r[0] == 'ok' and has_temporal(f) and 0 < len(r[1]) < n:
            R.nontriv((logic, json.dumps(kd_json(kd), sort_keys=True), f, rename, containers))
            if R.rng.random() < 0.01:
                R.sample({'logic': logic, 'kripke': kd_json(kd), 'formula': fstr(f), 'result': r[1], 'stream': label})
    return bad


# ---------------- sessions with edge edits through the live successor sets ----------------
def gen_edge_session(rng):
    n = rng.randint(2, 4)
    kd = rand_kripke(rng, n, maxdeg=3)
    S = list(kd['S'])
    succ = {s: set() for s in S}
    for a, b in kd['R']:
        succ[a].add(b)
    simple = [('G', P), ('F', Q_), ('X', P), ('U', P, Q_), ('R', Q_, P), ('G', ('F', P)), ('F', ('G', Q_)), ('G', ('not', Q_)), ('G', ('or', P, Q_)),
              ('G', ('imp', P, ('X', Q_))), ('F', ('and', P, ('X', P)))]
    fs = [('A', rng.choice(simple)), ('A', gen_until(rng, lambda: rand_path(rng, rng.randint(1, 2)), lambda x: has_temporal(x) and tcount(x) <= 2))]
    steps = [['q']]
    for _ in range(rng.randint(2, 5)):
        for _ in range(rng.randint(1, 2)):
            r = rng.random()
            s = rng.choice(S)
            if r < 0.4 and len(succ[s]) > 1:
                d = rng.choice(sorted(succ[s]))
                succ[s].discard(d)
                steps.append(['cut', s, d])
            elif r < 0.6:
                free = [d for d in S if d not in succ[s]]
                if not free:
                    continue
                d = rng.choice(free)
                succ[s].add(d)
                steps.append(['link', s, d])
            elif r < 0.8:
                free = [d for d in S if d not in succ[s]]
                if not free:
                    continue
                d0, d1 = rng.choice(sorted(succ[s])), rng.choice(free)
                succ[s].discard(d0)
                succ[s].add(d1)
                steps.append(['retarget', s, d0, d1])
            elif r < 0.9:
                ds = rng.sample(S, rng.randint(1, min(2, n)))
                succ[s] = set(ds)
                steps.append(['rewire', s, ds])
            else:
                free = [d for d in S if d not in succ[s]]
                if not free:
                    continue
                d = rng.choice(free)
                succ[s].add(d)
                steps.append(['edge', s, d])
        steps.append(['q'])
    return {'kd': kd_json(kd), 'rename': rng.choice([None, None, 'str', 'int1', 'tuple']), 'formulas': fs, 'steps': steps}


def run_edge_session(spec):
    spec = json.loads(json.dumps(spec))
    kd = kd_from_json(spec['kd'])
    K, inv = build_K(kd, False, spec.get('rename'), None)
    ren = renaming(spec.get('rename'))
    num = inv.__getitem__
    LTL = lang_module('LTL')
    fs = [detuple(f) for f in spec['formulas']]
    objs = [to_py(f, LTL) for f in fs]
    recs = []
    for si, st in enumerate(spec['steps']):
        k = st[0]
        try:
            if k == 'q':
                for i, o in enumerate(objs):
                    ks = kripke_sx(K, num)
                    snap0 = kripke_snapshot(K)
                    r = call(lambda: LTL.modelcheck(K, o))
                    recs.append({'step': si, 'idx': i, 'ans': tuple(canon_answer(r, num)), 'ks': ks, 'n': len(K.states()), 'unchanged': kripke_snapshot(K) == snap0})
            elif k == 'cut':
                K.next(ren(st[1])).discard(ren(st[2]))
            elif k == 'link':
                K.next(ren(st[1])).add(ren(st[2]))
            elif k == 'retarget':
                nx = K.next(ren(st[1]))
                nx.discard(ren(st[2]))
                nx.add(ren(st[3]))
            elif k == 'rewire':
                nx = K.next(ren(st[1]))
                nx.clear()
                nx.update(ren(d) for d in st[2])
            elif k == 'edge':
                K.add_edge(ren(st[1]), ren(st[2]))
        except Exception as e:  # noqa
            recs.append({'step': si, 'edit_error': '%s: %s' % (type(e).__name__, str(e)[:200])})
    return recs


def _edge_chunk(chunk):
    return [run_edge_session(s) for s in chunk]


def describe_edge_step(st):
    k = st[0]
    return {'q': 'query every formula object through LTL.modelcheck', 'cut': 'owner: K.next(%s).discard(%s)' % tuple(st[1:3]) if k == 'cut' else '',
            'link': 'owner: K.next(%s).add(%s)' % tuple(st[1:3]) if k == 'link' else '',
            'retarget': 'owner: K.next(%s): discard(%s), add(%s)' % tuple(st[1:4]) if k == 'retarget' else '',
            'rewire': 'owner: K.next(%s): clear(), update(%s)' % tuple(st[1:3]) if k == 'rewire' else '',
            'edge': 'owner: K.add_edge(%s, %s)' % tuple(st[1:3]) if k == 'edge' else ''}[k]


def judge_edge_session(spec, recs, outs):
    probs = []
    it = iter(outs)
    for r in recs:
        if 'edit_error' in r:
            probs.append((r['step'], 'an edit of the owner raised %s' % r['edit_error'], {}))
            continue
        m = model_obs(next(it))
        r['model'] = m
        if tuple(r['ans']) != m or not r['unchanged']:
            probs.append((r['step'], 'LTL.modelcheck on a structure whose owner edited its transitions in place (live successor sets of K.next / add_edge), '
                          'queried before and after: the answer differs from the proved model on the structure AS IT IS NOW%s: %s'
                          % ('' if r['unchanged'] else ' (and K was modified)', fstr(detuple(spec['formulas'][r['idx']]))),
                          {'formula': fstr(detuple(spec['formulas'][r['idx']])), 'impl': r['ans'], 'model': m}))
    return probs


def run_edge_sessions(R, n):
    rng = R.rng
    specs = [gen_edge_session(rng) for _ in range(n)]
    allrecs = pmap_chunks(_edge_chunk, specs, per=max(2, min(10, n // (3 * n_jobs()) + 1)))
    cmds, spans = [], []
    for spec, recs in zip(specs, allrecs):
        q = [['ltl', r['ks'], fsx(detuple(spec['formulas'][r['idx']]))] for r in recs if 'edit_error' not in r]
        spans.append((len(cmds), len(cmds) + len(q)))
        cmds += q
    outs = model_batch_parallel(cmds)
    hist = {'sessions': 0, 'modelcheck_calls': 0, 'edits': {}, 'answers_changed_by_an_edit': 0, 'sessions_with_problems': 0}
    failing = []
    for spec, recs, (a, b) in zip(specs, allrecs, spans):
        probs = judge_edge_session(spec, recs, outs[a:b])
        hist['sessions'] += 1
        for st in spec['steps']:
            if st[0] != 'q':
                hist['edits'][st[0]] = hist['edits'].get(st[0], 0) + 1
        last = {}
        for r in recs:
            if 'edit_error' in r:
                continue
            R.evaluations += 1
            hist['modelcheck_calls'] += 1
            if r['idx'] in last and last[r['idx']] != r['ans']:
                hist['answers_changed_by_an_edit'] += 1
                if not probs:
                    R.nontriv(('edge edits', json.dumps(spec['kd'], sort_keys=True), repr(spec['steps'][:r['step'] + 1]), r['idx']))
            last[r['idx']] = r['ans']
        if probs:
            hist['sessions_with_problems'] += 1
            failing.append((spec, probs))
    for spec, probs in failing[:6]:
        si, msg, det = probs[0]
        R.violation(msg, {'stream': 'edge edits', 'logic': 'LTL', 'session': spec, 'step': si, 'step_description': describe_edge_step(spec['steps'][si]),
                          'steps': [describe_edge_step(st) for st in spec['steps']], 'details': det, 'all_problems': [(p[0], p[1][:160]) for p in probs[:8]]})
    R.cov['edge_edit_sessions'] = hist
    return len(failing)


def replay_edge_session(R, d):
    spec = d['session']
    recs = run_edge_session(spec)
    outs = model_batch([['ltl', r['ks'], fsx(detuple(spec['formulas'][r['idx']]))] for r in recs if 'edit_error' not in r])
    probs = judge_edge_session(spec, recs, outs)
    print('structure:', spec['kd'], ' states presented as:', spec['rename'] or '0..n-1')
    for i, f in enumerate(spec['formulas']):
        print('   formula[%d] = %s' % (i, fstr(detuple(f))))
    by = {}
    for r in recs:
        by.setdefault(r['step'], []).append(r)
    for si, st in enumerate(spec['steps']):
        print('step %2d: %s' % (si, describe_edge_step(st)))
        for r in by.get(si, []):
            if 'edit_error' in r:
                print('          RAISED', r['edit_error'])
            else:
                print('          formula[%d]  impl %s   model %s%s' % (r['idx'], r['ans'], r['model'], '' if tuple(r['ans']) == r['model'] else '   <-- DIFFERENT'))
    for p in probs[:6]:
        print('PROBLEM at step %d: %s' % (p[0], p[1]))
    if probs:
        R.violation('replayed: ' + probs[0][1], d)


# ---------------- informational: a Kripke subclass that overrides labels() ----------------
def derived_labels_probe(R, n=12):
    """NOT part of the property (see props_c02.R.rule): an instance of a SUBCLASS whose labels() is computed while the stored
    labelling is empty has two public accessors that disagree (labels(s) vs labelling_function()[s]); the library itself reads the
    stored dict in clone()/get_substructure() (so CTLS.modelcheck, which clones, ignores such an override).  Recorded only."""
    from pyModelChecking.kripke import Kripke
    LTL = lang_module('LTL')
    rng = R.rng
    follows_accessor = follows_dict = other = 0
    for _ in range(n):
        kd = rand_kripke(rng, rng.randint(2, 4))
        lab = {s: set(kd['L'][s]) for s in kd['S']}

        class Derived(Kripke):
            def labels(self, state=None):
                if state is None:
                    return set(a for v in lab.values() for a in v)
                return set(lab[state])
        f = ('A', rng.choice([('X', P), ('G', P), ('F', Q_), ('U', P, Q_)]))
        K = Derived(R=kd['R'])
        r = canon_answer(call(lambda: LTL.modelcheck(K, to_py(f, LTL))))
        want = sorted(ref_check(kd, f))
        empty = sorted(ref_check(dict(kd, L={s: [] for s in kd['S']}), f))
        if r[0] == 'ok' and r[1] == want:
            follows_accessor += 1
        elif r[0] == 'ok' and r[1] == empty:
            follows_dict += 1
        else:
            other += 1
    R.cov['informational_subclass_overriding_labels()'] = {'cases': n, 'answer_follows_labels()': follows_accessor,
                                                          'answer_follows_stored_labelling_only': follows_dict, 'other': other}
