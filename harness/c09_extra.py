"""c09_extra.py - streams of C09 added after the second audit (used by props_c09.py only).

VERY WIDE   or / and with 151..1200 operands: the arities around 255 (the historic CPython limit on call arguments), around the
            powers of two 128 / 256 / 512 / 1024 and random ones, at the root and inside the contexts of PG.contexts.  They go
            through the ordinary pipeline of props_c09 (stream 'wide').
VERY TALL   spines of height 271..1200 (and a few of 20..99 in the ordinary 'tall' stream).  The unchanged library's recursive
            printer raises RecursionError from height ~297 on (CPython 3.12: the C recursion limit, it cannot be raised); the
            property speaks about formulas that ARE printed, so a formula whose str() raises RecursionError is counted as
            'unprintable' and nothing is claimed - but whatever text str() returns must parse back to the tree and be the
            model's text.  Everything here is iterative (preorder token lists of PG.flat; objects built bottom-up with a stack,
            results read with PG.flat_of_obj, the model's s-expression written as text), the recursion limit is never raised.
EDIT        a formula object that was already printed / hashed / compared is edited through the public API and printed again:
            Formula.wrap_subformulas ("Replaces subformulas of the current object") on a node anywhere in the tree, or the list
            returned by subformulas() edited in place (item assignment, slice assignment, append, pop, reverse).  The text printed
            AFTER the edit must be the model's text of the tree the object has NOW (read with tree_of), and parse back to it;
            also for a second formula that holds the edited node as an operand.
"""
from common import *
from mccheck import detuple
import parsegen as PG

PARSED_BY = {'PL': ('PL',), 'LTL': ('LTL',), 'CTLS': ('CTLS',), 'CTL': ('CTL', 'CTLS')}


# ----------------------------------------------------------------------------------------
# very wide
# ----------------------------------------------------------------------------------------
WIDE_BOUNDARY = (128, 129, 300, 512, 1000)
WIDE_CALL_LIMIT = (255, 256, 257)      # CPython up to 3.6 refused calls with more than 255 arguments


def very_wide_formulas(rng, logic, aps, thorough=False):
    cs = PG.contexts(logic)
    ar = [(rng.choice(('or', 'and')), k) for k in WIDE_BOUNDARY]
    ar += [(t, k) for t in ('or', 'and') for k in WIDE_CALL_LIMIT]
    ar += [(rng.choice(('or', 'and')), rng.randint(151, 1200)) for _ in range(12 if thorough else 3)]
    if thorough:
        ar += [(t, k) for t in ('or', 'and') for k in (127, 254, 258, 511, 513, 1023, 1024, 1025, 2048, 4097)]
    out = []
    nested = set()
    for i, (t, k) in enumerate(ar):
        # operands: leaves, now and then a small formula (so that a regrouped node is not hidden among equal operands)
        ops = tuple(PG._small(rng, logic, aps, 1 if rng.random() < 0.05 else 0) for _ in range(k))
        w = (t,) + ops
        leaf = ('ap', rng.choice(aps))
        out.append(w if i % 2 == 0 else rng.choice(cs[1:])(w, leaf))
        if k in WIDE_CALL_LIMIT and (thorough or k not in nested):
            # the very wide node as an operand of a (very) wide node of the other kind
            nested.add(k)
            ops2 = [PG._small(rng, logic, aps, 0) for _ in range(rng.choice((2, 5, 254, 255)))]
            ops2.insert(rng.randrange(len(ops2) + 1), w)
            out.append((('and' if t == 'or' else 'or'),) + tuple(ops2))
    return out


def spread(items, extra):
    """items with the elements of extra put in at even distances (the model batch is cut into contiguous chunks: expensive cases
    should not all sit in the last one)"""
    if not extra:
        return list(items)
    step = max(1, len(items) // len(extra))
    out, j = [], 0
    for i, it in enumerate(items):
        if i % step == 0 and j < len(extra):
            out.append(extra[j])
            j += 1
        out.append(it)
    return out + list(extra[j:])


def model_par(cmds, jobs):
    """model_batch over `jobs` driver processes, commands dealt out in turn (common.model_batch_parallel is serial below 400
    commands and cuts contiguous chunks)"""
    jobs = max(1, min(jobs, len(cmds) // 4))
    if jobs <= 1:
        return model_batch(cmds)
    from concurrent.futures import ThreadPoolExecutor
    with ThreadPoolExecutor(max_workers=jobs) as ex:
        res = list(ex.map(lambda j: model_batch(cmds[j::jobs]), range(jobs)))
    out = [None] * len(cmds)
    for j, r in enumerate(res):
        out[j::jobs] = r
    return out


# ----------------------------------------------------------------------------------------
# iterative helpers on preorder token lists (PG.flat)
# ----------------------------------------------------------------------------------------
def obj_of_flat(toks, L):
    """the python object of the formula, built bottom-up with an explicit stack (classes of module L)"""
    stack = []
    for tk in reversed(toks):
        if isinstance(tk, str):
            stack.append(L.Bool(tk == 'true') if tk in ('true', 'false') else L.AtomicProposition(tk[3:]))
        else:
            tag, k = tk
            stack.append(getattr(L, PYNAME[tag])(*[stack.pop() for _ in range(k)]))
    if len(stack) != 1:
        raise ValueError('not a preorder token list of one formula')
    return stack[0]


class Raw(str):
    """an s-expression already written as text (common.sx_str passes it through)"""
    pass


def sx_of_flat(toks):
    """text of the driver's s-expression of the formula (what sx_str(fsx(f)) gives), without recursion"""
    out, pending = [], []
    for tk in toks:
        if pending:
            out.append(' ')
        if isinstance(tk, str):
            out.append('(t)' if tk == 'true' else '(f)' if tk == 'false' else '(a %s)' % sx_str(Q(tk[3:])))
            while pending:
                pending[-1] -= 1
                if pending[-1]:
                    break
                pending.pop()
                out.append(')')
        else:
            out.append('(' + tk[0])
            pending.append(tk[1])
    return Raw(''.join(out))


def flat_height(toks):
    h, pending = 0, []
    for tk in toks:
        h = max(h, len(pending))
        if isinstance(tk, str):
            while pending:
                pending[-1] -= 1
                if pending[-1]:
                    break
                pending.pop()
        else:
            pending.append(tk[1])
    return h


def _norm(toks):
    return [tk if isinstance(tk, str) else [str(tk[0]), int(tk[1])] for tk in toks]


def _short(x, n=400):
    t = x if isinstance(x, str) else repr(x)
    return t if len(t) <= n else t[:n // 2] + ' ... ' + t[-n // 2:]


# ----------------------------------------------------------------------------------------
# very tall
# ----------------------------------------------------------------------------------------
TALL_HEIGHTS = (271, 280, 288, 292, 294, 296, 298, 300, 305, 320, 350, 400, 520, 700, 1000)


def tall_items(rng, pools, thorough=False):
    items = []
    for logic in PG.LANGS:
        hs = list(TALL_HEIGHTS) + [rng.randint(271, 340) for _ in range(8 if thorough else 2)] + [rng.randint(341, 1200) for _ in range(8 if thorough else 2)]
        for h in hs:
            f = PG.spine(rng, logic, PG.ATOMS if rng.random() < 0.5 else pools[logic], h)
            items.append((logic, PG.flat(f)))
            del f
    return items


class _Timeout(BaseException):
    pass


STR_TIME_LIMIT = 2.0


def _timed(fn, secs=STR_TIME_LIMIT):
    """fn() under an interval timer (a printer that catches RecursionError and retries may need exponential time on a deep
    formula): raises _Timeout; unguarded where signals cannot be used (not the main thread)"""
    import signal

    def on_alarm(sig, frame):
        # the timer repeats until this handler could be entered (at the recursion limit the call of the handler itself fails)
        signal.setitimer(signal.ITIMER_REAL, 0)
        raise _Timeout()
    try:
        old = signal.signal(signal.SIGALRM, on_alarm)
    except ValueError:
        return fn()
    signal.setitimer(signal.ITIMER_REAL, secs, 0.05)
    try:
        return fn()
    finally:
        signal.setitimer(signal.ITIMER_REAL, 0)
        signal.signal(signal.SIGALRM, old)


def observe_tall(item):
    """('construct', why) | ('unprintable',) | ('timeout',) | ('printed', text, what went wrong on the implementation side or None)"""
    logic, toks = item
    toks = _norm(toks)
    L = lang_module('CTLS' if logic == 'CTL' else logic)
    try:
        o = obj_of_flat(toks, L)
        built = PG.flat_of_obj(o)[0]
    except RecursionError:
        return ('construct', 'RecursionError')
    except Exception as e:  # noqa
        return ('construct', '%s: %s' % (type(e).__name__, str(e)[:200]))
    bad = {}
    if built != toks:
        bad['built'] = built
    try:
        s = _timed(lambda: str(o))
    except RecursionError:
        return ('unprintable',)
    except _Timeout:
        return ('timeout',)
    except Exception as e:  # noqa
        return ('construct', 'str: %s: %s' % (type(e).__name__, str(e)[:200]))
    if not isinstance(s, str):
        return ('construct', 'str returned %s' % type(s).__name__)
    for P in PARSED_BY[logic]:
        r = PG.observe(P, s, flat_result=True)
        if not (r[0] == 'ok' and r[1] == built and r[2] == (P,)):
            bad.setdefault('roundtrip', []).append({'parser': P, 'outcome': r})
    try:
        s2 = _timed(lambda: str(o))
        if s2 != s:
            bad['unstable_str'] = s2
    except RecursionError:
        bad['unstable_str'] = 'RecursionError'
    except _Timeout:
        bad['unstable_str'] = 'no answer within %.0f s' % STR_TIME_LIMIT
    return ('printed', s, bad or None)


def observe_tall_chunk(items):
    return [observe_tall(it) for it in items]


def tall_cmds(logic, toks, s):
    return [['print', 'CTLS' if logic == 'CTL' else logic, sx_of_flat(toks)]] + [PG.parse_cmd(P, s) for P in PARSED_BY[logic]]


def tall_check(logic, toks, obs, outs):
    bad, det = [], {}
    if obs[0] == 'construct':
        return ['construct'], {'impl': obs[1]}
    s, ibad = obs[1], obs[2]
    if ibad:
        bad += sorted(ibad)
        det['impl'] = ibad
    if str(outs[0]) != s:
        bad.append('print')
        det['model_print'] = str(outs[0])
    want = PG.mflat(toks)
    for P, a in zip(PARSED_BY[logic], outs[1:]):
        m = PG.model_parse_result_flat(a)
        if m != ('ok', want):
            bad.append('model_roundtrip_' + P)
            det['model_parse_' + P] = m
    return bad, det


def _shorten(x):
    """replay details: long texts / token lists cut down"""
    if isinstance(x, dict):
        return {k: _shorten(v) for k, v in x.items()}
    if isinstance(x, str):
        return _short(x, 600)
    if isinstance(x, (list, tuple)):
        if len(x) > 60 and all(isinstance(t, (str, list)) for t in x):
            return {'tokens': len(x), 'first': list(x[:30]), 'last': list(x[-30:])}
        return [_shorten(v) for v in x]
    return x


def run_tall(R, pools):
    items = tall_items(R.rng, pools, R.thorough)
    obs = PG.pmap(observe_tall_chunk, items, min_parallel=8, chunk=3)
    cmds, spans = [], []
    for (logic, toks), o in zip(items, obs):
        c = tall_cmds(logic, toks, o[1]) if o[0] == 'printed' else []
        spans.append((len(cmds), len(c)))
        cmds += c
    outs = model_par(cmds, PG.JOBS)
    hist = {}
    for (logic, toks), o, (i0, k) in zip(items, obs, spans):
        R.evaluations += 1
        h = flat_height(toks)
        hk = '%d-%d' % (h // 50 * 50, h // 50 * 50 + 49) if h < 400 else '400+'
        d = hist.setdefault(hk, {'printed_and_checked': 0, 'unprintable_RecursionError': 0})
        if o[0] == 'unprintable':
            d['unprintable_RecursionError'] += 1
            continue
        if o[0] == 'timeout':
            # neither a text nor RecursionError: nothing to round-trip (C09 says nothing about running time)
            d['no_text_within_%.0fs' % STR_TIME_LIMIT] = d.get('no_text_within_%.0fs' % STR_TIME_LIMIT, 0) + 1
            continue
        bad, det = tall_check(logic, toks, o, outs[i0:i0 + k])
        if bad:
            soft = set(bad) <= {'print'}
            R.violation('print/parse round trip breaks (very tall formula): %s' % ','.join(bad),
                        dict({'logic': logic, 'stream': 'verytall', 'height': h, 'formula_flat': toks, 'formula_sx': _short(str(sx_of_flat(toks))),
                              'printed': _short(o[1], 600) if o[0] == 'printed' else None, 'differs': bad}, **_shorten(det)), no_input=soft)
            R.count('violating_formulas')
            continue
        d['printed_and_checked'] += 1
        R.nontriv((logic, 'verytall', tuple(map(str, toks))))
    R.cov['very_tall_271_1200'] = dict(sorted(hist.items()))


def replay_tall(R, d):
    logic, toks = d['logic'], _norm(d['formula_flat'])
    o = observe_tall((logic, toks))
    print('formula (sx)   :', _short(str(sx_of_flat(toks)), 700), ' height', flat_height(toks))
    print('impl           :', o[0], _short(repr(o[1]), 700) if len(o) > 1 else '')
    if o[0] in ('unprintable', 'timeout'):
        print('str() raises RecursionError / gives no text within %.0f s: outside the property' % STR_TIME_LIMIT)
        return
    outs = model_batch(tall_cmds(logic, toks, o[1])) if o[0] == 'printed' else []
    if outs:
        print('model print    :', _short(repr(str(outs[0])), 700))
    bad, det = tall_check(logic, toks, o, outs)
    print('differs        :', bad, _short(_shorten(det), 3000))
    if bad:
        R.violation('replayed', d)


# ----------------------------------------------------------------------------------------
# edit: a printed object is changed through the public API and printed again
# ----------------------------------------------------------------------------------------
TOUCH = ('str_root', 'str_root', 'str_root', 'hash_root', 'eq_root', 'repr_root', 'str_node', 'str_path', 'none')
LEAF = ('true', 'false', 'ap')


def _operand(rng, logic, tag, aps, d=None):
    """a new operand for a node with operator `tag` such that the result is again a formula of the logic"""
    d = rng.choice((0, 0, 1, 1, 2)) if d is None else d
    if logic == 'PL':
        return rand_pl(rng, d, aps)
    if logic == 'CTLS':
        return rand_path(rng, d, aps, quant=True)
    if logic == 'LTL':
        return rand_path(rng, d, aps, quant=False)
    if tag in ('A', 'E'):
        o = rng.choice('XFGUR')
        return (o, rand_ctl(rng, d, aps)) if o in 'XFG' else (o, rand_ctl(rng, d, aps), rand_ctl(rng, d, aps))
    return rand_ctl(rng, d, aps)


def _op_nodes(t, path=()):
    if t[0] in LEAF:
        return
    yield path, t
    for i, g in enumerate(t[1:]):
        yield from _op_nodes(g, path + (i,))


def tree_set(t, path, new):
    if not path:
        return new
    i = path[0] + 1
    return t[:i] + (tree_set(t[i], path[1:], new),) + t[i + 1:]


def apply_edit_tree(node, kind, spec):
    """the operator node after the edit, on harness tuples"""
    kids = list(node[1:])
    if kind in ('wrap', 'slice'):
        new = [kids[e[1]] if e[0] == 'old' else (('true',) if e[1] else ('false',)) if e[0] == 'bool' else e[1] for e in spec]
    elif kind == 'setitem':
        new = list(kids)
        new[spec[0]] = spec[1]
    elif kind == 'append':
        new = kids + [spec]
    elif kind == 'insert':
        new = list(kids)
        new.insert(spec[0], spec[1])
    elif kind == 'pop':
        new = kids[:-1]
    elif kind == 'reverse':
        new = kids[::-1]
    else:
        raise ValueError(kind)
    return (node[0],) + tuple(new)


def edit_case(rng, logic, aps):
    """one case: (tree, path of the edited operator node, kind, spec, touch, with_holder) or None"""
    g = PG.rand_formula(rng, logic, rng.choice((1, 2, 2, 3, 3, 4)), aps=aps)
    nodes = list(_op_nodes(g))
    if not nodes:
        return None
    path, node = rng.choice(nodes)
    tag, k = node[0], len(node) - 1
    nary = tag in NARY
    kinds = ['wrap', 'wrap', 'wrap', 'setitem', 'slice']
    if k >= 2:
        kinds += ['reverse', 'wrap']
    if nary:
        kinds += ['append', 'insert']
        if k >= 3:
            kinds.append('pop')
    kind = rng.choice(kinds)
    new = lambda: _operand(rng, logic, tag, aps)     # noqa: E731
    leafy = logic != 'CTL' or tag not in ('A', 'E')  # python bools allowed as operands here
    if kind in ('wrap', 'slice'):
        n = k if not nary else rng.choice((2, 2, 3, 3, 4, 6, k, k + 1))
        spec = []
        for i in range(n):
            r = rng.random()
            if r < 0.35 and k:
                spec.append(('old', rng.randrange(k) if rng.random() < 0.3 else min(i, k - 1)))
            elif r < 0.45 and kind == 'wrap' and leafy:
                spec.append(('bool', rng.random() < 0.5))
            else:
                spec.append(('new', new()))
        spec = tuple(spec)
    elif kind == 'setitem':
        spec = (rng.randrange(k), new())
    elif kind == 'append':
        spec = new()
    elif kind == 'insert':
        spec = (rng.randrange(k + 1), new())
    else:
        spec = None
    if apply_edit_tree(node, kind, spec) == node:
        return None
    # a second formula holding the edited node as an operand: not <node> (not for path formulas of CTL / the A of LTL)
    holder = not ((logic == 'CTL' and (tag in TEMPORAL)) or (logic == 'LTL' and tag == 'A')) and rng.random() < 0.5
    return (g, path, kind, spec, rng.choice(TOUCH), holder)


def _spec_norm(kind, spec):
    """spec after a JSON round trip"""
    if kind in ('wrap', 'slice'):
        return tuple((e[0], detuple(e[1]) if e[0] == 'new' else e[1]) for e in spec)
    if kind in ('setitem', 'insert'):
        return (spec[0], detuple(spec[1]))
    if kind == 'append':
        return detuple(spec)
    return None


def observe_edit(item):
    """implementation side of one edit case: dict with the texts before / after and the tree the object has after"""
    logic, (g, path, kind, spec, touch, holder) = item
    L = lang_module('CTLS' if logic == 'CTL' else logic)
    out = {}
    try:
        o = to_py(g, L)
        node = o
        chain = [o]
        for i in path:
            node = node.subformulas()[i]
            chain.append(node)
        o2 = L.Not(node) if holder else None
        out['before'] = None
        if touch == 'str_root':
            out['before'] = str(o)
        elif touch == 'hash_root':
            hash(o)
        elif touch == 'eq_root':
            out['eq_fresh'] = bool(o == to_py(g, L))
        elif touch == 'repr_root':
            out['before'] = repr(o)
        elif touch == 'str_node':
            str(node)
        elif touch == 'str_path':
            for x in reversed(chain):
                str(x)
        if o2 is not None:
            out['holder_before'] = str(o2)
        mk = lambda t: to_py(t, L)    # noqa: E731
        lst = node.subformulas()
        if kind in ('wrap', 'slice'):
            elems = [lst[e[1]] if e[0] == 'old' else bool(e[1]) if e[0] == 'bool' else mk(e[1]) for e in spec]
            if kind == 'wrap':
                node.wrap_subformulas(elems, L.Formula)
            else:
                lst[:] = elems
        elif kind == 'setitem':
            lst[spec[0]] = mk(spec[1])
        elif kind == 'append':
            lst.append(mk(spec))
        elif kind == 'insert':
            lst.insert(spec[0], mk(spec[1]))
        elif kind == 'pop':
            lst.pop()
        elif kind == 'reverse':
            lst.reverse()
        out['tree_after'] = tree_of(o)
        out['after'] = str(o)
        out['after_again'] = str(o)
        out['eq_self'] = bool(o == o)
        if o2 is not None:
            out['holder_tree_after'] = tree_of(o2)
            out['holder_after'] = str(o2)
        out['parsed'] = [PG.observe(P, out['after']) for P in PARSED_BY[logic]]
    except Exception as e:  # noqa
        out['error'] = '%s: %s' % (type(e).__name__, str(e)[:300])
    return out


def observe_edit_chunk(items):
    return [observe_edit(it) for it in items]


def edit_expected(logic, case):
    g, path, kind, spec, touch, holder = case
    node = g
    for i in path:
        node = node[1 + i]
    node1 = apply_edit_tree(node, kind, spec)
    return tree_set(g, path, node1), (('not', node1) if holder else None)


def edit_cmds(logic, case, obs):
    g1, h1 = edit_expected(logic, case)
    LL = 'CTLS' if logic == 'CTL' else logic
    cmds = [['print', LL, fsx(g1)]]
    cmds += [PG.parse_cmd(P, obs['after']) for P in PARSED_BY[logic]]
    if h1 is not None:
        cmds.append(['print', LL, fsx(h1)])
    return cmds


def edit_check(logic, case, obs, outs):
    bad, det = [], {}
    if 'error' in obs:
        return ['edit_raised'], {'impl': obs['error']}
    g1, h1 = edit_expected(logic, case)
    if obs['tree_after'] != g1:
        # the public mutator did not produce the tree it is documented to produce: not C09's business unless the text is wrong as well
        det['tree_after_is_not_the_expected_edit'] = {'expected': g1, 'got': obs['tree_after']}
    cur = obs['tree_after']
    m_print = str(outs[0])
    if cur == g1 and obs['after'] != m_print:
        bad.append('print_after_edit')
        det['model_print_of_current_tree'] = m_print
    if obs['after_again'] != obs['after']:
        bad.append('unstable_str')
    for P, r in zip(PARSED_BY[logic], obs['parsed']):
        if not (r[0] == 'ok' and r[1] == cur and r[2] == (P,)):
            bad.append('roundtrip_after_edit_' + P)
            det['impl_parse_' + P] = r
    for P, a in zip(PARSED_BY[logic], outs[1:]):
        m = PG.model_parse_result(a)
        if cur == g1 and obs['after'] == m_print and m != ('ok', cur):
            bad.append('model_roundtrip_' + P)
            det['model_parse_' + P] = m
    if obs.get('before') is not None and obs['before'] == obs['after'] and cur != case[0]:
        bad.append('print_not_injective_before_vs_after_edit')
    if h1 is not None:
        if obs['holder_tree_after'] == h1 and obs['holder_after'] != str(outs[-1]):
            bad.append('print_of_second_holder_after_edit')
            det['model_print_of_holder'] = str(outs[-1])
            det['holder_after'] = obs['holder_after']
            det['holder_before'] = obs['holder_before']
    if not obs.get('eq_self', True) or obs.get('eq_fresh') is False:
        bad.append('eq')
    if bad:
        det['tree_after'] = cur
    return bad, det


def edit_data(logic, case, obs, bad, det):
    g, path, kind, spec, touch, holder = case
    d = {'logic': logic, 'stream': 'edit', 'formula': g, 'formula_str': fstr(g), 'path': list(path), 'kind': kind, 'spec': spec, 'touch': touch,
         'holder': holder, 'printed_before': obs.get('before'), 'printed_after': obs.get('after'), 'differs': bad}
    d.update(PG.compact(det))
    return d


def run_edit(R, pools):
    rng = R.rng
    n = 6000 if R.thorough else 450
    items = []
    seen = set()
    for logic in PG.LANGS:
        aps = list(PG.ATOMS) + pools[logic][:12]
        got = 0
        while got < n:
            c = edit_case(rng, logic, aps)
            if c is None or (logic, c) in seen:
                continue
            seen.add((logic, c))
            items.append((logic, c))
            got += 1
    obs = PG.pmap(observe_edit_chunk, items)
    cmds, spans = [], []
    for (logic, c), o in zip(items, obs):
        cm = edit_cmds(logic, c, o) if 'error' not in o else []
        spans.append((len(cmds), len(cm)))
        cmds += cm
    outs = model_batch_parallel(cmds, jobs=PG.JOBS)
    kinds, touches, depths, reported, unexpected = {}, {}, {}, 0, 0
    for (logic, c), o, (i0, k) in zip(items, obs, spans):
        R.evaluations += 1
        bad, det = edit_check(logic, c, o, outs[i0:i0 + k])
        if 'tree_after_is_not_the_expected_edit' in det:
            unexpected += 1
        if bad:
            reported += 1
            if reported <= 25:
                R.violation('print/parse round trip breaks after an edit through the public API: %s' % ','.join(bad), edit_data(logic, c, o, bad, det))
            continue
        kinds[c[2]] = kinds.get(c[2], 0) + 1
        touches[c[4]] = touches.get(c[4], 0) + 1
        depths[len(c[1])] = depths.get(len(c[1]), 0) + 1
        R.nontriv((logic, 'edit', c))
        if c[2] == 'wrap' and len(c[1]) >= 1 and fsize(c[0]) <= 10:
            R.sample({'logic': logic, 'stream': 'edit', 'formula': fstr(c[0]), 'edited_node_path': list(c[1]), 'kind': c[2],
                      'printed_before': o.get('before'), 'printed_after': o['after']}, limit=10)
    if reported:
        R.count('violating_formulas', reported)
    R.cov['edit_stream'] = {'cases': len(items), 'by_kind': dict(sorted(kinds.items())), 'touch_before_edit': dict(sorted(touches.items())),
                            'depth_of_edited_node': {str(k): v for k, v in sorted(depths.items())},
                            'with_second_holder': sum(1 for _, c in items if c[5]),
                            'edit_gave_another_tree_than_expected(not compared)': unexpected}


def replay_edit(R, d):
    logic = d['logic']
    kind = d['kind']
    case = (detuple(d['formula']), tuple(d['path']), kind, _spec_norm(kind, d['spec']), d['touch'], bool(d['holder']))
    o = observe_edit((logic, case))
    print('formula        :', fstr(case[0]), ' edited node at path', list(case[1]), ' kind', kind, ' spec', _short(repr(case[3]), 500), ' touch', case[4])
    if 'error' in o:
        print('impl           :', o['error'])
        R.violation('replayed', d)
        return
    g1, h1 = edit_expected(logic, case)
    print('impl before    :', repr(o.get('before')), ' holder:', repr(o.get('holder_before')))
    print('impl after     :', repr(o['after']), ' holder:', repr(o.get('holder_after')))
    print('tree after     :', fstr(o['tree_after']), ' (expected edit: %s)' % fstr(g1))
    outs = model_batch(edit_cmds(logic, case, o))
    print('model print    :', repr(str(outs[0])), '' if h1 is None else ' holder: %r' % str(outs[-1]))
    for P, r in zip(PARSED_BY[logic], o['parsed']):
        print('impl parse %-4s:' % P, _short(r, 700))
    bad, det = edit_check(logic, case, o, outs)
    print('differs        :', bad, _short(PG.compact(det), 3000))
    if bad:
        R.violation('replayed', d)
