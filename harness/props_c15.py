"""C15 - fairness restricts path quantifiers to fair paths.

The property is REFUTED on /repo in two recorded ways (known_findings.json):
  KF-C15-a  Kripke.get_fair_states rejects an SCC when `len(scc)==1 OR first node has no self loop` (should be AND)
  KF-C15-b  the reductions get_equivalent_non_fair_formula are not the Clarke-Grumberg-Peled fair semantics
so the level is "partial proof + refutation" (LEVEL = 'other').  The Gallina model is FAITHFUL to the code (defects
included), hence it is no positive evidence; the verdict logic is the asymmetric one of DESIGN section 5:

  impl == reference                       -> agrees outright
  impl != reference, impl == faithful model (and, for the fair set, the KF-C15-a predicate holds on the input)
                                           -> counted under the known finding (one KNOWN-FINDING line, exit code untouched)
  impl != reference, impl != faithful model-> VIOLATION (a new way of being wrong), replay = the input
  impl == reference != faithful model      -> no alarm; cov['known_finding_no_longer_reproduces']

Three observers: the implementation (live /repo objects), the faithful model (driver commands fair / ctlf / ltlf / ctlsf /
labelfair), and the reference (fairref = proved-exact repaired fair set, cross-checked against a brute force written here;
harness/ref.py = CGP fair semantics by brute force).  Asserted outright on every call, no known finding covers them: soundness
half of the fair set (impl subset of the true fair set), no exception for a well-formed formula of the called logic, documented
TypeError for an out-of-logic one, K untouched (no `fair...` label leaks), result a set of states of K, F=None == no F ==
unconstrained model."""
from common import *
from mccheck import *
import multiprocessing

LEVEL = 'other'
PID = 'C15'
KFA, KFB = 'KF-C15-a', 'KF-C15-b'
KF_WHAT = {
    KFA: "get_fair_states(F) misses truly fair states: is_a_fair_SCC rejects an SCC when len(scc)==1 OR its first-yielded "
         "node has no self loop (should be AND); the wrong fair set also propagates into modelcheck(...,F=F) "
         "(witness Kripke(R=[(0,0)]).get_fair_states([]) == set(); an F every path satisfies, e.g. F=[], changes the answer)",
    KFB: "modelcheck(K,f,F=F) is not the Clarke-Grumberg-Peled fair semantics although the fair set is right: the reductions "
         "EG(f & fair), A(fair -> g'), E(fair & g') accept unfair cycles inside the fair states "
         "(witness R=[(0,0),(0,1),(1,0)], p at 0, F=[{1}]: CTL 'E G p' gives {0})",
}
EXPLANATION = (
    "partial proof + refutation. Theorems (coq/Properties/C15.v): soundness of the coded fair set (every state returned by "
    "get_fair_states starts a fair path), exactness of the repaired fair set fair_states_ref (what a repair must compute), "
    "F=None is definitionally the unconstrained checker, the fairness rewritings stay inside their logic (no TypeError), the frame "
    "property with F given; refutation witnesses for completeness of the coded fair set (one self-loop state, F=[]), for "
    "'an F that every path satisfies changes nothing' and for the reductions with a correct fair set. Correspondence: the "
    "implementation is compared with the FAITHFUL model (defects included) and classified against an independent reference "
    "(proved-exact fairref + brute force fair set, brute-force CGP semantics harness/ref.py): equal to the reference = agrees; "
    "different from the reference but equal to the faithful model = known finding KF-C15-a/b; different from both = VIOLATION; "
    "soundness of the fair set, absence of exceptions, K unchanged, result a subset of the states and F=None are asserted outright.")

P_, Q_ = ('ap', 'p'), ('ap', 'q')
OPS1 = 'XFG'
OPS2 = 'UR'
MAXV = 25          # replay files per kind of violation


# ----------------------------------------------------------------------------------------------
# independent brute force on the input
# ----------------------------------------------------------------------------------------------
def reach1(succ):
    """state -> set of states reachable in >= 1 step"""
    out = {}
    for s in succ:
        seen, st = set(), [s]
        while st:
            x = st.pop()
            for y in succ[x]:
                if y not in seen:
                    seen.add(y)
                    st.append(y)
        out[s] = seen
    return out


def true_fair(kd, F):
    """states from which some infinite path visits every P in F infinitely often: those that reach (in >= 0 steps) a
    non-trivial SCC (>= 2 nodes or a self loop, i.e. the node reaches itself) meeting every P"""
    succ = succ_of(kd)
    r = reach1(succ)
    core = set()
    for s in succ:
        if s in r[s]:
            comp = {t for t in r[s] if s in r[t]}
            if all(comp & set(P) for P in F):
                core.add(s)
    return sorted(s for s in succ if s in core or r[s] & core)


def every_path_fair(kd, F):
    """every infinite path visits every P infinitely often <=> for each P no cycle avoids P"""
    succ = succ_of(kd)
    for P in F:
        P = set(P)
        sub = {s: [d for d in ds if d not in P] for s, ds in succ.items() if s not in P}
        r = reach1(sub)
        if any(s in r[s] for s in sub):
            return False
    return True


def kf_a_predicate(kd, F, scc_seq):
    """KF-C15-a predicate on the INPUT: some truly fair non-trivial SCC has size 1 or its first-yielded node lacks a self
    loop.  scc_seq = components in the yield order of compute_SCCs (read from the proved C12 model)."""
    succ = succ_of(kd)
    r = reach1(succ)
    for c in scc_seq:
        v = c[0]
        nontrivial = v in r[v]
        if nontrivial and all(set(c) & set(P) for P in F):
            if len(c) == 1 or v not in succ[v]:
                return True
    return False


# ----------------------------------------------------------------------------------------------
# formula pools (identifier atoms only: stays clear of KF-print-a; Boolean constants are read as in ref_form below because
# the CGP definition says nothing about them)
# ----------------------------------------------------------------------------------------------
def ctl_pool():
    lits = [P_, Q_, ('not', P_)]
    d1 = []
    for q in 'AE':
        for o in OPS1:
            d1 += [(q, (o, a)) for a in lits]
        for o in OPS2:
            d1 += [(q, (o, a, b)) for a in lits for b in lits]
    core = [(q, (o, P_)) for q in 'AE' for o in OPS1] + [(q, (o, P_, Q_)) for q in 'AE' for o in OPS2]
    d2 = []
    for q in 'AE':
        for o in OPS1:
            d2 += [(q, (o, g)) for g in core]
        for o in OPS2:
            for g in core:
                d2 += [(q, (o, g, Q_)), (q, (o, P_, g))]
    bl = [P_, ('not', P_), ('and', P_, Q_), ('or', P_, Q_), ('imp', P_, Q_)]
    bl += [('not', g) for g in core]
    bl += [('and', core[i], core[(i * 3 + 1) % len(core)]) for i in range(len(core))]
    bl += [('imp', core[i], core[(i * 7 + 2) % len(core)]) for i in range(len(core))]
    bl += [('or', core[i], ('not', core[(i + 5) % len(core)]), Q_) for i in range(len(core))]
    return d1 + CONST_CTL, d2 + bl


def path_pool(k, quant=False):
    """all path formulas with <= k operators over p, q (no constants); by number of operators"""
    by = {0: [P_, Q_]}
    un = ['not', 'X', 'F', 'G'] + (['A', 'E'] if quant else [])
    bi = ['or', 'and', 'imp', 'U', 'R']
    for n in range(1, k + 1):
        out = []
        for u in un:
            out += [(u, f) for f in by[n - 1]]
        for a in range(n):
            for op in bi:
                out += [(op, f, g) for f in by[a] for g in by[n - 1 - a]]
        by[n] = out
    return by


GF = lambda a: ('G', ('F', a))
FG = lambda a: ('F', ('G', a))
LTL_SPECIAL = [GF(P_), FG(P_), ('G', ('imp', P_, ('F', Q_))), ('imp', GF(P_), GF(Q_)), ('or', FG(P_), GF(Q_)),
               ('U', P_, ('G', Q_)), ('R', ('X', P_), Q_), ('and', GF(P_), GF(('not', P_))), ('X', ('U', P_, Q_)),
               ('G', ('or', P_, ('X', Q_)))]


def ltl_pool():
    by = path_pool(2)
    return [('A', g) for g in by[0] + by[1]] + [('A', g) for g in LTL_SPECIAL] + CONST_LTL, [('A', g) for g in by[2]]


def ctls_pool():
    by = path_pool(2)
    ops1 = by[1]
    first = [(q, g) for q in 'AE' for g in by[1]] + [(q, g) for q in 'AE' for g in LTL_SPECIAL]
    first += [('E', ('and', GF(P_), GF(Q_))), ('A', ('imp', GF(P_), GF(Q_))), ('E', ('and', ('F', ('A', ('G', P_))), ('G', Q_))),
              ('A', ('or', ('G', ('E', ('X', P_))), ('F', Q_))), ('E', ('G', ('F', ('E', ('X', P_))))),
              ('A', ('G', ('E', ('F', P_)))), ('E', ('F', ('A', ('G', P_)))), ('A', ('F', ('E', GF(P_)))),
              ('not', ('E', GF(P_))), ('and', ('E', FG(P_)), ('A', GF(Q_))), ('imp', ('A', GF(P_)), ('E', ('X', ('X', Q_)))),
              ('E', ('and', ('X', P_), ('X', Q_))), ('A', ('or', ('X', P_), ('X', ('not', P_)))), ('E', P_), ('A', ('not', P_)),
              ('E', ('A', P_)), ('and', P_, ('E', ('X', ('A', Q_))))] + CONST_CTLS
    nest = [(q, (o, (q2, g))) for q in 'AE' for o in OPS1 for q2 in 'AE' for g in ops1[::3]]
    nest += [(q, ('U', (q2, g), h)) for q in 'AE' for q2 in 'AE' for g in ops1[1::5] for h in ops1[2::9]]
    nest += [(q, ('and', (o, (q2, g)), ('X', h))) for q in 'AE' for o in 'FG' for q2 in 'AE' for g in ops1[::7] for h in (P_, Q_)]
    return first, nest + [(q, g) for q in 'AE' for g in by[2]]


TRUE_, FALSE_ = ('true',), ('false',)
CONST_CTL = [TRUE_, FALSE_, ('not', FALSE_), ('E', ('G', TRUE_)), ('A', ('F', FALSE_)), ('E', ('U', TRUE_, P_)), ('A', ('R', FALSE_, P_)),
             ('E', ('X', TRUE_)), ('A', ('U', P_, FALSE_)), ('and', TRUE_, ('E', ('F', Q_))), ('imp', TRUE_, ('A', ('G', P_)))]
CONST_LTL = [('A', TRUE_), ('A', FALSE_), ('A', ('G', TRUE_)), ('A', ('U', TRUE_, P_)), ('A', ('R', FALSE_, P_)), ('A', ('F', FALSE_)),
             ('A', ('or', ('X', FALSE_), P_))]
CONST_CTLS = [('E', GF(TRUE_)), ('A', FG(FALSE_)), ('E', ('and', ('X', TRUE_), ('G', P_))), ('or', FALSE_, ('E', GF(P_))),
              ('A', ('imp', GF(TRUE_), ('F', Q_))), ('E', ('F', ('A', ('G', TRUE_))))]


def ref_form(f):
    """reading of the Boolean constants for the reference: the library makes Bool a subclass of AtomicProposition, so under
    fairness `true` is the atom that holds everywhere ('holds and a fair path starts here' = harness/ref.py's reading) and
    `false` the atom that holds nowhere (p and not p); without fairness both readings are the usual ones"""
    if f[0] == 'false':
        return ('and', P_, ('not', P_))
    if f[0] in ('true', 'ap'):
        return f
    return (f[0],) + tuple(ref_form(g) for g in f[1:])


def noconst(f):
    if f[0] == 'true':
        return P_
    if f[0] == 'false':
        return Q_
    if f[0] == 'ap':
        return f
    return (f[0],) + tuple(noconst(g) for g in f[1:])


def n_temporal(f):
    return sum(1 for g in subformulas(f) if g[0] in TEMPORAL)


def rename(f, m):
    if f[0] == 'ap':
        return ('ap', m.get(f[1], f[1]))
    if f[0] in ('true', 'false'):
        return f
    return (f[0],) + tuple(rename(g, m) for g in f[1:])


def rename_kd(kd, m):
    return {'S': kd['S'], 'S0': kd['S0'], 'R': kd['R'], 'L': {s: [m.get(a, a) for a in ls] for s, ls in kd['L'].items()}}


def kfa_free_case(rng, n):
    """a random (structure, F) on which KF-C15-a cannot bite - every truly fair non-trivial SCC has >= 2 nodes, all with self
    loops, so the coded `len(scc)==1 or no self loop` test accepts it whatever node is yielded first - and whose true fair set
    is neither empty nor everything"""
    for _ in range(300):
        kd = rand_kripke(rng, n)
        succ = succ_of(kd)
        r = reach1(succ)
        Rl = list(kd['R'])
        for s in succ:
            if any(t != s and s in r[t] for t in r[s]) and s not in succ[s]:
                Rl.append((s, s))
        kd['R'] = Rl
        succ = succ_of(kd)
        r = reach1(succ)
        big = [s for s in succ if any(t != s and s in r[t] for t in r[s])]
        if not big:
            continue
        F = [[rng.choice(big)]] + ([[s for s in succ if rng.random() < 0.5]] if rng.random() < 0.4 else [])
        tf = true_fair(kd, F)
        if not 0 < len(tf) < n:
            continue
        ok = True
        for s in succ:
            if s in r[s]:
                comp = {t for t in r[s] if s in r[t]}
                if all(comp & set(P) for P in F) and (len(comp) < 2 or s not in succ[s]):
                    ok = False
        if ok:
            return kd, F
    return None


def clustered_case(rng):
    """2-3 clusters (strongly connected, 2-3 states each, EVERY state with a self loop, so the coded triviality test accepts each
    cluster whatever node is yielded first), joined by a few one-way edges and possibly an entry state; F = 1-2 sets, each inside ONE
    cluster or spanning two: some clusters are fair and some are not, so an error in how the constraints are applied to the
    SECOND, THIRD ... component (e.g. a consumed iterator, a wrong loop variable) shows up.  KF-C15-a cannot bite on clusters; an
    entry state without self loop is a trivial SCC and is never fair by itself."""
    k = rng.randint(2, 3)
    clusters, n = [], 0
    for _ in range(k):
        sz = rng.randint(2, 3)
        clusters.append(list(range(n, n + sz)))
        n += sz
    R = []
    for c in clusters:
        for a in c:
            R.append((a, a))
        for i, a in enumerate(c):
            R.append((a, c[(i + 1) % len(c)]))
        if len(c) == 3 and rng.random() < 0.5:
            R.append((c[0], c[2]))
    for i in range(k):
        for j in range(i + 1, k):
            if rng.random() < 0.4:
                R.append((rng.choice(clusters[i]), rng.choice(clusters[j])))
    states = list(range(n))
    if rng.random() < 0.6:
        e = n
        states.append(e)
        for c in rng.sample(clusters, rng.randint(1, k)):
            R.append((e, rng.choice(c)))
    # unfair exits: sink states (a self loop only - a trivial-size SCC, which no constraint inside a cluster can make fair)
    # reachable from cluster states, so that 'some successor satisfies q' and 'some FAIR successor satisfies q' differ
    for _ in range(rng.randint(0, 2)):
        t = len(states)
        states.append(t)
        R.append((t, t))
        for c in rng.sample(clusters, rng.randint(1, k)):
            R.append((rng.choice(c), t))
    F = []
    for _ in range(rng.randint(1, 2)):
        c = rng.choice(clusters)
        P = rng.sample(c, rng.randint(1, len(c)))
        if rng.random() < 0.25:
            P += rng.sample(rng.choice(clusters), 1)
        F.append(sorted(set(P)))
    order = states[:]
    rng.shuffle(order)
    L = {s: sorted(a for a in ('p', 'q') if rng.random() < 0.5) for s in states}
    Rs = R[:]
    rng.shuffle(Rs)
    return {'S': order, 'S0': [], 'R': Rs, 'L': L}, F


def all_F(states, maxsets=2):
    subs = [list(c) for r in range(len(states) + 1) for c in itertools.combinations(states, r)]
    out = [[]]
    for k in range(1, maxsets + 1):
        out += [list(t) for t in itertools.product(subs, repeat=k)]
    return out


def rand_F(rng, states, foreign=True):
    k = rng.choice([0, 1, 1, 1, 2, 2, 3])
    F = []
    for _ in range(k):
        P = [s for s in states if rng.random() < rng.choice([0.3, 0.5, 0.8])]
        if foreign and rng.random() < 0.08:
            P.append(9)
        F.append(P)
    return F


def mkF(F, kind):
    if kind == 'tuple':
        return tuple(frozenset(P) for P in F)
    if kind == 'frozen':
        return [frozenset(P) for P in F]
    return [set(P) for P in F]


def F_intact(Fa, F):
    """the caller's fairness argument after a call: same container, same sets, same contents"""
    try:
        return len(Fa) == len(F) and all(set(a) == set(b) for a, b in zip(Fa, F))
    except Exception:
        return False


# ----------------------------------------------------------------------------------------------
# the implementation side (runs in worker processes; pure function of the group description)
# ----------------------------------------------------------------------------------------------
def canon(r, K):
    if r[0] != 'ok':
        return r
    v = r[1]
    if not isinstance(v, set):
        return ('err', 'other:not-a-set:' + type(v).__name__)
    if not v <= set(K.states()):
        return ('err', 'other:not-a-subset-of-states:' + repr(sorted(map(repr, v))))
    return ('ok', sorted(v))


def impl_call(logic, K, f, mode, F=None, objlang=None):
    L = lang_module(logic)
    OL = lang_module(objlang or logic)
    if mode == 'plain':
        r = call(lambda: L.modelcheck(K, to_py(f, OL)))
    else:
        r = call(lambda: L.modelcheck(K, to_py(f, OL), F=F))
    return canon(r, K)


def snap_diff(a, b):
    la, lb = dict(a[2]), dict(b[2])
    added = sorted({x for s in lb for x in lb[s]} - {x for s in la for x in la.get(s, ())})
    return {'graph_changed': a[0] != b[0], 'S0_changed': a[1] != b[1], 'labels_changed': a[2] != b[2], 'labels_added': added}


def do_group(g):
    """g = {'kd', 'Fs': [(F, kind)], 'forms': [(logic, f)], 'bad': [(logic, f)]}"""
    kd = g['kd']
    box = {'K': kd_py(kd)}
    box['snap'] = kripke_snapshot(box['K'])

    def guarded(fn):
        """run fn(K); report whether K is unchanged; rebuild K if it was modified"""
        K = box['K']
        v = fn(K)
        s1 = kripke_snapshot(K)
        if s1 == box['snap']:
            return v, None
        d = snap_diff(box['snap'], s1)
        box['K'] = kd_py(kd)
        box['snap'] = kripke_snapshot(box['K'])
        return v, d

    res = {'kd': kd, 'plain': [], 'perF': []}
    for (logic, f) in g.get('forms', []):
        r_plain, d1 = guarded(lambda K: impl_call(logic, K, f, 'plain'))
        r_none, d2 = guarded(lambda K: impl_call(logic, K, f, 'F', None))
        res['plain'].append({'logic': logic, 'f': f, 'r_plain': r_plain, 'r_none': r_none, 'changed': d1 or d2,
                             'ref': sorted(ref_check(kd, ref_form(f))), 'cmd': model_cmd(logic, box['K'], f)})
    for (F, kind) in g['Fs']:
        tf = true_fair(kd, F)
        e = {'F': F, 'kind': kind, 'true_fair': tf, 'every_path_fair': every_path_fair(kd, F), 'cases': [], 'bad': []}
        # --- get_fair_states
        def gfs(K):
            Fa = mkF(F, kind)
            r = call(lambda: K.get_fair_states(Fa))
            if r[0] == 'ok' and not F_intact(Fa, F):
                return ('err', 'other:the-F-argument-was-modified:%r' % (Fa,))
            return canon(r, K)
        r, d = guarded(gfs)
        ks = kripke_sx(box['K'])
        Fs = [sorted(P) for P in F]
        e['fair'] = {'impl': r, 'changed': d, 'cmds': [['fair', ks, Fs], ['fairref', ks, Fs], ['scc', ks[0]]]}
        # --- label_fair_states on a private clone (public method; the label must be fresh)
        def lfs(K):
            C = K.clone()
            before = set(C.labels())
            r = call(lambda: C.label_fair_states(mkF(F, kind)))
            if r[0] != 'ok':
                return r
            name = r[1]
            return ('ok', [str(name), sorted(s for s in C.states() if name in C.labels(s)), name not in before,
                           sorted(s for s in C.states() if (set(C.labels(s)) - {name}) != set(K.labels(s)))])
        r, d = guarded(lfs)
        e['label'] = {'impl': r, 'changed': d, 'cmd': ['labelfair', ks, Fs]}
        # --- the three model checkers with F
        for i, (logic, f) in enumerate(g.get('forms', [])):
            Fa = mkF(F, kind)
            r, d = guarded(lambda K: impl_call(logic, K, f, 'F', Fa))
            if r[0] == 'ok' and not F_intact(Fa, F):
                r = ('err', 'other:the-F-argument-was-modified:%r' % (Fa,))
            e['cases'].append({'i': i, 'r': r, 'changed': d, 'ref': sorted(ref_check(kd, ref_form(f), [set(P) for P in F])),
                               'cmd': model_cmd(logic, box['K'], f, F)})
        for (logic, f) in g.get('bad', []):
            r, d = guarded(lambda K: impl_call(logic, K, f, 'F', mkF(F, kind), objlang='CTLS'))
            e['bad'].append({'logic': logic, 'f': f, 'r': r, 'changed': d, 'cmd': model_cmd(logic, box['K'], f, F)})
        res['perF'].append(e)
    return attach_model(res)


def attach_model(res):
    """run the extracted model on the commands of one group (inside the worker) and replace each command by its answer"""
    holders = [(p, 'cmd') for p in res['plain']]
    for e in res['perF']:
        holders += [(e['label'], 'cmd')] + [(c, 'cmd') for c in e['cases'] + e['bad']]
    cmds = [h[k] for h, k in holders]
    for e in res['perF']:
        cmds += e['fair']['cmds']
    outs = model_batch(cmds)
    for (h, k), o in zip(holders, outs):
        del h[k]
        h['out'] = o
    i = len(holders)
    for e in res['perF']:
        n = len(e['fair'].pop('cmds'))
        e['fair']['outs'] = outs[i:i + n]
        i += n
    res['n_model_commands'] = len(cmds)
    return res


def run_groups(groups, jobs):
    if jobs <= 1 or len(groups) < 8:
        return [do_group(g) for g in groups]
    ctx = multiprocessing.get_context('fork')
    with ctx.Pool(jobs) as pool:
        return pool.map(do_group, groups, chunksize=1 if len(groups) < 4000 else 4)


# ----------------------------------------------------------------------------------------------
# verdicts
# ----------------------------------------------------------------------------------------------
class Judge:
    def __init__(self, R):
        self.R = R
        self.nviol = {}
        self.stale = set()
        self.model_fair = []
        self.samples = {}
        self.hits = {KFA: 0, KFB: 0}
        self.first_hit = {}
        self.fair = {'explored': 0, 'agree_reference': 0, KFA: 0, 'repaired_model_stale': 0, 'violations': 0}
        self.mcs = {l: {'explored': 0, 'agree_reference': 0, KFA: 0, KFB: 0, 'repaired_model_stale': 0, 'violations': 0,
                       'fair_answer_differs_from_unconstrained': 0}
                   for l in ('CTL', 'LTL', 'CTLS')}
        self.trivF = {'explored': 0, 'equals_unconstrained': 0, 'differs_known_finding': 0}
        self.none = {'explored': 0, 'agree': 0}
        self.outright = {'calls': 0, 'formulas_with_constants': 0, 'out_of_logic_TypeError': 0, 'label_calls': 0,
                         'label_name_agrees_model': 0}
        self.hist = {'states': {}, 'F_sets': {}, 'ops': {}, 'true_fair_kind': {}}

    def viol(self, kind, what, data):
        self.nviol[kind] = self.nviol.get(kind, 0) + 1
        if self.nviol[kind] <= MAXV:
            data = dict(data)
            data['kind'] = kind
            self.R.violation(what, data)

    def keep(self, cls, x, per_class=1):
        l = self.samples.setdefault(cls, [])
        if len(l) < per_class:
            l.append(dict(x, classified=cls))

    def h(self, name, key):
        d = self.hist[name]
        d[str(key)] = d.get(str(key), 0) + 1

    def hit(self, fid, sample):
        self.hits[fid] += 1
        self.first_hit.setdefault(fid, sample)

    # ---- one (K, F): fair set and label
    def fair_set(self, kd, e, o_fair, o_ref, o_scc, o_label):
        R = self.R
        R.evaluations += 1
        self.fair['explored'] += 1
        F = e['F']
        base = {'kripke': kd_json(kd), 'F': F, 'Fkind': e['kind']}
        model = sorted(ints(o_fair))
        ref = sorted(ints(o_ref))
        tf = e['true_fair']
        if ref != tf:
            raise RuntimeError('machinery: fairref %s differs from the brute-force fair set %s on %s F=%s' % (ref, tf, kd, F))
        if e['every_path_fair'] and tf != sorted(succ_of(kd)):
            raise RuntimeError('machinery: every path fair but fair set %s not everything on %s F=%s' % (tf, kd, F))
        r = e['fair']['impl']
        obs = dict(base, impl=r, model=model, reference=tf)
        n = len(succ_of(kd))
        self.h('states', n)
        self.h('F_sets', len(F))
        self.h('true_fair_kind', 'empty' if not tf else ('all' if len(tf) == n else 'proper'))
        impl_wrong = True
        if e['fair']['changed']:
            self.viol('fair', 'get_fair_states modified K', dict(obs, changed=e['fair']['changed']))
            self.fair['violations'] += 1
        elif r[0] != 'ok':
            self.viol('fair', 'get_fair_states raised / returned a non-set: %s' % r[1], obs)
            self.fair['violations'] += 1
        else:
            impl = r[1]
            impl_wrong = impl != tf
            if not set(impl) <= set(tf):
                # soundness half (C15_fair_sound_partial) holds of the current code: asserted outright
                self.viol('fair', 'get_fair_states returned a state from which no fair path starts (soundness half)',
                          dict(obs, unfair_states_returned=sorted(set(impl) - set(tf))))
                self.fair['violations'] += 1
            elif impl == tf:
                self.fair['agree_reference'] += 1
                if model != tf:
                    self.fair['repaired_model_stale'] += 1
                    self.stale.add(KFA)
            elif impl == model and kf_a_predicate(kd, F, [ints(c) for c in o_scc]):
                self.fair[KFA] += 1
                self.hit(KFA, {'kripke_R': kd['R'], 'F': F, 'get_fair_states': impl, 'true_fair_set': tf})
            else:
                self.viol('fair', 'get_fair_states differs from the true fair set in a way that is not KF-C15-a '
                                  '(differs from the faithful model too, or the input is outside the predicate)',
                          dict(obs, kf_a_predicate=kf_a_predicate(kd, F, [ints(c) for c in o_scc])))
                self.fair['violations'] += 1
            if F and 0 < len(tf) < n:
                R.nontriv(('fair', tuple(kd['S']), tuple(kd['R']), tuple(map(tuple, F))))
                self.keep('fair_' + ('agrees' if impl == tf else 'known_finding_a'),
                          {'kripke_R': kd['R'], 'F': F, 'get_fair_states': impl, 'true_fair_set': tf, 'faithful_model': model})
        # label_fair_states
        self.outright['label_calls'] += 1
        lr = e['label']['impl']
        lobs = dict(base, impl=lr, impl_fair=r)
        if e['label']['changed']:
            self.viol('label', 'label_fair_states on a clone modified the original K', dict(lobs, changed=e['label']['changed']))
        elif lr[0] != 'ok':
            self.viol('label', 'label_fair_states raised %s' % lr[1], lobs)
        else:
            name, labelled, fresh, others = lr[1]
            if not fresh:
                self.viol('label', 'label_fair_states returned a label that already labels a state', lobs)
            elif others:
                self.viol('label', 'label_fair_states changed other labels', lobs)
            elif r[0] == 'ok' and labelled != r[1]:
                self.viol('label', 'label_fair_states labels other states than get_fair_states returns', lobs)
            elif str(o_label[1]) == name:
                self.outright['label_name_agrees_model'] += 1
        return impl_wrong

    # ---- F=None / no F
    def unconstrained(self, kd, p, o):
        self.none['explored'] += 1
        m = model_obs(o)
        obs = {'kripke': kd_json(kd), 'logic': p['logic'], 'formula': p['f'], 'formula_str': fstr(p['f']), 'F': None,
               'impl_no_F': p['r_plain'], 'impl_F_None': p['r_none'], 'model': m, 'reference': p['ref']}
        if p['changed']:
            self.viol('none', '%s.modelcheck without fairness modified K' % p['logic'], dict(obs, changed=p['changed']))
        elif tuple(p['r_none']) != tuple(p['r_plain']):
            self.viol('none', '%s.modelcheck(K,f,F=None) differs from modelcheck(K,f)' % p['logic'], obs)
        elif tuple(p['r_none']) != m:
            self.viol('none', '%s.modelcheck(K,f,F=None) differs from the unconstrained (proved exact) model' % p['logic'], obs)
        else:
            if m[0] == 'ok' and m[1] != p['ref']:
                raise RuntimeError('machinery: proved unconstrained model %s differs from the reference %s on %s %s'
                                   % (m, p['ref'], kd, fstr(p['f'])))
            self.none['agree'] += 1

    # ---- one (K, F, f, logic)
    def mc(self, kd, e, p, c, o, impl_fair_wrong):
        R = self.R
        R.evaluations += 1
        logic, f, F = p['logic'], p['f'], e['F']
        st = self.mcs[logic]
        st['explored'] += 1
        self.outright['calls'] += 1
        if has_const(f):
            self.outright['formulas_with_constants'] += 1
        self.h('ops', f[0] + f[1][0] if f[0] in ('A', 'E') else f[0])
        m = model_obs(o)
        r, ref = tuple(c['r']), c['ref']
        obs = {'kripke': kd_json(kd), 'F': F, 'Fkind': e['kind'], 'logic': logic, 'formula': f, 'formula_str': fstr(f),
               'impl': r, 'model': m, 'reference': ref, 'reference_unconstrained': p['ref'], 'true_fair_set': e['true_fair'],
               'impl_fair_set_wrong': impl_fair_wrong}
        if e['every_path_fair']:
            if ref != p['ref']:
                raise RuntimeError('machinery: every path satisfies F but fair reference differs from unconstrained: %s' % obs)
            self.trivF['explored'] += 1
        if c['changed']:
            st['violations'] += 1
            return self.viol('mc', '%s.modelcheck(K,f,F=F) modified K (%s)' % (logic, c['changed']), dict(obs, changed=c['changed']))
        if r[0] != 'ok':
            st['violations'] += 1
            return self.viol('mc', '%s.modelcheck(K,f,F=F) raised / returned a non-set for a well-formed %s formula: %s'
                             % (logic, logic, r[1]), obs)
        differs_plain = ref != p['ref']
        if differs_plain:
            st['fair_answer_differs_from_unconstrained'] += 1
        nontrivial = differs_plain or (F and 0 < len(e['true_fair']) < len(succ_of(kd)))
        if r[1] == ref:
            st['agree_reference'] += 1
            if e['every_path_fair']:
                self.trivF['equals_unconstrained'] += 1
            if m != r:
                st['repaired_model_stale'] += 1
                self.stale.add(KFA if sorted(e['true_fair']) != sorted(self.model_fair) else KFB)
        elif r == m:
            fid = KFA if impl_fair_wrong else KFB
            st[fid] += 1
            if e['every_path_fair']:
                self.trivF['differs_known_finding'] += 1
            self.hit(fid, {'kripke_R': kd['R'], 'L': kd['L'], 'F': F, 'logic': logic, 'formula': fstr(f), 'modelcheck': r[1],
                           'fair_semantics': ref})
        else:
            st['violations'] += 1
            return self.viol('mc', '%s.modelcheck(K,f,F=F) differs from the fair semantics AND from the faithful model of the '
                                   'coded reduction (not KF-C15-a/b)' % logic, obs)
        if nontrivial:
            R.nontriv(('mc', logic, tuple(kd['S']), tuple(kd['R']), json.dumps(kd_json(kd)['L'], sort_keys=True), tuple(map(tuple, F)), f))
            if differs_plain and F and 0 < len(e['true_fair']) < len(succ_of(kd)):
                cls = 'agrees' if r[1] == ref else ('known_finding_a' if impl_fair_wrong else 'known_finding_b')
                self.keep('%s_%s' % (logic, cls),
                          {'kripke_R': kd['R'], 'L': kd['L'], 'F': F, 'logic': logic, 'formula': fstr(f), 'impl': r[1],
                           'fair_semantics': ref, 'unconstrained': p['ref'], 'faithful_model': m[1] if m[0] == 'ok' else m})

    def bad(self, kd, e, c, o):
        self.outright['calls'] += 1
        r = tuple(c['r'])
        obs = {'kripke': kd_json(kd), 'F': e['F'], 'Fkind': e['kind'], 'logic': c['logic'], 'formula': c['f'],
               'formula_str': fstr(c['f']), 'impl': r, 'model': model_obs(o), 'out_of_logic': True}
        if c['changed']:
            self.viol('bad', '%s.modelcheck(K,f,F=F) on an out-of-logic formula modified K' % c['logic'], dict(obs, changed=c['changed']))
        elif r != ('err', 'TypeError'):
            self.viol('bad', '%s.modelcheck(K,f,F=F) on a formula outside %s: expected the documented TypeError, got %s'
                      % (c['logic'], c['logic'], r), obs)
        else:
            self.outright['out_of_logic_TypeError'] += 1


def judge_all(R, J, results):
    """classify the observations of all groups (the model answers were attached by the workers)"""
    n = 0
    for res in results:
        kd = res['kd']
        n += res['n_model_commands']
        for p in res['plain']:
            J.unconstrained(kd, p, p['out'])
        for e in res['perF']:
            o_fair, o_ref, o_scc = e['fair']['outs']
            J.model_fair = ints(o_fair)
            wrong = J.fair_set(kd, e, o_fair, o_ref, o_scc, e['label']['out'])
            for c in e['cases']:
                J.mc(kd, e, res['plain'][c['i']], c, c['out'], wrong)
            for c in e['bad']:
                J.bad(kd, e, c, c['out'])
    return n


# ----------------------------------------------------------------------------------------------
# case generation
# ----------------------------------------------------------------------------------------------
BAD = [('CTL', ('E', GF(P_))), ('CTL', ('A', ('and', ('X', P_), ('X', Q_)))), ('CTL', ('X', P_)), ('CTL', ('E', ('U', ('X', P_), Q_))),
       ('LTL', ('E', ('G', P_))), ('LTL', ('A', ('G', ('E', ('X', P_))))), ('LTL', ('G', P_)), ('LTL', ('not', ('A', ('G', P_))))]
RENAMES = [{'p': 'fair', 'q': 'fair0'}, {'p': 'fair0', 'q': 'fair'}, {'p': 'fair', 'q': 'fair1'}]
KINDS = ['list', 'list', 'list', 'frozen', 'tuple']


def witness_groups():
    """the corpus: the witnesses of both known findings and of the two fixed: entries run first"""
    k1 = {'S': [0], 'S0': [], 'R': [(0, 0)], 'L': {0: ['p']}}
    k2 = {'S': [0, 1], 'S0': [0], 'R': [(0, 0), (0, 1), (1, 0)], 'L': {0: ['p'], 1: []}}
    k3 = {'S': [0, 1, 2], 'S0': [], 'R': [(0, 1), (1, 0), (1, 2), (2, 2)], 'L': {0: ['p', 'fair'], 1: ['q'], 2: ['fair0']}}
    forms = [('CTL', ('E', ('G', P_))), ('CTL', ('E', ('R', P_, Q_))), ('CTL', ('A', ('U', P_, Q_))), ('CTL', ('E', ('R', Q_, P_))),
             ('CTL', ('A', ('R', P_, Q_))), ('LTL', ('A', ('G', P_))), ('LTL', ('A', GF(Q_))), ('LTL', ('A', ('R', P_, Q_))),
             ('CTLS', ('E', ('G', P_))), ('CTLS', ('E', ('R', P_, Q_))), ('CTLS', ('A', FG(P_))), ('CTLS', ('E', GF(('E', ('X', P_)))))]
    forms3 = forms + [(l, rename(f, RENAMES[0])) for l, f in forms]
    return [{'kd': k1, 'Fs': [([], 'list'), ([[0]], 'list'), ([[]], 'list')], 'forms': forms, 'bad': BAD},
            {'kd': k2, 'Fs': [([[1]], 'list'), ([], 'list'), ([[0], [1]], 'tuple'), ([[0, 1]], 'frozen')], 'forms': forms, 'bad': BAD},
            {'kd': k3, 'Fs': [([[2]], 'list'), ([[0]], 'list'), ([[0], [2]], 'list'), ([], 'list'), ([[9]], 'list')], 'forms': forms3}]


def variant(rng, kd):
    """presentation / naming variants: insertion order of S and R; labels named like the fresh fair label"""
    kd = dict(kd)
    x = rng.random()
    if x < 0.35:
        S = list(kd['S'])
        Rr = list(kd['R'])
        rng.shuffle(S)
        rng.shuffle(Rr)
        kd['S'], kd['R'] = S, Rr
    m = None
    y = rng.random()
    if y < 0.15:
        m = rng.choice(RENAMES)
        kd = rename_kd(kd, m)
    elif y < 0.25:
        kd['L'] = {s: list(ls) + (['fair'] if rng.random() < 0.5 else []) + (['fair0'] if rng.random() < 0.2 else [])
                   for s, ls in kd['L'].items()}
    return kd, m


def pick(rng, pools, n_first, n_rest):
    first, rest = pools
    return rng.sample(first, min(n_first, len(first))) + rng.sample(rest, min(n_rest, len(rest)))


def small_random_formulas(rng, n_each, depth):
    out = []
    for _ in range(n_each):
        for logic in ('CTL', 'LTL', 'CTLS'):
            for _try in range(20):
                if logic == 'CTL':
                    f = rand_ctl(rng, rng.randint(1, depth))
                elif logic == 'LTL':
                    f = ('A', rand_path(rng, rng.randint(1, depth)))
                else:
                    f = rand_ctls_state(rng, rng.randint(1, depth))
                if n_temporal(f) <= 4 and fsize(f) <= 14:
                    out.append((logic, f))
                    break
    return out


def has_const(f):
    return any(g[0] in ('true', 'false') for g in subformulas(f))


def build_groups(R):
    rng = R.rng
    T = R.thorough
    pools = {'CTL': ctl_pool(), 'LTL': ltl_pool(), 'CTLS': ctls_pool()}
    R.cov['template_pool_sizes'] = {l: len(a) + len(b) for l, (a, b) in pools.items()}
    quota = {'CTL': (8, 8), 'LTL': (5, 3), 'CTLS': (6, 5)} if T else {'CTL': (2, 1), 'LTL': (1, 1), 'CTLS': (1, 1)}

    def forms_for(m, half=None):
        fs = []
        for l in ('CTL', 'LTL', 'CTLS'):
            a, b = quota[l]
            if half is not None and l == 'LTL':
                a, b = (1, 0) if half == 0 else (0, 1)
            fs += [(l, f) for f in pick(rng, pools[l], a, b)]
        if m:
            fs = [(l, rename(f, m)) for l, f in fs]
        return fs
    groups = witness_groups()
    # (a) every structure with <= 2 states x every F of <= 2 sets (ordered lists in thorough, one order of each pair in quick;
    #     stream (b) has both orders) x sampled templates of the three logics
    #     (quick: the F's of a structure are split at random into two halves, each with its own sample of templates)
    for n in (1, 2):
        Fs = all_F(list(range(n)))
        for kd0 in all_kripkes(n):
            kd, m = variant(rng, kd0)
            FK = [(F, rng.choice(KINDS)) for F in Fs if T or len(F) < 2 or F[0] <= F[1]]
            if T:
                parts = [(FK, forms_for(m))]
            else:
                rng.shuffle(FK)
                h = (len(FK) + 1) // 2
                parts = [(FK[:h], forms_for(m, 0)), (FK[h:], forms_for(m, 1))]
            for FKp, forms in parts:
                g = {'kd': kd, 'Fs': FKp, 'forms': forms}
                if rng.random() < 0.3:
                    g['forms'] = forms + [(l, f) for l, f in small_random_formulas(rng, 3, 2) if has_const(f)][:2]
                if rng.random() < 0.1:
                    g['bad'] = rng.sample(BAD, 3)
                groups.append(g)
    # (b) fair sets alone: every graph with <= 3 states (labels irrelevant) x every F of <= 2 sets, two insertion orders
    gs3 = []
    for n in (1, 2, 3):
        states = list(range(n))
        Fs = all_F(states)
        choices = [c for r in range(1, n + 1) for c in itertools.combinations(states, r)]
        for succs in itertools.product(choices, repeat=n):
            Rl = [(s, d) for s in states for d in succs[s]]
            gs3.append({'S': states, 'S0': [], 'R': Rl, 'L': {s: [] for s in states}})
    for kd in gs3:
        n = len(kd['S'])
        Fs = all_F(kd['S'])
        if n == 3 and not T:
            Fs = rng.sample(Fs, 16)
        groups.append({'kd': kd, 'Fs': [(F, 'list') for F in Fs]})
        if n >= 2:
            kd2 = dict(kd, S=list(reversed(kd['S'])), R=list(reversed(kd['R'])))
            groups.append({'kd': kd2, 'Fs': [(F, 'list') for F in (Fs if T else rng.sample(Fs, min(8, len(Fs))))]})
    # (c) 3-state structures with formulas (sampled; every F of <= 2 sets in thorough for a sample of structures)
    n3 = 600 if T else 60
    states = [0, 1, 2]
    F3 = all_F(states)
    labsets = [list(c) for r in range(3) for c in itertools.combinations(('p', 'q'), r)]
    for i in range(n3):
        kd0 = dict(rng.choice(gs3[-343:]))
        kd0['L'] = {s: list(rng.choice(labsets)) for s in states}
        kd, m = variant(rng, kd0)
        Fs = rng.sample(F3, 10 if T else 5)
        groups.append({'kd': kd, 'Fs': [(F, rng.choice(KINDS)) for F in Fs], 'forms': forms_for(m)[::(2 if T else 1)]})
    # (d) random structures with <= 5 states, random F (<= 3 sets, occasionally a foreign element), random formulas
    for i in range(2500 if T else 200):
        n = rng.randint(1, 5)
        kd, m = variant(rng, rand_kripke(rng, n))
        fs = small_random_formulas(rng, 2, 3)
        forms = [(l, f if rng.random() < 0.35 else noconst(f)) for l, f in fs]
        if m:
            forms = [(l, rename(f, m)) for l, f in forms]
        g = {'kd': kd, 'Fs': [(rand_F(rng, kd['S']), rng.choice(KINDS)) for _ in range(3 if T else 2)], 'forms': forms}
        if rng.random() < 0.05:
            g['bad'] = rng.sample(BAD, 2)
        groups.append(g)
    # (e) (structure, F) on which KF-C15-a cannot bite (every truly fair non-trivial SCC has >= 2 nodes, all with self loops)
    #     and whose fair set is proper: the implementation's fair set is right and the reductions themselves are exercised
    ne = 0
    for i in range(1200 if T else 130):
        c = kfa_free_case(rng, rng.randint(3, 5))
        if c is None:
            continue
        ne += 1
        kd, m = variant(rng, c[0])
        forms = forms_for(m)[::(3 if T else 1)] + [(l, rename(noconst(f), m or {})) for l, f in small_random_formulas(rng, 1, 3)]
        Fs = [c[1], list(reversed(c[1])) + [list(kd['S'])], rand_F(rng, kd['S'], foreign=False)]
        groups.append({'kd': kd, 'Fs': [(F, rng.choice(KINDS)) for F in Fs], 'forms': forms})
    R.cov['kfa_free_proper_cases'] = ne
    # (f) clustered structures: several non-trivial components, constraints that only some of them meet
    nf = 0
    for i in range(600 if T else 90):
        kd0, F = clustered_case(rng)
        kd, m = variant(rng, kd0)
        forms = forms_for(m)[::(6 if T else 4)] + [(l, rename(noconst(f), m or {})) for l, f in small_random_formulas(rng, 1, 2)]
        # quantifiers nested in BOTH operands of until / release and under X: each level must be fair-rewritten
        a, b = rng.sample([P_, Q_, ('not', P_), ('not', Q_)], 2)
        inner = rng.choice([('E', ('X', b)), ('A', ('X', b)), ('E', ('G', b)), ('A', ('F', b)), ('and', ('not', b), ('E', ('X', b)))])
        nested = [('CTL', ('E', ('U', a, inner))), ('CTL', ('E', ('R', inner, a))), ('CTL', ('A', ('U', inner, a))), ('CTL', ('E', ('R', a, inner))),
                  ('CTL', ('E', ('X', ('E', ('U', a, inner))))), ('CTLS', ('E', ('U', a, inner))), ('CTLS', ('A', ('R', a, inner)))]
        forms = forms + [(l, rename(f, m or {})) for l, f in rng.sample(nested, 4)]
        Fs = [F, list(reversed(F)), rand_F(rng, kd['S'], foreign=False)]
        groups.append({'kd': kd, 'Fs': [(Fx, rng.choice(KINDS)) for Fx in Fs], 'forms': forms})
        nf += 1
    R.cov['clustered_cases'] = nf
    return groups


def rewriting_tie(R):
    """syntactic tie of the fairness rewriting: the tree returned by get_equivalent_non_fair_formula(a) on live
    CTL / CTL* / LTL objects equals the tree of the model's unfair_ctl / unfair_ctls (coq/Model/Fair.v).  A difference
    means the model no longer describes the coded reduction (the behavioural comparison then decides whether the
    property is affected): reported as no-failing-input-found."""
    import mccheck
    rng = random.Random(R.seed + 15)
    items = []
    for f in mccheck.ctl_formulas_depth(1):
        items.append(('CTL', f))
    for f in rng.sample(mccheck.ctl_formulas_depth(2), 600 if R.thorough else 150):
        items.append(('CTL', f))
    pool = mccheck.path_formulas_ops(2, quant=True)
    for g in rng.sample(pool, min(len(pool), 1500 if R.thorough else 250)):
        items.append(('CTLS', g))
    lp = mccheck.path_formulas_ops(2)
    for g in rng.sample(lp, min(len(lp), 800 if R.thorough else 150)):
        items.append(('LTL', g))
        items.append(('LTL', ('A', g)))
    for _ in range(1500 if R.thorough else 200):
        items.append(('CTL', rand_ctl(rng, rng.randint(2, 4))))
        items.append(('CTLS', rand_path(rng, rng.randint(2, 4), quant=True)))
    cmds, obs = [], []
    for logic, f in items:
        L = lang_module(logic)
        a = rng.choice(['fair', 'fair0', 'x'])
        o = to_py(f, L)
        s0 = str(o)
        r = call(lambda: tree_of(o.get_equivalent_non_fair_formula(a)))
        obs.append((logic, f, a, r, str(o) == s0))
        cmds.append(['unfairctl' if logic == 'CTL' else 'unfairctls', Q(a), fsx(f)])
    outs = model_batch_parallel(cmds)
    nbad = 0
    for (logic, f, a, r, same), o in zip(obs, outs):
        R.evaluations += 1
        if logic == 'CTL':
            m = ('ok', fparse(o[1])) if o[0] == 'some' else ('err', 'TypeError')
        else:
            m = ('ok', fparse(o))
        if tuple(r) != m or not same:
            nbad += 1
            if nbad <= 10:
                R.violation('get_equivalent_non_fair_formula differs from the model of the coded reduction' + ('' if same else ' (and modified the formula)'),
                            {'correspondence': 'fairness rewriting (unfair_ctl / unfair_ctls)', 'logic': logic, 'formula': f, 'formula_str': fstr(f),
                             'fair_atom': a, 'impl': r, 'model': m}, no_input=same)
        else:
            R.count('rewriting_tie_agree')
    R.cov['rewriting_tie'] = {'compared': len(items), 'differences': nbad}


# ----------------------------------------------------------------------------------------------
# ----------------------------------------------------------------------------------------------
# structures that LIVE: the caller edits K (add_edge between existing states, new states) between two get_fair_states calls
# ----------------------------------------------------------------------------------------------
def evolving_structures(R):
    """get_fair_states must answer for the structure AS IT IS NOW: after every caller edit through the public API the fair set
    is compared with the faithful model run on the presentation read back from the live object (so KF-C15-a is reproduced, not
    flagged) - something remembered from before the edit (e.g. a cached reversed graph) shows up as a difference"""
    rng = random.Random(R.seed + 1515)
    cmds, meta = [], []
    for case in range(1200 if R.thorough else 150):
        n = rng.randint(2, 5)
        kd = clustered_case(rng)[0] if rng.random() < 0.4 else rand_kripke(rng, n)
        K = kd_py(kd)
        F = rand_F(rng, list(K.states()), foreign=False)
        trace = []
        for step in range(rng.randint(2, 4)):
            r = canon(call(lambda: K.get_fair_states(mkF(F, rng.choice(['list', 'tuple', 'frozen'])))), K)
            cmds.append(['fair', kripke_sx(K), [sorted(P) for P in F]])
            meta.append((case, kd, F, list(trace), r))
            st = sorted(K.states())
            non_edges = [(a, b) for a in st for b in st if b not in K.next(a)]
            if non_edges and rng.random() < 0.8:
                a, b = rng.choice(non_edges)
                K.add_edge(a, b)
                trace.append(['add_edge', a, b])
            else:
                v = max(st) + 1
                a, b = rng.choice(st), rng.choice(st)    # a new state needs a successor (totality is the caller's duty here)
                K.add_edge(v, a)
                K.add_edge(b, v)
                trace += [['add_edge', v, a], ['add_edge', b, v]]
    outs = model_batch_parallel(cmds)
    bad = 0
    for (case, kd, F, trace, r), o in zip(meta, outs):
        R.evaluations += 1
        m = ('ok', sorted(ints(o)))
        if tuple(r) != m:
            bad += 1
            if bad <= 5:
                R.violation('get_fair_states after the caller edited K differs from the faithful model on the current structure',
                            {'stream': 'evolving', 'kripke': kd_json(kd), 'F': F, 'caller_edits_so_far': trace, 'impl': r, 'model_on_current_structure': m})
        elif trace:
            R.nontriv(('evolving', case, len(trace)))
    R.cov['evolving_structures'] = {'get_fair_states_calls': len(meta), 'differences': bad}


def run(R):
    R.rule = ('(K, F) and (K, F, formula, logic): the witnesses of KF-C15-a/b and of the two fixed: entries; every total structure with '
              '<= 2 states over labels {p,q} x every list F of <= 2 subsets of the states (both orders of a pair in thorough) x templates sampled per structure '
              '(CTL: every A/E x X/F/G/U/R over literals incl. E(f R g), A(f U g), one level of nesting, Boolean combinations; LTL: A g for '
              'every g with <= 1 operator, sampled 2-operator g, GF/FG patterns; CTL*: A/E over non-CTL path formulas, nested quantifiers); '
              'fair sets alone on every graph with <= 3 states x every F of <= 2 sets (sampled F for 3 states in quick) in two insertion '
              'orders; sampled 3-state structures; random structures with <= 5 states, random F of <= 3 sets (containers list/tuple, '
              'set/frozenset, occasionally a foreign element), random formulas of depth <= 3; random (structure, F) with 3-5 states on which '
              'KF-C15-a cannot bite (truly fair SCCs have >= 2 nodes, each with a self loop) and whose fair set is proper, so that the '
              'reductions are exercised on correct fair sets; a share of the structures is presented with '
              'shuffled insertion order and with labels named fair/fair0/fair1 (used by the formula or not); identifier atoms only; Boolean '
              'constants occur in a minority of formulas and are read as atoms (true = holds everywhere, false = nowhere). Non-trivial: F non-empty and the true fair '
              'set neither empty nor everything, or the fair reference answer differs from the unconstrained one; distinct by '
              '(structure, F[, logic, formula])')
    R.cov['explanation'] = EXPLANATION
    rewriting_tie(R)
    evolving_structures(R)
    groups = build_groups(R)
    t0 = time.time()
    results = run_groups(groups, jobs=min(16, os.cpu_count() or 1))
    t1 = time.time()
    J = Judge(R)
    ncmds = judge_all(R, J, results)
    R.cov['wall_split_s'] = {'implementation+reference+model (worker pool)': round(t1 - t0, 1), 'classification': round(time.time() - t1, 1),
                             'model_commands': ncmds, 'groups': len(groups)}
    R.samples = [x for cls in sorted(J.samples) for x in J.samples[cls]]
    R.cov['fair_set'] = J.fair
    R.cov['modelcheck_with_F'] = J.mcs
    R.cov['F_every_path_satisfies'] = J.trivF
    R.cov['F_None'] = J.none
    R.cov['asserted_outright'] = J.outright
    R.cov['distribution'] = J.hist
    tot = {k: J.fair.get(k, 0) + sum(J.mcs[l].get(k, 0) for l in J.mcs) for k in ('explored', 'agree_reference', KFA, KFB)}
    R.cov['classification_total'] = {'explored_inputs': tot['explored'], 'agree_with_reference_outright': tot['agree_reference'],
                                     'under_' + KFA: tot[KFA], 'under_' + KFB: tot[KFB],
                                     'violations': sum(J.nviol.values())}
    if sum(J.nviol.values()) > len(R.violations):
        R.cov['violations_not_written_as_replays'] = sum(J.nviol.values()) - len(R.violations)
    for fid in (KFA, KFB):
        n = J.hits[fid]
        if n:
            R.known_hits[fid] = n
            known_finding_line(PID, fid, '%s (%d explored inputs)' % (KF_WHAT[fid], n))
            R.cov.setdefault('known_finding_first_hit', {})[fid] = J.first_hit[fid]
        else:
            J.stale.add(fid)
    if J.stale:
        R.cov['known_finding_no_longer_reproduces'] = ','.join(sorted(J.stale))
    R.exhaustive = False


def detup(x):
    if isinstance(x, list):
        return tuple(detup(y) for y in x)
    return x


def replay(R, data):
    d = data['data']
    if 'kripke' not in d:
        print('nothing to replay (proof gate entry):', data.get('what'))
        return
    kd = kd_from_json(d['kripke'])
    F = d.get('F')
    if d.get('stream') == 'evolving':
        K = kd_py(kd)
        call(lambda: K.get_fair_states(mkF(F, 'list')))          # the caller had asked before editing
        for ed in d['caller_edits_so_far']:
            if ed[0] == 'add_edge':
                K.add_edge(ed[1], ed[2])
                print('caller: K.add_edge(%r, %r)' % (ed[1], ed[2]))
                call(lambda: K.get_fair_states(mkF(F, 'list')))
        r = canon(call(lambda: K.get_fair_states(mkF(F, 'list'))), K)
        m = ('ok', sorted(ints(model_batch([['fair', kripke_sx(K), [sorted(P) for P in F]]])[0])))
        print('impl :', r)
        print('model on the current structure:', m)
        if tuple(r) != m:
            R.violation('replayed', d)
        return
    kind = d.get('Fkind', 'list')
    g = {'kd': kd, 'Fs': [] if F is None else [(F, kind)]}
    if 'formula' in d:
        key = 'bad' if d.get('out_of_logic') else 'forms'
        g[key] = [(d['logic'], detup(d['formula']))]
    res = do_group(g)
    J = Judge(R)
    judge_all(R, J, [res])
    print('structure:', kd)
    print('F        :', F, '(%s)' % kind)
    for p in res['plain']:
        print('formula  :', p['logic'], fstr(p['f']))
        print('  impl without F / F=None :', p['r_plain'], '/', p['r_none'], '   model:', model_obs(p['out']), '   reference:', p['ref'])
    for e in res['perF']:
        o = e['fair']['outs']
        print('get_fair_states: impl', e['fair']['impl'], ' faithful model', sorted(ints(o[0])), ' fairref', sorted(ints(o[1])),
              ' brute force', e['true_fair'], ' K changed:', e['fair']['changed'])
        print('label_fair_states:', e['label']['impl'], ' model label', e['label']['out'][1], ' K changed:', e['label']['changed'])
        for c in e['cases'] + e['bad']:
            print('  modelcheck with F: impl', c['r'], ' faithful model', model_obs(c['out']), ' fair reference', c.get('ref', '-'),
                  ' K changed:', c['changed'])
    print('classification:', {'fair_set': J.fair, 'modelcheck': {l: v for l, v in J.mcs.items() if v['explored']},
                              'violations': J.nviol, 'known findings': J.hits})
