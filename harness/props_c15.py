"""C15 - fairness restricts path quantifiers to fair paths.

The property is REFUTED on /repo in two recorded ways (known_findings.json):
  KF-C15-a  Kripke.get_fair_states rejects an SCC when `len(scc)==1 OR first node has no self loop` (should be AND)
  KF-C15-b  the reductions get_equivalent_non_fair_formula are not the Clarke-Grumberg-Peled fair semantics
so the level is "partial proof + refutation" (LEVEL = 'other').  The Gallina model is FAITHFUL to the code (defects
included), hence it is no positive evidence; the verdict logic is the asymmetric one of DESIGN section 5:

  impl == reference                       -> agrees outright
  impl != reference, impl == faithful model (and, for the fair set, the KF-C15-a predicate holds on the input)
                                           -> counted under the known finding (one KNOWN-FINDING line, exit code untouched)
  impl != reference, impl != faithful model-> VIOLATION (a new way of being wrong), replay = the input
  impl == reference != faithful model      -> no alarm; cov['known_finding_no_longer_reproduces']

Three observers: the implementation (live /repo objects), the faithful model (driver commands fair / ctlf / ltlf / ctlsf /
labelfair), and the reference (fairref = proved-exact repaired fair set, cross-checked against a brute force written here;
harness/ref.py = CGP fair semantics by brute force).  Asserted outright on every call, no known finding covers them: soundness
half of the fair set (impl subset of the true fair set), no exception for a well-formed formula of the called logic, documented
TypeError for an out-of-logic one, K untouched (no `fair...` label leaks), result a set of states of K, F=None == no F ==
unconstrained model."""
from common import *
from mccheck import *
import multiprocessing

LEVEL = 'other'
PID = 'C15'
KFA, KFB = 'KF-C15-a', 'KF-C15-b'
KF_WHAT = {
    KFA: "get_fair_states(F) misses truly fair states: is_a_fair_SCC rejects an SCC when len(scc)==1 OR its first-yielded "
         "node has no self loop (should be AND); the wrong fair set also propagates into modelcheck(...,F=F) "
         "(witness Kripke(R=[(0,0)]).get_fair_states([]) == set(); an F every path satisfies, e.g. F=[], changes the answer)",
    KFB: "modelcheck(K,f,F=F) is not the Clarke-Grumberg-Peled fair semantics although the fair set is right: the reductions "
         "EG(f & fair), A(fair -> g'), E(fair & g') accept unfair cycles inside the fair states "
         "(witness R=[(0,0),(0,1),(1,0)], p at 0, F=[{1}]: CTL 'E G p' gives {0})",
}
EXPLANATION = (
    "partial proof + refutation. Theorems (coq/Properties/C15.v): soundness of the coded fair set (every state returned by "
    "get_fair_states starts a fair path), exactness of the repaired fair set fair_states_ref (what a repair must compute), "
    "F=None is definitionally the unconstrained checker, the fairness rewritings stay inside their logic (no TypeError), the frame "
    "property with F given; refutation witnesses for completeness of the coded fair set (one self-loop state, F=[]), for "
    "'an F that every path satisfies changes nothing' and for the reductions with a correct fair set. Correspondence: the "
    "implementation is compared with the FAITHFUL model (defects included) and classified against an independent reference "
    "(proved-exact fairref + brute force fair set, brute-force CGP semantics harness/ref.py): equal to the reference = agrees; "
    "different from the reference but equal to the faithful model = known finding KF-C15-a/b; different from both = VIOLATION; "
    "soundness of the fair set, absence of exceptions, K unchanged, result a subset of the states and F=None are asserted outright. "
    "The same classification is applied to the formula passed as TEXT with F, to structures whose states are arbitrary (also mutually "
    "unorderable) hashable objects, to one formula OBJECT re-used on structures whose fresh fair label differs, to get_fair_states asked "
    "again after the caller edited the returned set, and (against closed-form answers outside both findings) to structures with "
    "thousands of states. Second audit: states that are plain user objects compared by identity; formula objects built with the classes "
    "of another language module passed with F; parser and F passed by position; one live structure whose labels / edges / new unlabelled "
    "states / caller-kept F list are edited between calls with F (answers must be for the structure as it is now).")

P_, Q_ = ('ap', 'p'), ('ap', 'q')
OPS1 = 'XFG'
OPS2 = 'UR'
MAXV = 25          # replay files per kind of violation


# ----------------------------------------------------------------------------------------------
# independent brute force on the input
# ----------------------------------------------------------------------------------------------
def reach1(succ):
    """state -> set of states reachable in >= 1 step"""
    out = {}
    for s in succ:
        seen, st = set(), [s]
        while st:
            x = st.pop()
            for y in succ[x]:
                if y not in seen:
                    seen.add(y)
                    st.append(y)
        out[s] = seen
    return out


def true_fair(kd, F):
    """states from which some infinite path visits every P in F infinitely often: those that reach (in >= 0 steps) a
    non-trivial SCC (>= 2 nodes or a self loop, i.e. the node reaches itself) meeting every P"""
    succ = succ_of(kd)
    r = reach1(succ)
    core = set()
    for s in succ:
        if s in r[s]:
            comp = {t for t in r[s] if s in r[t]}
            if all(comp & set(P) for P in F):
                core.add(s)
    return sorted(s for s in succ if s in core or r[s] & core)


def every_path_fair(kd, F):
    """every infinite path visits every P infinitely often <=> for each P no cycle avoids P"""
    succ = succ_of(kd)
    for P in F:
        P = set(P)
        sub = {s: [d for d in ds if d not in P] for s, ds in succ.items() if s not in P}
        r = reach1(sub)
        if any(s in r[s] for s in sub):
            return False
    return True


def kf_a_predicate(kd, F, scc_seq):
    """KF-C15-a predicate on the INPUT: some truly fair non-trivial SCC has size 1 or its first-yielded node lacks a self
    loop.  scc_seq = components in the yield order of compute_SCCs (read from the proved C12 model)."""
    succ = succ_of(kd)
    r = reach1(succ)
    for c in scc_seq:
        v = c[0]
        nontrivial = v in r[v]
        if nontrivial and all(set(c) & set(P) for P in F):
            if len(c) == 1 or v not in succ[v]:
                return True
    return False


# ----------------------------------------------------------------------------------------------
# formula pools (identifier atoms only: stays clear of KF-print-a; Boolean constants are read as in ref_form below because
# the CGP definition says nothing about them)
# ----------------------------------------------------------------------------------------------
def ctl_pool():
    lits = [P_, Q_, ('not', P_)]
    d1 = []
    for q in 'AE':
        for o in OPS1:
            d1 += [(q, (o, a)) for a in lits]
        for o in OPS2:
            d1 += [(q, (o, a, b)) for a in lits for b in lits]
    core = [(q, (o, P_)) for q in 'AE' for o in OPS1] + [(q, (o, P_, Q_)) for q in 'AE' for o in OPS2]
    d2 = []
    for q in 'AE':
        for o in OPS1:
            d2 += [(q, (o, g)) for g in core]
        for o in OPS2:
            for g in core:
                d2 += [(q, (o, g, Q_)), (q, (o, P_, g))]
    bl = [P_, ('not', P_), ('and', P_, Q_), ('or', P_, Q_), ('imp', P_, Q_)]
    bl += [('not', g) for g in core]
    bl += [('and', core[i], core[(i * 3 + 1) % len(core)]) for i in range(len(core))]
    bl += [('imp', core[i], core[(i * 7 + 2) % len(core)]) for i in range(len(core))]
    bl += [('or', core[i], ('not', core[(i + 5) % len(core)]), Q_) for i in range(len(core))]
    return d1 + CONST_CTL, d2 + bl


def path_pool(k, quant=False):
    """all path formulas with <= k operators over p, q (no constants); by number of operators"""
    by = {0: [P_, Q_]}
    un = ['not', 'X', 'F', 'G'] + (['A', 'E'] if quant else [])
    bi = ['or', 'and', 'imp', 'U', 'R']
    for n in range(1, k + 1):
        out = []
        for u in un:
            out += [(u, f) for f in by[n - 1]]
        for a in range(n):
            for op in bi:
                out += [(op, f, g) for f in by[a] for g in by[n - 1 - a]]
        by[n] = out
    return by


GF = lambda a: ('G', ('F', a))
FG = lambda a: ('F', ('G', a))
LTL_SPECIAL = [GF(P_), FG(P_), ('G', ('imp', P_, ('F', Q_))), ('imp', GF(P_), GF(Q_)), ('or', FG(P_), GF(Q_)),
               ('U', P_, ('G', Q_)), ('R', ('X', P_), Q_), ('and', GF(P_), GF(('not', P_))), ('X', ('U', P_, Q_)),
               ('G', ('or', P_, ('X', Q_)))]


def ltl_pool():
    by = path_pool(2)
    return [('A', g) for g in by[0] + by[1]] + [('A', g) for g in LTL_SPECIAL] + CONST_LTL, [('A', g) for g in by[2]]


def ctls_pool():
    by = path_pool(2)
    ops1 = by[1]
    first = [(q, g) for q in 'AE' for g in by[1]] + [(q, g) for q in 'AE' for g in LTL_SPECIAL]
    first += [('E', ('and', GF(P_), GF(Q_))), ('A', ('imp', GF(P_), GF(Q_))), ('E', ('and', ('F', ('A', ('G', P_))), ('G', Q_))),
              ('A', ('or', ('G', ('E', ('X', P_))), ('F', Q_))), ('E', ('G', ('F', ('E', ('X', P_))))),
              ('A', ('G', ('E', ('F', P_)))), ('E', ('F', ('A', ('G', P_)))), ('A', ('F', ('E', GF(P_)))),
              ('not', ('E', GF(P_))), ('and', ('E', FG(P_)), ('A', GF(Q_))), ('imp', ('A', GF(P_)), ('E', ('X', ('X', Q_)))),
              ('E', ('and', ('X', P_), ('X', Q_))), ('A', ('or', ('X', P_), ('X', ('not', P_)))), ('E', P_), ('A', ('not', P_)),
              ('E', ('A', P_)), ('and', P_, ('E', ('X', ('A', Q_))))] + CONST_CTLS
    nest = [(q, (o, (q2, g))) for q in 'AE' for o in OPS1 for q2 in 'AE' for g in ops1[::3]]
    nest += [(q, ('U', (q2, g), h)) for q in 'AE' for q2 in 'AE' for g in ops1[1::5] for h in ops1[2::9]]
    nest += [(q, ('and', (o, (q2, g)), ('X', h))) for q in 'AE' for o in 'FG' for q2 in 'AE' for g in ops1[::7] for h in (P_, Q_)]
    return first, nest + [(q, g) for q in 'AE' for g in by[2]]


TRUE_, FALSE_ = ('true',), ('false',)
CONST_CTL = [TRUE_, FALSE_, ('not', FALSE_), ('E', ('G', TRUE_)), ('A', ('F', FALSE_)), ('E', ('U', TRUE_, P_)), ('A', ('R', FALSE_, P_)),
             ('E', ('X', TRUE_)), ('A', ('U', P_, FALSE_)), ('and', TRUE_, ('E', ('F', Q_))), ('imp', TRUE_, ('A', ('G', P_)))]
CONST_LTL = [('A', TRUE_), ('A', FALSE_), ('A', ('G', TRUE_)), ('A', ('U', TRUE_, P_)), ('A', ('R', FALSE_, P_)), ('A', ('F', FALSE_)),
             ('A', ('or', ('X', FALSE_), P_))]
CONST_CTLS = [('E', GF(TRUE_)), ('A', FG(FALSE_)), ('E', ('and', ('X', TRUE_), ('G', P_))), ('or', FALSE_, ('E', GF(P_))),
              ('A', ('imp', GF(TRUE_), ('F', Q_))), ('E', ('F', ('A', ('G', TRUE_))))]


def ref_form(f):
    """reading of the Boolean constants for the reference: the library makes Bool a subclass of AtomicProposition, so under
    fairness `true` is the atom that holds everywhere ('holds and a fair path starts here' = harness/ref.py's reading) and
    `false` the atom that holds nowhere (p and not p); without fairness both readings are the usual ones"""
    if f[0] == 'false':
        return ('and', P_, ('not', P_))
    if f[0] in ('true', 'ap'):
        return f
    return (f[0],) + tuple(ref_form(g) for g in f[1:])


def noconst(f):
    if f[0] == 'true':
        return P_
    if f[0] == 'false':
        return Q_
    if f[0] == 'ap':
        return f
    return (f[0],) + tuple(noconst(g) for g in f[1:])


def n_temporal(f):
    return sum(1 for g in subformulas(f) if g[0] in TEMPORAL)


def rename(f, m):
    if f[0] == 'ap':
        return ('ap', m.get(f[1], f[1]))
    if f[0] in ('true', 'false'):
        return f
    return (f[0],) + tuple(rename(g, m) for g in f[1:])


def rename_kd(kd, m):
    return {'S': kd['S'], 'S0': kd['S0'], 'R': kd['R'], 'L': {s: [m.get(a, a) for a in ls] for s, ls in kd['L'].items()}}


# ----------------------------------------------------------------------------------------------
# state NAMES: the harness keeps every structure over the ints 0..n-1 (reference, brute force, model); kd['names'] (optional)
# lists, per int state, the Python object that plays that state in the library call.  Any hashable object is a legal state,
# mutually unorderable ones included.  With F the library works on K.clone() and KF-C15-a looks at the first-yielded node
# of an SCC, so the faithful model is always given the presentation READ BACK from a clone of the live object.
# ----------------------------------------------------------------------------------------------
class StateObj(object):
    """a plain user object as a state: no __eq__ / __hash__, so it is hashed and compared BY IDENTITY (any hashable object is a legal
    state); a copy of it is another state.  One object per number and per process (dec_name must give the same object every time)"""
    _made = {}

    def __init__(self, k):
        self.k = k

    def __repr__(self):
        return 'StateObj(%d)' % self.k

    @classmethod
    def get(cls, k):
        if k not in cls._made:
            cls._made[k] = cls(k)
        return cls._made[k]


def dec_name(spec):
    t = spec[0]
    if t == 'o':
        return StateObj.get(spec[1])
    if t in ('i', 's', 'x'):
        return spec[1]
    if t == 't':
        return tuple(dec_name(y) if isinstance(y, list) else y for y in spec[1])
    if t == 'f':
        return frozenset(spec[1])
    if t == 'y':
        return spec[1].encode()
    raise ValueError(spec)


# pairwise different as Python objects (no 1 / 1.0 / True); several pairs collide under str() or hash().  None is NOT among
# them: Kripke.labels(state=None) documents None as 'no state given', so None cannot name a state
MIXED_NAMES = [['i', 0], ['s', 'a'], ['t', [1, 2]], ['i', 1], ['s', '1'], ['t', [None]], ['f', [1]], ['t', []], ['s', ''], ['i', -1],
               ['x', 0.5], ['s', '(1, 2)'], ['i', 2 ** 61 - 1], ['t', ['a', 0]], ['s', 'fair'], ['y', 'a'], ['i', -2], ['s', '0'],
               ['t', [['t', [0]]]], ['s', 'None'], ['i', 8], ['x', -1.5], ['f', []], ['s', 'b']]
INT_NAMES = [-3, -2, -1, 7, 8, 15, 16, 23, 24, 31, 32, 64, 100, 1024, 2 ** 61 - 1, 2 ** 61, 2 ** 61 + 7, 10 ** 6 + 7, 33, 40, 48, 56]
STR_NAMES = ['s%d' % i for i in range(12)] + list('abcdefgh') + ['0', '1', '2', '10', 'fair', 'fair0', '', ' ', 'S', 'é']
NAME_STYLES = ['mixed', 'mixed', 'mixed', 'str', 'int']


def make_names(rng, n, style):
    if style == 'obj':
        return [['o', v] for v in rng.sample(range(40), n)]
    if style == 'objmix':
        names = [['o', v] for v in rng.sample(range(40), n)]
        for i, x in zip(rng.sample(range(n), n // 2), rng.sample(MIXED_NAMES, n // 2)):
            names[i] = x
        return names
    if style == 'int':
        return [['i', v] for v in rng.sample(INT_NAMES, n)]
    if style == 'str':
        return [['s', v] for v in rng.sample(STR_NAMES, n)]
    names = rng.sample(MIXED_NAMES, n)
    if n >= 2 and not any(x[0] in ('i', 'x') for x in names):          # at least one int next to the non-ints
        names[rng.randrange(n)] = ['i', rng.choice([0, 1, -1, 8])]
    return names


FOREIGN_STATE = ('#not-a-state',)


def name_maps(kd):
    """-> (nm, inv): int state -> object of the library call, and back (identity without kd['names'])"""
    if not kd.get('names'):
        return (lambda s: s), (lambda o: o)
    succ = succ_of(kd)
    order = sorted(succ)
    objs = {s: dec_name(kd['names'][i]) for i, s in enumerate(order)}
    back = {o: s for s, o in objs.items()}
    if len(back) != len(objs):
        raise RuntimeError('machinery: state names are not pairwise different: %r' % (kd['names'],))
    return (lambda s: objs.get(s, FOREIGN_STATE + (s,))), (lambda o: back[o])


def build_K(kd):
    if not kd.get('names'):
        return kd_py(kd)
    nm, _ = name_maps(kd)
    return mk_py_kripke([nm(s) for s in kd['S']], [nm(s) for s in kd['S0']], [(nm(a), nm(b)) for a, b in kd['R']],
                        {nm(s): list(ls) for s, ls in kd['L'].items()})


def kdj(kd):
    j = kd_json(kd)
    if kd.get('names'):
        j['names'] = kd['names']
    return j


def kd_from(j):
    kd = kd_from_json(j)
    if j.get('names'):
        kd['names'] = j['names']
    return kd


TEXTOP = {'not': 'not', 'or': 'or', 'and': 'and', 'imp': '-->'}


def ftext(f):
    """concrete syntax accepted by the three parsers (every non-leaf operand parenthesised)"""
    t = f[0]
    if t in ('true', 'false'):
        return t
    if t == 'ap':
        return f[1]

    def w(g):
        return ftext(g) if g[0] in ('true', 'false', 'ap') else '(' + ftext(g) + ')'
    op = TEXTOP.get(t, t)
    if t in UNARY:
        return op + ' ' + w(f[1])
    return (' %s ' % op).join(w(g) for g in f[1:])


_PARSERS = {}


def shared_parser(logic):
    if logic not in _PARSERS:
        _PARSERS[logic] = lang_module(logic).Parser()
    return _PARSERS[logic]


def kfa_free_case(rng, n):
    """a random (structure, F) on which KF-C15-a cannot bite - every truly fair non-trivial SCC has >= 2 nodes, all with self
    loops, so the coded `len(scc)==1 or no self loop` test accepts it whatever node is yielded first - and whose true fair set
    is neither empty nor everything"""
    for _ in range(300):
        kd = rand_kripke(rng, n)
        succ = succ_of(kd)
        r = reach1(succ)
        Rl = list(kd['R'])
        for s in succ:
            if any(t != s and s in r[t] for t in r[s]) and s not in succ[s]:
                Rl.append((s, s))
        kd['R'] = Rl
        succ = succ_of(kd)
        r = reach1(succ)
        big = [s for s in succ if any(t != s and s in r[t] for t in r[s])]
        if not big:
            continue
        F = [[rng.choice(big)]] + ([[s for s in succ if rng.random() < 0.5]] if rng.random() < 0.4 else [])
        tf = true_fair(kd, F)
        if not 0 < len(tf) < n:
            continue
        ok = True
        for s in succ:
            if s in r[s]:
                comp = {t for t in r[s] if s in r[t]}
                if all(comp & set(P) for P in F) and (len(comp) < 2 or s not in succ[s]):
                    ok = False
        if ok:
            return kd, F
    return None


def clustered_case(rng):
    """2-3 clusters (strongly connected, 2-3 states each, EVERY state with a self loop, so the coded triviality test accepts each
    cluster whatever node is yielded first), joined by a few one-way edges and possibly an entry state; F = 1-2 sets, each inside ONE
    cluster or spanning two: some clusters are fair and some are not, so an error in how the constraints are applied to the
    SECOND, THIRD ... component (e.g. a consumed iterator, a wrong loop variable) shows up.  KF-C15-a cannot bite on clusters; an
    entry state without self loop is a trivial SCC and is never fair by itself."""
    k = rng.randint(2, 3)
    clusters, n = [], 0
    for _ in range(k):
        sz = rng.randint(2, 3)
        clusters.append(list(range(n, n + sz)))
        n += sz
    R = []
    for c in clusters:
        for a in c:
            R.append((a, a))
        for i, a in enumerate(c):
            R.append((a, c[(i + 1) % len(c)]))
        if len(c) == 3 and rng.random() < 0.5:
            R.append((c[0], c[2]))
    for i in range(k):
        for j in range(i + 1, k):
            if rng.random() < 0.4:
                R.append((rng.choice(clusters[i]), rng.choice(clusters[j])))
    states = list(range(n))
    if rng.random() < 0.6:
        e = n
        states.append(e)
        for c in rng.sample(clusters, rng.randint(1, k)):
            R.append((e, rng.choice(c)))
    # unfair exits: sink states (a self loop only - a trivial-size SCC, which no constraint inside a cluster can make fair)
    # reachable from cluster states, so that 'some successor satisfies q' and 'some FAIR successor satisfies q' differ
    for _ in range(rng.randint(0, 2)):
        t = len(states)
        states.append(t)
        R.append((t, t))
        for c in rng.sample(clusters, rng.randint(1, k)):
            R.append((rng.choice(c), t))
    F = []
    for _ in range(rng.randint(1, 2)):
        c = rng.choice(clusters)
        P = rng.sample(c, rng.randint(1, len(c)))
        if rng.random() < 0.25:
            P += rng.sample(rng.choice(clusters), 1)
        F.append(sorted(set(P)))
    order = states[:]
    rng.shuffle(order)
    L = {s: sorted(a for a in ('p', 'q') if rng.random() < 0.5) for s in states}
    Rs = R[:]
    rng.shuffle(Rs)
    return {'S': order, 'S0': [], 'R': Rs, 'L': L}, F


def all_F(states, maxsets=2):
    subs = [list(c) for r in range(len(states) + 1) for c in itertools.combinations(states, r)]
    out = [[]]
    for k in range(1, maxsets + 1):
        out += [list(t) for t in itertools.product(subs, repeat=k)]
    return out


def rand_F(rng, states, foreign=True):
    k = rng.choice([0, 1, 1, 1, 2, 2, 3])
    F = []
    for _ in range(k):
        P = [s for s in states if rng.random() < rng.choice([0.3, 0.5, 0.8])]
        if foreign and rng.random() < 0.08:
            P.append(9)
        F.append(P)
    return F


def mkF(F, kind):
    if kind == 'tuple':
        return tuple(frozenset(P) for P in F)
    if kind == 'frozen':
        return [frozenset(P) for P in F]
    return [set(P) for P in F]


def F_intact(Fa, F):
    """the caller's fairness argument after a call: same container, same sets, same contents"""
    try:
        return len(Fa) == len(F) and all(set(a) == set(b) for a, b in zip(Fa, F))
    except Exception:
        return False


# ----------------------------------------------------------------------------------------------
# the implementation side (runs in worker processes; pure function of the group description)
# ----------------------------------------------------------------------------------------------
def canon(r, K, inv=None):
    if r[0] != 'ok':
        return r
    v = r[1]
    if not isinstance(v, set):
        return ('err', 'other:not-a-set:' + type(v).__name__)
    if not v <= set(K.states()):
        return ('err', 'other:not-a-subset-of-states:' + repr(sorted(map(repr, v))))
    return ('ok', sorted(v) if inv is None else sorted(inv(s) for s in v))


def impl_call(logic, K, f, mode, F=None, objlang=None, inv=None, text=None, pos=None):
    """text: None = the formula is passed as an OBJECT; 'shared' / 'default' = as a STRING (with an explicit parser object /
    with the parser the entry point makes itself).  pos: the two optional arguments are passed BY POSITION in the documented order
    modelcheck(kripke, formula, parser, F): 'none' = (K, f, None, F), 'parser' / 'parser-text' = (K, f, <parser object>, F)"""
    L = lang_module(logic)
    OL = lang_module(objlang or logic)
    arg = to_py(f, OL) if text is None else ftext(f)
    if pos is not None:
        pa = shared_parser(logic) if pos.startswith('parser') else None
        return canon(call(lambda: L.modelcheck(K, arg, pa, F)), K, inv)
    kw = {}
    if text == 'shared':
        kw['parser'] = shared_parser(logic)
    if mode == 'plain':
        r = call(lambda: L.modelcheck(K, arg, **kw))
    else:
        r = call(lambda: L.modelcheck(K, arg, F=F, **kw))
    return canon(r, K, inv)


def text_ok(logic, f):
    """the text of f parses back to f in the called logic (otherwise the text channel is not asked: machinery, not the property)"""
    return call(lambda: tree_of(shared_parser(logic)(ftext(f)))) == ('ok', f)


def mcmd(logic, ks, f, Fs=None):
    if Fs is None:
        return ['ctl', ks, fsx(f)] if logic == 'CTL' else ['ltl', ks, fsx(f)] if logic == 'LTL' else ['ctls', 'CTLS', ks, fsx(f)]
    return [{'CTL': 'ctlf', 'LTL': 'ltlf', 'CTLS': 'ctlsf'}[logic], ks, fsx(f), Fs]


def snap_diff(a, b):
    la, lb = dict(a[2]), dict(b[2])
    added = sorted({x for s in lb for x in lb[s]} - {x for s in la for x in la.get(s, ())})
    return {'graph_changed': a[0] != b[0], 'S0_changed': a[1] != b[1], 'labels_changed': a[2] != b[2], 'labels_added': added}


def edit_returned_set(v, how):
    """what a caller may do with HIS result set"""
    if how == 'clear':
        v.clear()
    elif how == 'half':
        for s in list(v)[::2]:
            v.discard(s)
    else:
        v.add(('#added-by-the-caller',))


def clone_sx(K, inv, ks):
    """presentation of K.clone() for the model; a clone whose states are not (all) states of K - states that are compared by identity
    and were copied - has no presentation over K's states: the model is then given K's own"""
    try:
        return kripke_sx(K.clone(), inv)
    except KeyError:
        return ks


def xlang_ok(f, ol):
    return is_ctl_state(f) if ol == 'CTL' else is_ltl_state(f) if ol == 'LTL' else True


def do_group(g):
    """g = {'kd', 'Fs': [(F, kind)], 'forms': [(logic, f)], 'bad': [(logic, f)], 'text': {index of a form: 'shared'|'default'}}
    or a group of another stream (g['stream'] = 'reuse' | 'long')"""
    if g.get('stream') == 'reuse':
        return do_reuse(g)
    if g.get('stream') == 'long':
        return do_long(g)
    if g.get('stream') == 'living':
        return do_living(g)
    kd = g['kd']
    nm, inv = name_maps(kd)
    named = bool(kd.get('names'))
    box = {'K': build_K(kd)}
    box['snap'] = kripke_snapshot(box['K'])
    text = {int(i): m for i, m in (g.get('text') or {}).items()}
    xlang = {int(i): m for i, m in (g.get('xlang') or {}).items()}
    posd = {int(i): m for i, m in (g.get('pos') or {}).items()}
    xplain = {}

    def guarded(fn):
        """run fn(K); report whether K is unchanged; rebuild K if it was modified"""
        K = box['K']
        v = fn(K)
        s1 = kripke_snapshot(K)
        if s1 == box['snap']:
            return v, None
        d = snap_diff(box['snap'], s1)
        box['K'] = build_K(kd)
        box['snap'] = kripke_snapshot(box['K'])
        return v, d

    res = {'kd': kd, 'plain': [], 'perF': []}
    for (logic, f) in g.get('forms', []):
        r_plain, d1 = guarded(lambda K: impl_call(logic, K, f, 'plain', inv=inv))
        r_none, d2 = guarded(lambda K: impl_call(logic, K, f, 'F', None, inv=inv))
        res['plain'].append({'logic': logic, 'f': f, 'r_plain': r_plain, 'r_none': r_none, 'changed': d1 or d2,
                             'ref': sorted(ref_check(kd, ref_form(f))), 'cmd': mcmd(logic, kripke_sx(box['K'], inv), f)})
    for fi, (F, kind) in enumerate(g['Fs']):
        tf = true_fair(kd, F)
        Fo = [[nm(s) for s in P] for P in F]
        e = {'F': F, 'kind': kind, 'true_fair': tf, 'every_path_fair': every_path_fair(kd, F), 'cases': [], 'bad': []}
        # --- get_fair_states; then the caller edits the set he was given and asks again
        again = {}

        def gfs(K):
            Fa = mkF(Fo, kind)
            r = call(lambda: K.get_fair_states(Fa))
            if r[0] == 'ok' and not F_intact(Fa, Fo):
                return ('err', 'other:the-F-argument-was-modified:%r' % (Fa,))
            c = canon(r, K, inv)
            if c[0] == 'ok':
                how = ('clear', 'half', 'add')[(fi + len(c[1])) % 3]
                edit_returned_set(r[1], how)
                r2 = call(lambda: K.get_fair_states(mkF(Fo, kind)))
                again.update(edit=how, second=canon(r2, K, inv), same_object=(r2[0] == 'ok' and r2[1] is r[1]))
            return c
        r, d = guarded(gfs)
        ks = kripke_sx(box['K'], inv)
        ksc = clone_sx(box['K'], inv, ks)           # what modelcheck(..., F=F) works on
        Fs = [sorted(P) for P in F]
        e['fair'] = {'impl': r, 'changed': d, 'again': again, 'cmds': [['fair', ks, Fs], ['fairref', ks, Fs], ['scc', ks[0]]] + ([['fair', ksc, Fs]] if ksc != ks else [])}
        e['clone_presentation_differs'] = ksc != ks
        # --- label_fair_states on a private clone (public method; the label must be fresh)
        def lfs(K):
            C = K.clone()
            if not set(C.states()) <= set(K.states()):
                return ('err', 'other:K.clone() has states that are not states of K: %r' % sorted(map(repr, set(C.states()) - set(K.states()))))
            before = set(C.labels())
            own = canon(call(lambda: C.get_fair_states(mkF(Fo, kind))), C, inv)     # the fair set of THIS clone
            r = call(lambda: C.label_fair_states(mkF(Fo, kind)))
            if r[0] != 'ok':
                return r
            name = r[1]
            return ('ok', [str(name), sorted(inv(s) for s in C.states() if name in C.labels(s)), name not in before,
                           sorted(inv(s) for s in C.states() if (set(C.labels(s)) - {name}) != set(K.labels(s))), own])
        r, d = guarded(lfs)
        e['label'] = {'impl': r, 'changed': d, 'cmd': ['labelfair', ks, Fs]}
        # --- the three model checkers with F (formula as an object; for the forms listed in g['text'] also as a string)
        for i, (logic, f) in enumerate(g.get('forms', [])):
            Fa = mkF(Fo, kind)
            r, d = guarded(lambda K: impl_call(logic, K, f, 'F', Fa, inv=inv))
            if r[0] == 'ok' and not F_intact(Fa, Fo):
                r = ('err', 'other:the-F-argument-was-modified:%r' % (Fa,))
            c = {'i': i, 'r': r, 'changed': d, 'ref': sorted(ref_check(kd, ref_form(f), [set(P) for P in F])),
                 'cmd': mcmd(logic, ksc, f, Fs)}
            if i in text and text_ok(logic, f):
                Fa = mkF(Fo, kind)
                rt, dt = guarded(lambda K: impl_call(logic, K, f, 'F', Fa, inv=inv, text=text[i]))
                if rt[0] == 'ok' and not F_intact(Fa, Fo):
                    rt = ('err', 'other:the-F-argument-was-modified:%r' % (Fa,))
                c.update(r_text=rt, changed_text=dt, parser=text[i])
            if i in xlang and xlang_ok(f, xlang[i]) and call(lambda: to_py(f, lang_module(xlang[i])))[0] == 'ok':
                # the same formula built with the classes of ANOTHER language module, with and without F
                ol = xlang[i]
                if i not in xplain:
                    xplain[i] = guarded(lambda K: impl_call(logic, K, f, 'plain', objlang=ol, inv=inv))
                Fa = mkF(Fo, kind)
                rx, dx = guarded(lambda K: impl_call(logic, K, f, 'F', Fa, objlang=ol, inv=inv))
                if rx[0] == 'ok' and not F_intact(Fa, Fo):
                    rx = ('err', 'other:the-F-argument-was-modified:%r' % (Fa,))
                c['x'] = {'lang': ol, 'plain': xplain[i][0], 'F': rx, 'changed': dx or xplain[i][1]}
            if i in posd:
                # parser and F passed by position
                as_text = 'shared' if posd[i] == 'parser-text' and text_ok(logic, f) else None
                Fa = mkF(Fo, kind)
                rp, dp = guarded(lambda K: impl_call(logic, K, f, 'F', Fa, inv=inv, text=as_text, pos=posd[i]))
                if rp[0] == 'ok' and not F_intact(Fa, Fo):
                    rp = ('err', 'other:the-F-argument-was-modified:%r' % (Fa,))
                c['pos'] = {'how': posd[i], 'formula_as': 'text' if as_text else 'object', 'r': rp, 'changed': dp}
            e['cases'].append(c)
        for (logic, f) in g.get('bad', []):
            r, d = guarded(lambda K: impl_call(logic, K, f, 'F', mkF(Fo, kind), objlang='CTLS', inv=inv))
            e['bad'].append({'logic': logic, 'f': f, 'r': r, 'changed': d, 'cmd': mcmd(logic, ksc, f, Fs)})
        res['perF'].append(e)
    return attach_model(res)


# ----------------------------------------------------------------------------------------------
# stream 'reuse': ONE formula object handed to modelcheck on a sequence of (structure, F) steps whose fresh fair label differs
# ----------------------------------------------------------------------------------------------
def fresh_label(kd):
    labs = {a for ls in kd['L'].values() for a in ls}
    name, i = 'fair', 0
    while name in labs:
        name = 'fair%d' % i
        i += 1
    return name


def do_reuse(g):
    """g = {'stream': 'reuse', 'steps': [{'kd', 'F' (None = no fairness), 'kind'}], 'forms': [(logic, f)]}.  Per form one library
    object is built ONCE and passed to every step; next to it a fresh object of the same formula is asked on the same structure"""
    steps = g['steps']
    pres = []
    for st in steps:
        nm, inv = name_maps(st['kd'])
        K = build_K(st['kd'])
        pres.append(kripke_sx(K, inv) if st['F'] is None else clone_sx(K, inv, kripke_sx(K, inv)))
    res = {'stream': 'reuse', 'steps': steps, 'forms': []}
    cmds = []
    for (logic, f) in g['forms']:
        L = lang_module(logic)
        obj = to_py(f, L)
        calls = []
        for j, st in enumerate(steps):
            kd, F, kind = st['kd'], st['F'], st.get('kind', 'list')
            nm, inv = name_maps(kd)
            K = build_K(kd)
            snap = kripke_snapshot(K)
            Fo = None if F is None else [[nm(s) for s in P] for P in F]

            def ask(a):
                if Fo is None:
                    return canon(call(lambda: L.modelcheck(K, a)), K, inv)
                return canon(call(lambda: L.modelcheck(K, a, F=mkF(Fo, kind))), K, inv)
            r_re = ask(obj)
            intact = call(lambda: tree_of(obj)) == ('ok', f)
            changed = kripke_snapshot(K) != snap
            r_fresh = ask(to_py(f, L))
            Fs = None if F is None else [sorted(P) for P in F]
            calls.append({'reused': r_re, 'fresh': r_fresh, 'object_intact': intact, 'K_changed': changed,
                          'ref': sorted(ref_check(kd, ref_form(f), None if F is None else [set(P) for P in F]))})
            cmds.append(mcmd(logic, pres[j], f, Fs))
        res['forms'].append({'logic': logic, 'f': f, 'calls': calls})
    outs = model_batch(cmds)
    i = 0
    for fo in res['forms']:
        for c in fo['calls']:
            c['out'] = outs[i]
            i += 1
    res['n_model_commands'] = len(cmds)
    return res


# ----------------------------------------------------------------------------------------------
# stream 'long': structures with 1000-4000 states (longer than the interpreter's recursion limit), F given, answers in closed form
# ----------------------------------------------------------------------------------------------
def xdepth(f):
    if f[0] in ('true', 'false', 'ap'):
        return 0
    return (1 if f[0] == 'X' else 0) + max(xdepth(g) for g in f[1:])


def long_kd(p):
    """lasso: chain 0 -> 1 -> ... -> N-1 -> a; clique {a, b} (a=N, b=N+1, both with self loops, a <-> b) = the only fair component;
       optional exit x -> t (t a sink with a self loop only, in no fairness set: a size-1 SCC that is NOT truly fair, so
       KF-C15-a has nothing to miss); optional tail b -> u_0 -> ... -> u_{M-1} -> z (z another such sink): unfair states after the
       fair component.  ring: 0 -> 1 -> ... -> N-1 -> 0, every state with a self loop (one fair SCC of N states; KF-C15-a accepts it
       whatever node is yielded first), F on state k.  Labels are uniform per segment.  -> (kd, F, segment of each state)"""
    N, lab = p['N'], p['lab']
    seg = {}
    if p['shape'] == 'ring':
        k = p['k']
        R = [e for i in range(N) for e in ((i, i), (i, (i + 1) % N))]
        for i in range(N):
            seg[i] = 'ring'
        seg[k] = 'k'
        F = {'k': [[k]], 'k,k': [[k], [k]]}[p['F']]
    else:
        a, b = N, N + 1
        R = [(i, i + 1) for i in range(N)] + [(a, a), (a, b), (b, a), (b, b)]
        for i in range(N):
            seg[i] = 'chain'
        seg[a], seg[b] = 'a', 'b'
        nxt = N + 2
        if p.get('x') is not None:
            t = nxt
            nxt += 1
            R += [(p['x'], t), (t, t)]
            seg[t] = 't'
        M = p.get('M') or 0
        if M:
            u = nxt
            R += [(b, u)] + [(u + i, u + i + 1) for i in range(M)] + [(u + M, u + M)]
            for i in range(M):
                seg[u + i] = 'tail'
            seg[u + M] = 'z'
        F = {'a': [[a]], 'b': [[b]], 'a,b': [[a], [b]], 'ab': [[a, b]], 'a+chain': [[0, a, N // 2]], 'b,ab': [[b], [a, b]]}[p['F']]
    if p.get('rev'):
        R = R[::-1]
    S = sorted(seg)
    return {'S': S[::-1] if p.get('rev') else S, 'S0': [0], 'R': R, 'L': {s: list(lab.get(seg[s], [])) for s in S}}, F, seg


def long_small(p, d):
    """the member of the same family that is just long enough for a formula with d nested X"""
    q = dict(p)
    if p['shape'] == 'ring':
        q['N'] = d + 3
        q['k'] = q['N'] - 1
    else:
        x0 = d + 2
        q['N'] = 2 * x0 + 1
        if p.get('x') is not None:
            q['x'] = x0
        if p.get('M'):
            q['M'] = d + 2
    return q


def long_lift(p, q):
    """state of the long structure p -> its representative in the small member q of the family: a state and its representative
    have the same segment and the same distance to the next special state (exit, end of the chain, sink, state k) up to the
    cap 'further than any formula with d nested X can count'"""
    N, N0 = p['N'], q['N']
    m = {}
    if p['shape'] == 'ring':
        k = p['k']
        for i in range(N):
            m[i] = N0 - 1 - min((k - i) % N, N0 - 1)
        return m
    x, x0 = p.get('x'), q.get('x')
    for i in range(N):
        if x is None:
            m[i] = N0 - 1 - min(N - 1 - i, N0 - 1)
        elif i <= x:
            m[i] = x0 - min(x - i, x0)
        else:
            m[i] = N0 - 1 - min(N - 1 - i, N0 - 1 - (x0 + 1))
    m[N], m[N + 1] = N0, N0 + 1
    nxt, nxt0 = N + 2, N0 + 2
    if x is not None:
        m[nxt] = nxt0
        nxt, nxt0 = nxt + 1, nxt0 + 1
    M, M0 = p.get('M') or 0, q.get('M') or 0
    for i in range(M):
        m[nxt + i] = nxt0 + M0 - 1 - min(M - 1 - i, M0 - 1)
    if M:
        m[nxt + M] = nxt0 + M0
    return m


def brief(v, exp):
    """a result over thousands of states, summarised against the expected set"""
    v, exp = set(v), set(exp)
    return {'size': len(v), 'expected_size': len(exp), 'missing': sorted(exp - v)[:8], 'unexpected': sorted(v - exp)[:8]}


def do_long(g):
    """g = {'stream': 'long', 'p': family parameters, 'kind', 'forms': [(logic, f)]}.  Expected answers: the faithful model and the
    reference are run on the small member of the family; if they agree there (the case is outside both known findings) the
    common answer is lifted to the long structure segment by segment (closed form); otherwise the formula is skipped"""
    p, kind = g['p'], g.get('kind', 'list')
    kd, F, seg = long_kd(p)
    K = kd_py(kd)
    snap = kripke_snapshot(K)
    states = sorted(seg)
    closed = [s for s in states if seg[s] in ('chain', 'a', 'b', 'ring', 'k')]
    res = {'stream': 'long', 'p': p, 'kind': kind, 'n_states': len(states), 'forms': [], 'n_model_commands': 0}
    # the fair set
    q = long_small(p, 0)
    kd0, F0, seg0 = long_kd(q)
    lift = long_lift(p, q)
    tf0 = true_fair(kd0, F0)
    ks0 = kripke_sx(kd_py(kd0))
    m0 = sorted(ints(model_batch([['fair', ks0, [sorted(P) for P in F0]]])[0]))
    if m0 != tf0 or sorted(s for s in states if lift[s] in tf0) != closed or any(seg[s] != seg0[lift[s]] for s in states):
        raise RuntimeError('machinery: long family %r: small member fair set model %s / brute force %s / closed form do not fit' % (p, m0, tf0))
    Fa = mkF(F, kind)
    r = call(lambda: K.get_fair_states(Fa))
    ok = r[0] == 'ok' and isinstance(r[1], set)
    res['fair'] = {'impl': ('ok', brief(r[1], closed)) if ok else canon(r, K), 'agrees': ok and r[1] == set(closed),
                   'changed': kripke_snapshot(K) != snap, 'F_intact': F_intact(Fa, F)}
    for (logic, f) in g.get('forms', []):
        d = xdepth(f)
        q = long_small(p, d)
        kd0, F0, seg0 = long_kd(q)
        lift = long_lift(p, q)
        K0 = kd_py(kd0)
        ref0 = sorted(ref_check(kd0, ref_form(f), [set(P) for P in F0]))
        m0 = model_obs(model_batch([mcmd(logic, kripke_sx(K0.clone()), f, [sorted(P) for P in F0])])[0])
        res['n_model_commands'] += 1
        rec = {'logic': logic, 'f': f, 'small': kdj(kd0), 'small_F': F0, 'small_model': m0, 'small_reference': ref0}
        if m0 != ('ok', ref0):
            rec['skipped'] = 'the small member of the family falls under a known finding (faithful model differs from the reference)'
            res['forms'].append(rec)
            continue
        exp = [s for s in states if lift[s] in ref0]
        L = lang_module(logic)
        Fa = mkF(F, kind)
        arg = ftext(f) if g.get('text') and text_ok(logic, f) else to_py(f, L)
        rec['channel'] = 'text' if isinstance(arg, str) else 'object'
        t0 = time.time()
        r = call(lambda: L.modelcheck(K, arg, F=Fa))
        rec['seconds'] = round(time.time() - t0, 2)
        ok = r[0] == 'ok' and isinstance(r[1], set)
        rec.update(impl=('ok', brief(r[1], exp)) if ok else canon(r, K), agrees=ok and r[1] == set(exp),
                   changed=kripke_snapshot(K) != snap, F_intact=F_intact(Fa, F), expected_size=len(exp))
        if rec['changed']:
            K = kd_py(kd)
        res['forms'].append(rec)
    return res


# ----------------------------------------------------------------------------------------------
# stream 'living': ONE live structure, the caller edits it through the public API (labels, labelling function, edges between
# existing states, NEW states that he does not label, the contents of his F) between calls WITH F
# ----------------------------------------------------------------------------------------------
def kd_now(K):
    """the structure as it is now, read back from the live object (int states)"""
    return {'S': list(K._next), 'S0': sorted(K.S0), 'R': [(a, b) for a, ds in K._next.items() for b in ds],
            'L': {s: sorted(map(str, K._labels[s])) for s in K._next if s in K._labels}}


def apply_edit(K, Fa, ed):
    """one caller action; Fa = the caller's own fairness argument (a list of sets that he keeps and may edit)"""
    t = ed[0]
    if t == 'add_edge':
        K.add_edge(ed[1], ed[2])
    elif t == 'new_state':                       # a new state the caller never labels; it gets a successor (totality is his duty)
        if ed[4] == 'add_node':
            K.add_node(ed[1])
        K.add_edge(ed[1], ed[2])
        K.add_edge(ed[3], ed[1])
    elif t == 'label_add':
        K.labels(ed[1]).add(ed[2])
    elif t == 'label_discard':
        K.labels(ed[1]).discard(ed[2])
    elif t == 'relabel':
        K.replace_labelling_function({int(s): set(ls) for s, ls in ed[1].items()})
    elif t == 'F_add':
        Fa[ed[1]].add(ed[2])
    elif t == 'F_discard':
        Fa[ed[1]].discard(ed[2])
    elif t == 'F_append':
        Fa.append(set(ed[1]))
    else:
        raise ValueError(ed)


def edit_text(ed):
    t = ed[0]
    if t == 'add_edge':
        return 'K.add_edge(%r, %r)' % (ed[1], ed[2])
    if t == 'new_state':
        return '%sK.add_edge(%r, %r); K.add_edge(%r, %r)   # state %r is new and is not labelled by the caller' \
            % ('K.add_node(%r); ' % ed[1] if ed[4] == 'add_node' else '', ed[1], ed[2], ed[3], ed[1], ed[1])
    if t in ('label_add', 'label_discard'):
        return 'K.labels(%r).%s(%r)' % (ed[1], t[6:], ed[2])
    if t == 'relabel':
        return 'K.replace_labelling_function(%r)' % ({int(s): set(ls) for s, ls in ed[1].items()},)
    if t == 'F_append':
        return 'F.append(%r)' % (set(ed[1]),)
    return 'F[%d].%s(%r)   # the caller edits HIS list of constraints' % (ed[1], t[2:], ed[2])


def do_living(g):
    """g = {'stream': 'living', 'kd', 'F', 'forms': [(logic, f)], 'edits': [...], 'keepF': the caller passes ONE list object every time}.
    Before the first edit and after every edit: get_fair_states(F), label_fair_states(F) on a clone, modelcheck(K, f, F=F) per form;
    each answer is for the structure (and the F) AS THEY ARE NOW"""
    kd = g['kd']
    K = build_K(kd)
    Fa = [set(P) for P in g['F']]
    res = {'stream': 'living', 'g': g, 'steps': []}
    cmds = []
    for j in range(len(g['edits']) + 1):
        failed = None
        if j:
            ed = g['edits'][j - 1]
            er = call(lambda: apply_edit(K, Fa, ed))
            if er[0] != 'ok':
                failed = er[1]          # the edit itself is not a call this property speaks about: counted, the sequence goes on
        now = kd_now(K)
        Fn = [sorted(P) for P in Fa]
        snap = kripke_snapshot(K)
        passF = (lambda: Fa) if g.get('keepF') else (lambda: mkF(Fn, g.get('kind', 'list')))
        ks = kripke_sx(K)
        ksc = clone_sx(K, None, ks)
        st = {'kd': now, 'F': Fn, 'true_fair': true_fair(now, Fn), 'calls': [], 'clone_same': ksc == ks, 'edit_raised': failed}
        st['fair'] = canon(call(lambda: K.get_fair_states(passF())), K)

        def lfs():
            C = K.clone()
            r = call(lambda: C.label_fair_states(passF()))
            if r[0] != 'ok':
                return r
            # (label sets read with .get: a state without a label entry is reported through the calls, not by a crash here)
            return ('ok', [str(r[1]), sorted(s for s in C.states() if r[1] in C._labels.get(s, ())), r[1] not in K.labels(),
                           sorted(s for s in C.states() if (set(C._labels.get(s, ())) - {r[1]}) != set(K._labels.get(s, ())))])
        st['label'] = call(lfs)
        st['label'] = st['label'][1] if st['label'][0] == 'ok' else st['label']
        cmds += [['fair', ks, Fn], ['labelfair', ks, Fn]]
        for (logic, f) in g['forms']:
            r = impl_call(logic, K, f, 'F', passF())
            st['calls'].append({'logic': logic, 'f': f, 'r': r, 'ref': sorted(ref_check(now, ref_form(f), [set(P) for P in Fn]))})
            cmds.append(mcmd(logic, ksc, f, Fn))
        st['changed'] = snap_diff(snap, kripke_snapshot(K)) if kripke_snapshot(K) != snap else None
        st['F_intact'] = F_intact(Fa, Fn)
        res['steps'].append(st)
    outs = model_batch(cmds)
    i = 0
    for st in res['steps']:
        st['o_fair'], st['o_label'] = outs[i], outs[i + 1]
        i += 2
        for c in st['calls']:
            c['out'] = outs[i]
            i += 1
    res['n_model_commands'] = len(cmds)
    return res


def attach_model(res):
    """run the extracted model on the commands of one group (inside the worker) and replace each command by its answer"""
    holders = [(p, 'cmd') for p in res['plain']]
    for e in res['perF']:
        holders += [(e['label'], 'cmd')] + [(c, 'cmd') for c in e['cases'] + e['bad']]
    cmds = [h[k] for h, k in holders]
    for e in res['perF']:
        cmds += e['fair']['cmds']
    outs = model_batch(cmds)
    for (h, k), o in zip(holders, outs):
        del h[k]
        h['out'] = o
    i = len(holders)
    for e in res['perF']:
        n = len(e['fair'].pop('cmds'))
        e['fair']['outs'] = outs[i:i + n]
        i += n
    res['n_model_commands'] = len(cmds)
    return res


def run_groups(groups, jobs):
    if jobs <= 1 or len(groups) < 8:
        return [do_group(g) for g in groups]
    ctx = multiprocessing.get_context('fork')
    with ctx.Pool(jobs) as pool:
        return pool.map(do_group, groups, chunksize=1 if len(groups) < 4000 else 4)


# ----------------------------------------------------------------------------------------------
# verdicts
# ----------------------------------------------------------------------------------------------
class Judge:
    def __init__(self, R):
        self.R = R
        self.nviol = {}
        self.stale = set()
        self.model_fair = []
        self.samples = {}
        self.hits = {KFA: 0, KFB: 0}
        self.first_hit = {}
        self.fair = {'explored': 0, 'agree_reference': 0, KFA: 0, 'repaired_model_stale': 0, 'violations': 0}
        self.mcs = {l: {'explored': 0, 'agree_reference': 0, KFA: 0, KFB: 0, 'repaired_model_stale': 0, 'violations': 0,
                       'fair_answer_differs_from_unconstrained': 0}
                   for l in ('CTL', 'LTL', 'CTLS')}
        self.trivF = {'explored': 0, 'equals_unconstrained': 0, 'differs_known_finding': 0}
        self.none = {'explored': 0, 'agree': 0}
        self.outright = {'calls': 0, 'formulas_with_constants': 0, 'out_of_logic_TypeError': 0, 'label_calls': 0,
                         'label_name_agrees_model': 0, 'asked_again_after_editing_the_returned_set': 0,
                         'structures_whose_clone_iterates_differently': 0, 'text_channel_calls_with_F': 0,
                         'text_channel_default_parser': 0, 'F_and_parser_by_position': 0}
        self.xlang_cov = {'asked': 0, 'accepted_without_F': 0, 'pairs': {}, 'rejected_with_and_without_F': 0,
                          'not_judged_differs_without_F_already': 0}
        self.hist = {'states': {}, 'F_sets': {}, 'ops': {}, 'true_fair_kind': {}, 'state_names': {}}
        self.reuse_cov = {'formula_objects': 0, 'calls': 0, 'calls_after_a_step_with_another_fresh_label': 0, 'agree_reference': 0,
                          'known_finding': 0, 'violations': 0}
        self.living_cov = {'structures': 0, 'modelcheck_calls': 0, 'agree_reference': 0, 'known_finding': 0, 'calls_after_edit_kind': {},
                           'violations': 0}
        self.long_cov = {'structures': 0, 'states': {}, 'get_fair_states_agree': 0, 'modelcheck_agree': {}, 'modelcheck_seconds_max': 0,
                         'skipped_small_member_under_a_known_finding': 0, 'violations': 0}

    def viol(self, kind, what, data):
        self.nviol[kind] = self.nviol.get(kind, 0) + 1
        if self.nviol[kind] <= MAXV:
            data = dict(data)
            data['kind'] = kind
            self.R.violation(what, data)

    def keep(self, cls, x, per_class=1):
        l = self.samples.setdefault(cls, [])
        if len(l) < per_class:
            l.append(dict(x, classified=cls))

    def h(self, name, key):
        d = self.hist[name]
        d[str(key)] = d.get(str(key), 0) + 1

    def hit(self, fid, sample):
        self.hits[fid] += 1
        self.first_hit.setdefault(fid, sample)

    # ---- one (K, F): fair set and label
    def fair_set(self, kd, e, o_fair, o_ref, o_scc, o_label, o_fair_clone=None):
        R = self.R
        R.evaluations += 1
        self.fair['explored'] += 1
        F = e['F']
        base = {'kripke': kdj(kd), 'F': F, 'Fkind': e['kind']}
        model = sorted(ints(o_fair))
        ref = sorted(ints(o_ref))
        tf = e['true_fair']
        if ref != tf:
            raise RuntimeError('machinery: fairref %s differs from the brute-force fair set %s on %s F=%s' % (ref, tf, kd, F))
        if e['every_path_fair'] and tf != sorted(succ_of(kd)):
            raise RuntimeError('machinery: every path fair but fair set %s not everything on %s F=%s' % (tf, kd, F))
        r = e['fair']['impl']
        obs = dict(base, impl=r, model=model, reference=tf)
        n = len(succ_of(kd))
        self.h('states', n)
        self.h('F_sets', len(F))
        self.h('true_fair_kind', 'empty' if not tf else ('all' if len(tf) == n else 'proper'))
        impl_wrong = True
        if e['fair']['changed']:
            self.viol('fair', 'get_fair_states modified K', dict(obs, changed=e['fair']['changed']))
            self.fair['violations'] += 1
        elif r[0] != 'ok':
            self.viol('fair', 'get_fair_states raised / returned a non-set: %s' % r[1], obs)
            self.fair['violations'] += 1
        else:
            impl = r[1]
            impl_wrong = impl != tf
            if not set(impl) <= set(tf):
                # soundness half (C15_fair_sound_partial) holds of the current code: asserted outright
                self.viol('fair', 'get_fair_states returned a state from which no fair path starts (soundness half)',
                          dict(obs, unfair_states_returned=sorted(set(impl) - set(tf))))
                self.fair['violations'] += 1
            elif impl == tf:
                self.fair['agree_reference'] += 1
                if model != tf:
                    self.fair['repaired_model_stale'] += 1
                    self.stale.add(KFA)
            elif impl == model and kf_a_predicate(kd, F, [ints(c) for c in o_scc]):
                self.fair[KFA] += 1
                self.hit(KFA, {'kripke_R': kd['R'], 'F': F, 'get_fair_states': impl, 'true_fair_set': tf})
            else:
                self.viol('fair', 'get_fair_states differs from the true fair set in a way that is not KF-C15-a '
                                  '(differs from the faithful model too, or the input is outside the predicate)',
                          dict(obs, kf_a_predicate=kf_a_predicate(kd, F, [ints(c) for c in o_scc])))
                self.fair['violations'] += 1
            if F and 0 < len(tf) < n:
                R.nontriv(('fair', tuple(kd['S']), tuple(kd['R']), tuple(map(tuple, F)), json.dumps(kd.get('names'))))
                self.keep('fair_' + ('agrees' if impl == tf else 'known_finding_a'),
                          {'kripke_R': kd['R'], 'F': F, 'get_fair_states': impl, 'true_fair_set': tf, 'faithful_model': model})
            ag = e['fair'].get('again') or {}
            if ag:
                self.outright['asked_again_after_editing_the_returned_set'] += 1
                if ag['same_object'] or tuple(ag['second']) != tuple(r):
                    self.viol('fair', 'get_fair_states(F) asked a second time, after the caller edited (%s) the set the first call had '
                                      'returned to him, %s' % (ag['edit'], 'returns that very object again' if ag['same_object'] else
                                                               'answers differently (the returned set is shared with the structure)'),
                              dict(obs, caller_edit_of_first_result=ag['edit'], impl_second_call=ag['second'],
                                   second_call_returned_the_same_object=ag['same_object']))
                    self.fair['violations'] += 1
        if o_fair_clone is not None and e.get('clone_presentation_differs'):
            self.outright['structures_whose_clone_iterates_differently'] += 1
            # modelcheck works on a clone: which finding a wrong answer is counted under follows the clone's fair set
            impl_wrong = sorted(ints(o_fair_clone)) != tf
        # label_fair_states
        self.outright['label_calls'] += 1
        lr = e['label']['impl']
        lobs = dict(base, impl=lr, impl_fair=r)
        if e['label']['changed']:
            self.viol('label', 'label_fair_states on a clone modified the original K', dict(lobs, changed=e['label']['changed']))
        elif lr[0] != 'ok':
            self.viol('label', 'label_fair_states raised %s' % lr[1], lobs)
        else:
            name, labelled, fresh, others, own = lr[1]
            # a clone may iterate its successor sets in another order than K (non-int states): KF-C15-a then gives the CLONE another
            # fair set; the labelled states are compared with K's fair set whenever the two presentations coincide
            fair_here = tuple(own) if e.get('clone_presentation_differs') else tuple(r)
            if not fresh:
                self.viol('label', 'label_fair_states returned a label that already labels a state', lobs)
            elif others:
                self.viol('label', 'label_fair_states changed other labels', lobs)
            elif fair_here[0] == 'ok' and labelled != fair_here[1]:
                self.viol('label', 'label_fair_states labels other states than get_fair_states returns', lobs)
            elif str(o_label[1]) == name:
                self.outright['label_name_agrees_model'] += 1
        return impl_wrong

    # ---- F=None / no F
    def unconstrained(self, kd, p, o):
        self.none['explored'] += 1
        m = model_obs(o)
        obs = {'kripke': kdj(kd), 'logic': p['logic'], 'formula': p['f'], 'formula_str': fstr(p['f']), 'F': None,
               'impl_no_F': p['r_plain'], 'impl_F_None': p['r_none'], 'model': m, 'reference': p['ref']}
        if p['changed']:
            self.viol('none', '%s.modelcheck without fairness modified K' % p['logic'], dict(obs, changed=p['changed']))
        elif tuple(p['r_none']) != tuple(p['r_plain']):
            self.viol('none', '%s.modelcheck(K,f,F=None) differs from modelcheck(K,f)' % p['logic'], obs)
        elif tuple(p['r_none']) != m:
            self.viol('none', '%s.modelcheck(K,f,F=None) differs from the unconstrained (proved exact) model' % p['logic'], obs)
        else:
            if m[0] == 'ok' and m[1] != p['ref']:
                raise RuntimeError('machinery: proved unconstrained model %s differs from the reference %s on %s %s'
                                   % (m, p['ref'], kd, fstr(p['f'])))
            self.none['agree'] += 1

    # ---- one (K, F, f, logic)
    def mc(self, kd, e, p, c, o, impl_fair_wrong):
        R = self.R
        R.evaluations += 1
        logic, f, F = p['logic'], p['f'], e['F']
        st = self.mcs[logic]
        st['explored'] += 1
        self.outright['calls'] += 1
        if has_const(f):
            self.outright['formulas_with_constants'] += 1
        self.h('ops', f[0] + f[1][0] if f[0] in ('A', 'E') else f[0])
        m = model_obs(o)
        r, ref = tuple(c['r']), c['ref']
        obs = {'kripke': kdj(kd), 'F': F, 'Fkind': e['kind'], 'logic': logic, 'formula': f, 'formula_str': fstr(f),
               'impl': r, 'model': m, 'reference': ref, 'reference_unconstrained': p['ref'], 'true_fair_set': e['true_fair'],
               'impl_fair_set_wrong': impl_fair_wrong}
        if e['every_path_fair']:
            if ref != p['ref']:
                raise RuntimeError('machinery: every path satisfies F but fair reference differs from unconstrained: %s' % obs)
            self.trivF['explored'] += 1
        if c['changed']:
            st['violations'] += 1
            return self.viol('mc', '%s.modelcheck(K,f,F=F) modified K (%s)' % (logic, c['changed']), dict(obs, changed=c['changed']))
        if r[0] != 'ok':
            st['violations'] += 1
            return self.viol('mc', '%s.modelcheck(K,f,F=F) raised / returned a non-set for a well-formed %s formula: %s'
                             % (logic, logic, r[1]), obs)
        if 'r_text' in c:
            self.outright['text_channel_calls_with_F'] += 1
            if c['parser'] == 'default':
                self.outright['text_channel_default_parser'] += 1
            rt = tuple(c['r_text'])
            tobs = dict(obs, channel='text', parser=c['parser'], formula_text=ftext(f), impl=rt, impl_formula_object=r)
            if c['changed_text']:
                st['violations'] += 1
                self.viol('mc', '%s.modelcheck(K,<text>,F=F) modified K (%s)' % (logic, c['changed_text']), dict(tobs, changed=c['changed_text']))
            elif rt[0] != 'ok':
                st['violations'] += 1
                self.viol('mc', '%s.modelcheck(K,%r,F=F) raised / returned a non-set for the text of a well-formed %s formula: %s'
                          % (logic, ftext(f), logic, rt[1]), tobs)
            elif rt[1] != ref and rt != m:
                st['violations'] += 1
                self.viol('mc', '%s.modelcheck(K,%r,F=F), formula given as TEXT, differs from the fair semantics AND from the faithful '
                                'model of the coded reduction (not KF-C15-a/b)' % (logic, ftext(f)), tobs)
            elif rt != r:
                st['violations'] += 1
                self.viol('mc', '%s.modelcheck(K,f,F=F) answers differently for the formula as TEXT and as an OBJECT' % logic, tobs)
        if 'x' in c:
            x = c['x']
            xo = dict(obs, formula_object_built_with_the_classes_of=x['lang'], xlang=x['lang'], impl_foreign_object_without_F=x['plain'],
                      impl_foreign_object_with_F=x['F'], impl_own_object_without_F=p['r_plain'])
            self.xlang_cov['asked'] += 1
            if x['changed']:
                st['violations'] += 1
                self.viol('mc', '%s.modelcheck(K,f,F=F), f built with the %s classes, modified K' % (logic, x['lang']), dict(xo, changed=x['changed']))
            elif tuple(x['plain']) == tuple(p['r_plain']):
                # accepted (cast) without F exactly like the logic's own object: with F it is the same formula over fair paths
                self.xlang_cov['accepted_without_F'] += 1
                k = '%s<-%s' % (logic, x['lang'])
                self.xlang_cov['pairs'][k] = self.xlang_cov['pairs'].get(k, 0) + 1
                if tuple(x['F']) != r:
                    st['violations'] += 1
                    self.viol('mc', '%s.modelcheck(K,f,F=F) %s for a well-formed %s formula built with the %s classes, which the same entry '
                                    'point accepts (casts) without F and answers like its own object'
                              % (logic, 'raised %s' % x['F'][1] if x['F'][0] != 'ok' else 'answers differently than for its own object', logic, x['lang']), xo)
            elif x['plain'][0] != 'ok' and x['F'][0] != 'ok':
                self.xlang_cov['rejected_with_and_without_F'] += 1
            else:
                self.xlang_cov['not_judged_differs_without_F_already'] += 1
        if 'pos' in c:
            q = c['pos']
            self.outright['F_and_parser_by_position'] += 1
            po = dict(obs, pos=q['how'], call='modelcheck(K, <%s>, %s, F)' % (q['formula_as'], 'None' if q['how'] == 'none' else '<parser object>'),
                      impl_by_position=q['r'], impl_by_keyword=r)
            if q['changed']:
                st['violations'] += 1
                self.viol('mc', '%s.modelcheck(K,f,parser,F) (by position) modified K' % logic, dict(po, changed=q['changed']))
            elif tuple(q['r']) != r:
                st['violations'] += 1
                self.viol('mc', '%s.%s, the optional arguments given BY POSITION in the documented order (kripke, formula, parser, F), %s '
                                '(F by keyword: %s)' % (logic, po['call'], 'raised %s' % q['r'][1] if q['r'][0] != 'ok' else 'answers %s' % (q['r'][1],), r[1]), po)
        differs_plain = ref != p['ref']
        if differs_plain:
            st['fair_answer_differs_from_unconstrained'] += 1
        nontrivial = differs_plain or (F and 0 < len(e['true_fair']) < len(succ_of(kd)))
        if r[1] == ref:
            st['agree_reference'] += 1
            if e['every_path_fair']:
                self.trivF['equals_unconstrained'] += 1
            if m != r:
                st['repaired_model_stale'] += 1
                self.stale.add(KFA if sorted(e['true_fair']) != sorted(self.model_fair) else KFB)
        elif r == m:
            fid = KFA if impl_fair_wrong else KFB
            st[fid] += 1
            if e['every_path_fair']:
                self.trivF['differs_known_finding'] += 1
            self.hit(fid, {'kripke_R': kd['R'], 'L': kd['L'], 'F': F, 'logic': logic, 'formula': fstr(f), 'modelcheck': r[1],
                           'fair_semantics': ref})
        else:
            st['violations'] += 1
            return self.viol('mc', '%s.modelcheck(K,f,F=F) differs from the fair semantics AND from the faithful model of the '
                                   'coded reduction (not KF-C15-a/b)' % logic, obs)
        if nontrivial:
            R.nontriv(('mc', logic, tuple(kd['S']), tuple(kd['R']), json.dumps(kdj(kd)['L'], sort_keys=True), tuple(map(tuple, F)), f, json.dumps(kd.get('names'))))
            if differs_plain and F and 0 < len(e['true_fair']) < len(succ_of(kd)):
                cls = 'agrees' if r[1] == ref else ('known_finding_a' if impl_fair_wrong else 'known_finding_b')
                self.keep('%s_%s' % (logic, cls),
                          {'kripke_R': kd['R'], 'L': kd['L'], 'F': F, 'logic': logic, 'formula': fstr(f), 'impl': r[1],
                           'fair_semantics': ref, 'unconstrained': p['ref'], 'faithful_model': m[1] if m[0] == 'ok' else m})

    def bad(self, kd, e, c, o):
        self.outright['calls'] += 1
        r = tuple(c['r'])
        obs = {'kripke': kdj(kd), 'F': e['F'], 'Fkind': e['kind'], 'logic': c['logic'], 'formula': c['f'],
               'formula_str': fstr(c['f']), 'impl': r, 'model': model_obs(o), 'out_of_logic': True}
        if c['changed']:
            self.viol('bad', '%s.modelcheck(K,f,F=F) on an out-of-logic formula modified K' % c['logic'], dict(obs, changed=c['changed']))
        elif r != ('err', 'TypeError'):
            self.viol('bad', '%s.modelcheck(K,f,F=F) on a formula outside %s: expected the documented TypeError, got %s'
                      % (c['logic'], c['logic'], r), obs)
        else:
            self.outright['out_of_logic_TypeError'] += 1


    # ---- one formula object on a sequence of (structure, F)
    def reuse(self, res):
        R = self.R
        steps = res['steps']
        labels = [fresh_label(st['kd']) if st['F'] is not None else None for st in steps]
        for fo in res['forms']:
            logic, f = fo['logic'], fo['f']
            self.reuse_cov['formula_objects'] += 1
            reported = False
            for j, c in enumerate(fo['calls']):
                R.evaluations += 1
                self.reuse_cov['calls'] += 1
                earlier = {l for l in labels[:j] if l is not None}
                crossing = labels[j] is not None and bool(earlier - {labels[j]})
                if crossing:
                    self.reuse_cov['calls_after_a_step_with_another_fresh_label'] += 1
                    R.nontriv(('reuse', logic, f, j, json.dumps([[kdj(st['kd']), st['F']] for st in steps[:j + 1]], sort_keys=True)))
                m = model_obs(c['out'])
                r, fresh, ref = tuple(c['reused']), tuple(c['fresh']), c['ref']
                what = None
                if c['K_changed']:
                    what = 'modified K'
                elif not c['object_intact']:
                    what = 'modified the formula object it was given'
                elif r[0] != 'ok':
                    what = 'raised / returned a non-set: %s' % r[1]
                elif r != fresh:
                    what = 'answers differently for a formula object that was used before (fresh fair label then: %s, now: %s) and for a ' \
                           'fresh object of the same formula' % (sorted(l for l in earlier), labels[j])
                elif r[1] != ref and r != m:
                    what = 'differs from the fair semantics AND from the faithful model of the coded reduction (not KF-C15-a/b)'
                if what is None:
                    self.reuse_cov['agree_reference' if r[1] == ref else 'known_finding'] += 1
                    continue
                self.reuse_cov['violations'] += 1
                if not reported:
                    reported = True
                    self.viol('reuse', '%s.modelcheck(K%d,f,F=%s), f ONE formula object handed to %d structures in turn, at step %d %s'
                              % (logic, j + 1, 'F' if steps[j]['F'] is not None else 'None', len(steps), j + 1, what),
                              {'stream': 'reuse', 'steps': [{'kripke': kdj(st['kd']), 'F': st['F'], 'kind': st.get('kind', 'list')} for st in steps],
                               'fresh_fair_label_per_step': labels, 'logic': logic, 'formula': f, 'formula_str': fstr(f), 'failing_step': j + 1,
                               'impl_reused_object': r, 'impl_fresh_object': fresh, 'model': m, 'reference': ref})

    # ---- one live structure edited by the caller between calls with F
    def living(self, res):
        R = self.R
        g = res['g']
        cov = self.living_cov
        cov['structures'] += 1
        base = {'stream': 'living', 'kripke': kdj(g['kd']), 'F': g['F'], 'Fkind': g.get('kind', 'list'), 'keepF': bool(g.get('keepF')),
                'edits': g['edits'], 'forms': [[l, f] for l, f in g['forms']]}
        reported = False

        def report(what, j, extra):
            nonlocal reported
            cov['violations'] += 1
            if not reported:
                reported = True
                self.viol('living', 'after the caller edits %s: %s' % ('; '.join(edit_text(e) for e in g['edits'][:j]) or '(none yet)', what),
                          dict(base, failing_step=j, caller_edits_so_far=[edit_text(e) for e in g['edits'][:j]], **extra))
        for j, st in enumerate(res['steps']):
            kinds = {e[0] for e in g['edits'][:j]}
            for k in kinds:
                cov['calls_after_edit_kind'][k] = cov['calls_after_edit_kind'].get(k, 0) + 1
            now = {'structure_now': kdj(st['kd']), 'F_now': st['F'], 'true_fair_set_now': st['true_fair']}
            if st.get('edit_raised'):
                cov['caller_edits_that_raised'] = cov.get('caller_edits_that_raised', 0) + 1
            R.evaluations += 1
            m = ('ok', sorted(ints(st['o_fair'])))
            r = tuple(st['fair'])
            if st['changed'] or not st['F_intact']:
                report('the calls with F modified %s' % ('K (%s)' % st['changed'] if st['changed'] else 'the F argument'), j, now)
            if r != m and not (r[0] == 'ok' and r[1] == st['true_fair']):
                report('get_fair_states(F) differs from the fair set of the structure as it is now and from the faithful model', j,
                       dict(now, impl=r, model_on_current_structure=m))
            elif j:
                R.nontriv(('living-fair', json.dumps(base, sort_keys=True, default=str), j))
            lr = st['label']
            if lr[0] != 'ok':
                report('label_fair_states(F) on a clone of the structure raised %s' % lr[1], j, dict(now, impl=lr))
            elif not lr[1][2] or lr[1][3] or (r[0] == 'ok' and lr[1][1] != r[1] and st['clone_same']):
                report('label_fair_states(F) on a clone: label not fresh / other labels changed / labels other states than get_fair_states returns',
                       j, dict(now, impl=lr, impl_fair=r))
            wrong_fair = not (r[0] == 'ok' and r[1] == st['true_fair'])
            for c in st['calls']:
                R.evaluations += 1
                cov['modelcheck_calls'] += 1
                mo = model_obs(c['out'])
                rc = tuple(c['r'])
                obs = dict(now, logic=c['logic'], formula=c['f'], formula_str=fstr(c['f']), impl=rc, model_on_current_structure=mo, reference_now=c['ref'])
                if rc[0] != 'ok':
                    report('%s.modelcheck(K,f,F=F) raised / returned a non-set: %s' % (c['logic'], rc[1]), j, obs)
                elif rc[1] == c['ref']:
                    cov['agree_reference'] += 1
                elif rc == mo:
                    cov['known_finding'] += 1
                    self.hit(KFA if wrong_fair else KFB, {'kripke_R': st['kd']['R'], 'L': st['kd']['L'], 'F': st['F'], 'logic': c['logic'],
                                                          'formula': fstr(c['f']), 'modelcheck': rc[1], 'fair_semantics': c['ref']})
                else:
                    report('%s.modelcheck(K,f,F=F) is neither the fair semantics of the structure as it is now nor the faithful model of the coded '
                           'reduction on it (an answer for an EARLIER state of K or F?)' % c['logic'], j, obs)
                    continue
                if j:
                    R.nontriv(('living-mc', c['logic'], c['f'], json.dumps(base, sort_keys=True, default=str), j))

    # ---- long structures
    def long(self, res):
        R = self.R
        p = res['p']
        self.long_cov['structures'] += 1
        b = '%d-%d' % (res['n_states'] // 1000 * 1000, res['n_states'] // 1000 * 1000 + 999)
        self.long_cov['states'][b] = self.long_cov['states'].get(b, 0) + 1
        base = {'stream': 'long', 'p': p, 'Fkind': res['kind'], 'n_states': res['n_states']}
        fr = res['fair']
        R.evaluations += 1
        if fr['agrees'] and not fr['changed'] and fr['F_intact']:
            self.long_cov['get_fair_states_agree'] += 1
            R.nontriv(('long-fair', json.dumps(p, sort_keys=True)))
        else:
            self.long_cov['violations'] += 1
            why = 'modified K' if fr['changed'] else 'modified F' if not fr['F_intact'] else \
                ('raised %s' % fr['impl'][1] if fr['impl'][0] != 'ok' else 'is not the fair set (closed form: every state that reaches the fair 2-clique / ring)')
            self.viol('long', 'get_fair_states(F) on a %d-state structure (%s) %s' % (res['n_states'], p['shape'], why), dict(base, impl=fr['impl']))
        for rec in res['forms']:
            R.evaluations += 1
            if rec.get('skipped'):
                self.long_cov['skipped_small_member_under_a_known_finding'] += 1
                continue
            self.long_cov['modelcheck_seconds_max'] = max(self.long_cov['modelcheck_seconds_max'], rec['seconds'])
            if rec['agrees'] and not rec['changed'] and rec['F_intact']:
                d = self.long_cov['modelcheck_agree']
                d[rec['logic']] = d.get(rec['logic'], 0) + 1
                if 0 < rec['expected_size'] < res['n_states']:
                    R.nontriv(('long-mc', rec['logic'], rec['f'], json.dumps(p, sort_keys=True)))
                continue
            self.long_cov['violations'] += 1
            why = 'modified K' if rec['changed'] else 'modified F' if not rec['F_intact'] else \
                ('raised %s' % rec['impl'][1] if rec['impl'][0] != 'ok' else 'differs from the closed-form answer (the common answer of the faithful '
                 'model and of the reference on the small member of the family, lifted segment by segment)')
            self.viol('long', '%s.modelcheck(K,f,F=F) on a %d-state structure (%s) %s' % (rec['logic'], res['n_states'], p['shape'], why),
                      dict(base, logic=rec['logic'], formula=rec['f'], formula_str=fstr(rec['f']), channel=rec['channel'], impl=rec['impl'],
                           small_member=rec['small'], small_F=rec['small_F'], small_answer=rec['small_reference']))


def judge_all(R, J, results):
    """classify the observations of all groups (the model answers were attached by the workers)"""
    n = 0
    for res in results:
        n += res['n_model_commands']
        if res.get('stream') == 'reuse':
            J.reuse(res)
            continue
        if res.get('stream') == 'long':
            J.long(res)
            continue
        if res.get('stream') == 'living':
            J.living(res)
            continue
        kd = res['kd']
        J.h('state_names', 'int 0..n-1' if not kd.get('names') else '+'.join(sorted({x[0] for x in kd['names']})))
        for p in res['plain']:
            J.unconstrained(kd, p, p['out'])
        for e in res['perF']:
            o_fair, o_ref, o_scc = e['fair']['outs'][:3]
            o_fair_clone = e['fair']['outs'][3] if len(e['fair']['outs']) > 3 else None
            J.model_fair = ints(o_fair)
            wrong = J.fair_set(kd, e, o_fair, o_ref, o_scc, e['label']['out'], o_fair_clone)
            for c in e['cases']:
                J.mc(kd, e, res['plain'][c['i']], c, c['out'], wrong)
            for c in e['bad']:
                J.bad(kd, e, c, c['out'])
    return n


# ----------------------------------------------------------------------------------------------
# case generation
# ----------------------------------------------------------------------------------------------
BAD = [('CTL', ('E', GF(P_))), ('CTL', ('A', ('and', ('X', P_), ('X', Q_)))), ('CTL', ('X', P_)), ('CTL', ('E', ('U', ('X', P_), Q_))),
       ('LTL', ('E', ('G', P_))), ('LTL', ('A', ('G', ('E', ('X', P_))))), ('LTL', ('G', P_)), ('LTL', ('not', ('A', ('G', P_))))]
RENAMES = [{'p': 'fair', 'q': 'fair0'}, {'p': 'fair0', 'q': 'fair'}, {'p': 'fair', 'q': 'fair1'}]
KINDS = ['list', 'list', 'list', 'frozen', 'tuple']


def witness_groups():
    """the corpus: the witnesses of both known findings and of the two fixed: entries run first"""
    k1 = {'S': [0], 'S0': [], 'R': [(0, 0)], 'L': {0: ['p']}}
    k2 = {'S': [0, 1], 'S0': [0], 'R': [(0, 0), (0, 1), (1, 0)], 'L': {0: ['p'], 1: []}}
    k3 = {'S': [0, 1, 2], 'S0': [], 'R': [(0, 1), (1, 0), (1, 2), (2, 2)], 'L': {0: ['p', 'fair'], 1: ['q'], 2: ['fair0']}}
    forms = [('CTL', ('E', ('G', P_))), ('CTL', ('E', ('R', P_, Q_))), ('CTL', ('A', ('U', P_, Q_))), ('CTL', ('E', ('R', Q_, P_))),
             ('CTL', ('A', ('R', P_, Q_))), ('LTL', ('A', ('G', P_))), ('LTL', ('A', GF(Q_))), ('LTL', ('A', ('R', P_, Q_))),
             ('CTLS', ('E', ('G', P_))), ('CTLS', ('E', ('R', P_, Q_))), ('CTLS', ('A', FG(P_))), ('CTLS', ('E', GF(('E', ('X', P_)))))]
    forms3 = forms + [(l, rename(f, RENAMES[0])) for l, f in forms]
    return [{'kd': k1, 'Fs': [([], 'list'), ([[0]], 'list'), ([[]], 'list')], 'forms': forms, 'bad': BAD},
            {'kd': k2, 'Fs': [([[1]], 'list'), ([], 'list'), ([[0], [1]], 'tuple'), ([[0, 1]], 'frozen')], 'forms': forms, 'bad': BAD},
            {'kd': k3, 'Fs': [([[2]], 'list'), ([[0]], 'list'), ([[0], [2]], 'list'), ([], 'list'), ([[9]], 'list')], 'forms': forms3}]


def variant(rng, kd):
    """presentation / naming variants: insertion order of S and R; labels named like the fresh fair label"""
    kd = dict(kd)
    x = rng.random()
    if x < 0.35:
        S = list(kd['S'])
        Rr = list(kd['R'])
        rng.shuffle(S)
        rng.shuffle(Rr)
        kd['S'], kd['R'] = S, Rr
    m = None
    y = rng.random()
    if y < 0.15:
        m = rng.choice(RENAMES)
        kd = rename_kd(kd, m)
    elif y < 0.25:
        kd['L'] = {s: list(ls) + (['fair'] if rng.random() < 0.5 else []) + (['fair0'] if rng.random() < 0.2 else [])
                   for s, ls in kd['L'].items()}
    return kd, m


def pick(rng, pools, n_first, n_rest):
    first, rest = pools
    return rng.sample(first, min(n_first, len(first))) + rng.sample(rest, min(n_rest, len(rest)))


def small_random_formulas(rng, n_each, depth):
    out = []
    for _ in range(n_each):
        for logic in ('CTL', 'LTL', 'CTLS'):
            for _try in range(20):
                if logic == 'CTL':
                    f = rand_ctl(rng, rng.randint(1, depth))
                elif logic == 'LTL':
                    f = ('A', rand_path(rng, rng.randint(1, depth)))
                else:
                    f = rand_ctls_state(rng, rng.randint(1, depth))
                if n_temporal(f) <= 4 and fsize(f) <= 14:
                    out.append((logic, f))
                    break
    return out


def has_const(f):
    return any(g[0] in ('true', 'false') for g in subformulas(f))


def build_groups(R):
    rng = R.rng
    T = R.thorough
    pools = {'CTL': ctl_pool(), 'LTL': ltl_pool(), 'CTLS': ctls_pool()}
    R.cov['template_pool_sizes'] = {l: len(a) + len(b) for l, (a, b) in pools.items()}
    quota = {'CTL': (8, 8), 'LTL': (5, 3), 'CTLS': (6, 5)} if T else {'CTL': (2, 1), 'LTL': (1, 1), 'CTLS': (1, 1)}

    def forms_for(m, half=None):
        fs = []
        for l in ('CTL', 'LTL', 'CTLS'):
            a, b = quota[l]
            if half is not None and l == 'LTL':
                a, b = (1, 0) if half == 0 else (0, 1)
            fs += [(l, f) for f in pick(rng, pools[l], a, b)]
        if m:
            fs = [(l, rename(f, m)) for l, f in fs]
        return fs
    groups = witness_groups()
    # (a) every structure with <= 2 states x every F of <= 2 sets (ordered lists in thorough, one order of each pair in quick;
    #     stream (b) has both orders) x sampled templates of the three logics
    #     (quick: the F's of a structure are split at random into two halves, each with its own sample of templates)
    for n in (1, 2):
        Fs = all_F(list(range(n)))
        for kd0 in all_kripkes(n):
            kd, m = variant(rng, kd0)
            FK = [(F, rng.choice(KINDS)) for F in Fs if T or len(F) < 2 or F[0] <= F[1]]
            if T:
                parts = [(FK, forms_for(m))]
            else:
                rng.shuffle(FK)
                h = (len(FK) + 1) // 2
                parts = [(FK[:h], forms_for(m, 0)), (FK[h:], forms_for(m, 1))]
            for FKp, forms in parts:
                g = {'kd': kd, 'Fs': FKp, 'forms': forms}
                if rng.random() < 0.3:
                    g['forms'] = forms + [(l, f) for l, f in small_random_formulas(rng, 3, 2) if has_const(f)][:2]
                if rng.random() < 0.1:
                    g['bad'] = rng.sample(BAD, 3)
                groups.append(g)
    # (b) fair sets alone: every graph with <= 3 states (labels irrelevant) x every F of <= 2 sets, two insertion orders
    gs3 = []
    for n in (1, 2, 3):
        states = list(range(n))
        Fs = all_F(states)
        choices = [c for r in range(1, n + 1) for c in itertools.combinations(states, r)]
        for succs in itertools.product(choices, repeat=n):
            Rl = [(s, d) for s in states for d in succs[s]]
            gs3.append({'S': states, 'S0': [], 'R': Rl, 'L': {s: [] for s in states}})
    for kd in gs3:
        n = len(kd['S'])
        Fs = all_F(kd['S'])
        if n == 3 and not T:
            Fs = rng.sample(Fs, 16)
        groups.append({'kd': kd, 'Fs': [(F, 'list') for F in Fs]})
        if n >= 2:
            kd2 = dict(kd, S=list(reversed(kd['S'])), R=list(reversed(kd['R'])))
            groups.append({'kd': kd2, 'Fs': [(F, 'list') for F in (Fs if T else rng.sample(Fs, min(8, len(Fs))))]})
    # (c) 3-state structures with formulas (sampled; every F of <= 2 sets in thorough for a sample of structures)
    n3 = 600 if T else 60
    states = [0, 1, 2]
    F3 = all_F(states)
    labsets = [list(c) for r in range(3) for c in itertools.combinations(('p', 'q'), r)]
    for i in range(n3):
        kd0 = dict(rng.choice(gs3[-343:]))
        kd0['L'] = {s: list(rng.choice(labsets)) for s in states}
        kd, m = variant(rng, kd0)
        Fs = rng.sample(F3, 10 if T else 5)
        groups.append({'kd': kd, 'Fs': [(F, rng.choice(KINDS)) for F in Fs], 'forms': forms_for(m)[::(2 if T else 1)]})
    # (d) random structures with <= 5 states, random F (<= 3 sets, occasionally a foreign element), random formulas
    for i in range(2500 if T else 200):
        n = rng.randint(1, 5)
        kd, m = variant(rng, rand_kripke(rng, n))
        fs = small_random_formulas(rng, 2, 3)
        forms = [(l, f if rng.random() < 0.35 else noconst(f)) for l, f in fs]
        if m:
            forms = [(l, rename(f, m)) for l, f in forms]
        g = {'kd': kd, 'Fs': [(rand_F(rng, kd['S']), rng.choice(KINDS)) for _ in range(3 if T else 2)], 'forms': forms}
        if rng.random() < 0.05:
            g['bad'] = rng.sample(BAD, 2)
        groups.append(g)
    # (e) (structure, F) on which KF-C15-a cannot bite (every truly fair non-trivial SCC has >= 2 nodes, all with self loops)
    #     and whose fair set is proper: the implementation's fair set is right and the reductions themselves are exercised
    ne = 0
    for i in range(1200 if T else 130):
        c = kfa_free_case(rng, rng.randint(3, 5))
        if c is None:
            continue
        ne += 1
        kd, m = variant(rng, c[0])
        forms = forms_for(m)[::(3 if T else 1)] + [(l, rename(noconst(f), m or {})) for l, f in small_random_formulas(rng, 1, 3)]
        Fs = [c[1], list(reversed(c[1])) + [list(kd['S'])], rand_F(rng, kd['S'], foreign=False)]
        groups.append({'kd': kd, 'Fs': [(F, rng.choice(KINDS)) for F in Fs], 'forms': forms})
    R.cov['kfa_free_proper_cases'] = ne
    # (f) clustered structures: several non-trivial components, constraints that only some of them meet
    nf = 0
    for i in range(600 if T else 90):
        kd0, F = clustered_case(rng)
        kd, m = variant(rng, kd0)
        forms = forms_for(m)[::(6 if T else 4)] + [(l, rename(noconst(f), m or {})) for l, f in small_random_formulas(rng, 1, 2)]
        # quantifiers nested in BOTH operands of until / release and under X: each level must be fair-rewritten
        a, b = rng.sample([P_, Q_, ('not', P_), ('not', Q_)], 2)
        inner = rng.choice([('E', ('X', b)), ('A', ('X', b)), ('E', ('G', b)), ('A', ('F', b)), ('and', ('not', b), ('E', ('X', b)))])
        nested = [('CTL', ('E', ('U', a, inner))), ('CTL', ('E', ('R', inner, a))), ('CTL', ('A', ('U', inner, a))), ('CTL', ('E', ('R', a, inner))),
                  ('CTL', ('E', ('X', ('E', ('U', a, inner))))), ('CTLS', ('E', ('U', a, inner))), ('CTLS', ('A', ('R', a, inner)))]
        forms = forms + [(l, rename(f, m or {})) for l, f in rng.sample(nested, 4)]
        Fs = [F, list(reversed(F)), rand_F(rng, kd['S'], foreign=False)]
        groups.append({'kd': kd, 'Fs': [(Fx, rng.choice(KINDS)) for Fx in Fs], 'forms': forms})
        nf += 1
    R.cov['clustered_cases'] = nf
    # the text channel with F: a third of the forms of every group above is ALSO passed as a string (own generator: the cases above
    # stay what they were)
    trng = random.Random(R.seed + 1501)
    for gi, g in enumerate(groups):
        if g.get('forms'):
            g['text'] = {i: ('default' if trng.random() < 0.02 else 'shared') for i in range(len(g['forms'])) if gi < 3 or trng.random() < (0.34 if T else 0.2)}
    groups = groups + more_groups(R, pools, quota)
    return groups + audit2_groups(R, pools, groups)


LONG_LABS = {'chain': [[], ['q'], ['q'], ['p', 'q']], 'a': [['p'], ['p', 'q'], ['q']], 'b': [[], ['q'], ['p', 'q']], 't': [[], ['p'], ['q']],
             'tail': [[], ['q']], 'z': [[], ['p'], ['p', 'q']], 'ring': [[], ['q'], ['q']], 'k': [['p'], ['p', 'q']]}
# formulas that the LTL / CTL* checkers decide within about a second on a 1100-state structure
LONG_LTL = [('A', ('F', P_)), ('A', ('G', Q_)), ('A', ('X', Q_)), ('A', ('U', Q_, P_)), ('A', ('R', P_, Q_)), ('A', ('not', P_)),
            ('A', ('F', ('not', Q_))), ('A', ('or', P_, ('X', Q_)))]
LONG_CTLS = [('E', GF(P_)), ('A', FG(Q_)), ('E', ('and', ('X', P_), ('X', Q_))), ('A', ('or', ('X', P_), ('X', ('not', P_)))),
             ('E', ('and', ('F', P_), ('G', Q_))), ('A', ('F', ('E', ('X', P_)))), ('E', ('G', ('E', ('F', P_))))]


def long_params(rng, lo, hi, ring_share=0.25, tail=True):
    lab = {k: rng.choice(v) for k, v in LONG_LABS.items()}
    if rng.random() < ring_share:
        N = rng.randint(lo, hi)
        return {'shape': 'ring', 'N': N, 'k': rng.randrange(N), 'F': rng.choice(['k', 'k', 'k,k']), 'lab': lab, 'rev': rng.random() < 0.3}
    N = rng.randint(lo, hi)
    return {'shape': 'lasso', 'N': N, 'x': rng.randint(N // 4, 3 * N // 4) if rng.random() < 0.6 else None,
            'M': rng.randint(lo, hi) if tail and rng.random() < 0.4 else 0,
            'F': rng.choice(['a', 'a', 'b', 'a,b', 'ab', 'a+chain', 'b,ab']), 'lab': lab, 'rev': rng.random() < 0.3}


def with_labels(rng, kd, how):
    """the same structure whose labels already use the names the library would pick for its fair label"""
    kd = dict(kd)
    states = sorted(succ_of(kd))
    L = {s: [a for a in kd['L'].get(s, []) if not a.startswith('fair')] for s in states}
    for name in {'plain': [], 'fair': ['fair'], 'fair+fair0': ['fair', 'fair0']}[how]:
        for s in rng.sample(states, rng.randint(1, len(states))):
            L[s] = L[s] + [name]
    kd['L'] = L
    return kd


def base_case(rng):
    x = rng.random()
    if x < 0.35:
        c = kfa_free_case(rng, rng.randint(3, 5))
        if c is not None:
            return c
    if x < 0.65:
        return clustered_case(rng)
    kd = rand_kripke(rng, rng.randint(1, 5))
    return kd, rand_F(rng, kd['S'], foreign=False)


def more_groups(R, pools, quota):
    """streams added after the white-box audit of this check; own generator"""
    rng = random.Random(R.seed + 1502)
    T = R.thorough
    groups = []

    def forms_for(m, extra=1):
        # the LTL / CTL* checkers cost 10-30 ms a call: one template each, two of CTL, and `extra` random formulas
        fs = [('CTL', f) for f in pick(rng, pools['CTL'], 1, 1)]
        for l in ('LTL', 'CTLS'):
            fs += [(l, f) for f in (pick(rng, pools[l], 1, 0) if rng.random() < 0.5 else pick(rng, pools[l], 0, 1))]
        fs += [(l, noconst(f)) for l, f in rng.sample(small_random_formulas(rng, 1, 3), extra)]
        return [(l, rename(f, m)) for l, f in fs] if m else fs

    def texts(forms, p=0.7):
        return {i: ('default' if rng.random() < 0.03 else 'shared') for i in range(len(forms)) if rng.random() < p}
    # (g) states that are not 0..n-1: other ints (negative, > 2**61, colliding in small hash tables), strings, and mutually
    #     UNORDERABLE mixtures (int / str / tuple / frozenset / None / float / bytes)
    for w in witness_groups():
        kd = dict(w['kd'], names=make_names(rng, len(w['kd']['S']), 'mixed'))
        groups.append(dict(w, kd=kd, text={i: ('default' if i % 4 == 0 else 'shared') for i in range(len(w['forms']))}))
    ng = 0
    for i in range(1200 if T else 120):
        kd0, F = base_case(rng)
        kd, m = variant(rng, kd0)
        kd['names'] = make_names(rng, len(succ_of(kd)), rng.choice(NAME_STYLES))
        forms = forms_for(m)
        Fs = [F, rand_F(rng, kd['S'])] + ([list(reversed(F))] if T else [])
        g = {'kd': kd, 'Fs': [(Fx, rng.choice(KINDS)) for Fx in Fs], 'forms': forms, 'text': texts(forms)}
        if rng.random() < 0.05:
            g['bad'] = rng.sample(BAD, 2)
        groups.append(g)
        ng += 1
    R.cov['renamed_state_cases'] = ng
    # (h) ONE formula object on a sequence of structures whose fresh fair label differs (fair / fair0 / fair1), with and without F
    nh = 0
    for i in range(500 if T else 60):
        kd0, F0 = base_case(rng)
        hows = ['plain', rng.choice(['fair', 'fair+fair0'])] + [rng.choice(['plain', 'fair', 'fair+fair0']) for _ in range(rng.choice([0, 0, 1, 2]))]
        rng.shuffle(hows)
        steps = []
        names = make_names(rng, len(succ_of(kd0)), rng.choice(NAME_STYLES)) if rng.random() < 0.25 else None
        for how in hows:
            if steps and rng.random() < 0.2:
                kd1, F1 = base_case(rng)
                nm1 = None
            else:
                kd1, F1, nm1 = kd0, F0, names
            kd1 = with_labels(rng, kd1, how)
            if nm1:
                kd1['names'] = nm1
            F = None if rng.random() < 0.12 else (F1 if rng.random() < 0.7 else rand_F(rng, kd1['S'], foreign=False))
            steps.append({'kd': kd1, 'F': F, 'kind': rng.choice(KINDS)})
        m = rng.choice([None, None, None, {'p': 'fair'}, {'q': 'fair0'}])
        groups.append({'stream': 'reuse', 'steps': steps, 'forms': forms_for(m, extra=1 if T or rng.random() < 0.3 else 0)})
        nh += 1
    R.cov['formula_object_reuse_sequences'] = nh
    # (i) long structures (longer than the interpreter's recursion limit), closed-form answers outside both known findings
    for i in range(40 if T else 10):
        p = long_params(rng, 1100, 6000 if T else 3500)
        forms = [('CTL', f) for f in pick(rng, pools['CTL'], 2, 2)]
        groups.append({'stream': 'long', 'p': p, 'kind': rng.choice(KINDS), 'forms': forms, 'text': rng.random() < 0.3})
    for i in range(16 if T else 6):
        logic = ('LTL', 'CTLS')[i % 2]
        p = long_params(rng, 1040, 1150, ring_share=0.15, tail=False)
        f = rng.choice(LONG_LTL if logic == 'LTL' else LONG_CTLS)
        groups.append({'stream': 'long', 'p': p, 'kind': rng.choice(KINDS), 'forms': [(logic, f)], 'text': rng.random() < 0.3})
    return groups


def xlang_choice(rng, logic, f):
    """another language module whose classes can build f (None if there is none)"""
    c = [ol for ol in ('CTL', 'LTL', 'CTLS') if ol != logic and xlang_ok(f, ol)]
    return rng.choice(c) if c else None


def living_case(rng, pools):
    kd, F = base_case(rng)
    succ = succ_of(kd)
    states = sorted(succ)
    labs = {s: set(kd['L'].get(s, [])) for s in states}
    nxt = {s: set(ds) for s, ds in succ.items()}
    Fn = [set(P) for P in F]
    edits = []
    for _ in range(rng.randint(2, 4)):
        x = rng.random()
        st = sorted(nxt)
        if x < 0.3:
            s = rng.choice(st)
            a = rng.choice(['p', 'q'])
            if a in labs[s]:
                labs[s].discard(a)
                edits.append(['label_discard', s, a])
            else:
                labs[s].add(a)
                edits.append(['label_add', s, a])
        elif x < 0.45:
            new = {s: sorted(a for a in ('p', 'q') if rng.random() < 0.5) for s in st if rng.random() < 0.8}
            labs = {s: set(new.get(s, [])) for s in st}
            edits.append(['relabel', {str(s): ls for s, ls in new.items()}])
        elif x < 0.65:
            v = max(st) + 1
            a, b = rng.choice(st), rng.choice(st)
            nxt[v] = {a}
            nxt[b].add(v)
            labs[v] = set()
            edits.append(['new_state', v, a, b, rng.choice(['add_edge', 'add_edge', 'add_node'])])
        elif x >= 0.85 and not Fn:
            P = rng.sample(st, rng.randint(1, len(st)))
            Fn.append(set(P))
            edits.append(['F_append', sorted(P)])
        elif x < 0.85:
            non = [(a, b) for a in st for b in st if b not in nxt[a]]
            if not non:
                continue
            a, b = rng.choice(non)
            nxt[a].add(b)
            edits.append(['add_edge', a, b])
        else:
            i = rng.randrange(len(Fn))
            s = rng.choice(st)
            if s in Fn[i]:
                Fn[i].discard(s)
                edits.append(['F_discard', i, s])
            else:
                Fn[i].add(s)
                edits.append(['F_add', i, s])
    fs = [('CTL', f) for f in pick(rng, pools['CTL'], 1, 1)]
    l = rng.choice(['LTL', 'CTLS'])
    fs += [(l, f) for f in (pick(rng, pools[l], 1, 0) if rng.random() < 0.6 else pick(rng, pools[l], 0, 1))]
    fs += [(rng.choice(['CTL', 'LTL', 'CTLS']), ('A', ('G', P_))), ('CTL', ('E', ('F', rng.choice([P_, Q_]))))][:rng.choice([0, 1, 2])]
    keep = any(e[0].startswith('F_') for e in edits) or rng.random() < 0.3
    return {'stream': 'living', 'kd': kd, 'F': [sorted(P) for P in F], 'kind': 'list' if keep else rng.choice(KINDS), 'keepF': keep,
            'forms': fs, 'edits': edits}


def audit2_groups(R, pools, earlier):
    """streams / observers added after the second white-box audit; own generators"""
    rng = random.Random(R.seed + 1503)
    T = R.thorough
    groups = []

    def forms_for(m):
        fs = [('CTL', f) for f in pick(rng, pools['CTL'], 1, 1)]
        for l in ('LTL', 'CTLS'):
            fs += [(l, f) for f in (pick(rng, pools[l], 1, 0) if rng.random() < 0.5 else pick(rng, pools[l], 0, 1))]
        fs += [(l, noconst(f)) for l, f in rng.sample(small_random_formulas(rng, 1, 3), 1)]
        return [(l, rename(f, m)) for l, f in fs] if m else fs
    # (j) states that are plain user objects, hashed and compared BY IDENTITY (a copy of a state is not that state)
    no = 0
    for w in witness_groups()[:2]:
        groups.append(dict(w, kd=dict(w['kd'], names=make_names(rng, len(w['kd']['S']), 'obj')), text={0: 'shared', 5: 'default', 8: 'shared'}))
    for i in range(500 if T else 45):
        kd0, F = base_case(rng)
        kd, m = variant(rng, kd0)
        kd['names'] = make_names(rng, len(succ_of(kd)), rng.choice(['obj', 'obj', 'objmix']))
        forms = forms_for(m)
        Fs = [F, rand_F(rng, kd['S'])]
        groups.append({'kd': kd, 'Fs': [(Fx, rng.choice(KINDS)) for Fx in Fs], 'forms': forms,
                       'text': {i: 'shared' for i in range(len(forms)) if rng.random() < 0.3}})
        no += 1
    for i in range(60 if T else 8):
        kd0, F0 = base_case(rng)
        names = make_names(rng, len(succ_of(kd0)), 'obj')
        steps = []
        for how in rng.sample(['plain', 'fair', 'fair+fair0'], 2):
            kd1 = with_labels(rng, kd0, how)
            kd1['names'] = names
            steps.append({'kd': kd1, 'F': F0 if rng.random() < 0.8 else None, 'kind': rng.choice(KINDS)})
        groups.append({'stream': 'reuse', 'steps': steps, 'forms': forms_for(None)[:3]})
    R.cov['identity_hashed_state_cases'] = no
    # (k) a well-formed formula of the called logic built with the classes of ANOTHER language module (CTL.modelcheck documents
    #     'a type castable in a CTL.Formula'), passed together with F; (l) parser and F passed BY POSITION.  Observers on the forms of
    #     the groups generated so far (the cases themselves stay what they were)
    for gi, g in enumerate(earlier + groups):
        if not g.get('forms') or g.get('stream'):
            continue
        xl, ps = {}, {}
        for i, (logic, f) in enumerate(g['forms']):
            if gi < 3 or rng.random() < (0.2 if T else 0.12):
                ol = xlang_choice(rng, logic, f)
                if ol:
                    xl[i] = ol
            if gi < 3 or rng.random() < (0.15 if T else 0.08):
                ps[i] = rng.choice(['none', 'none', 'parser', 'parser-text'])
        if xl:
            g['xlang'] = xl
        if ps:
            g['pos'] = ps
    # (m) living structures: label edits, new unlabelled states, new edges, edits of the caller's F between calls WITH F
    for i in range(900 if T else 110):
        groups.append(living_case(rng, pools))
    return groups


def rewriting_tie(R):
    """syntactic tie of the fairness rewriting: the tree returned by get_equivalent_non_fair_formula(a) on live
    CTL / CTL* / LTL objects equals the tree of the model's unfair_ctl / unfair_ctls (coq/Model/Fair.v).  A difference
    means the model no longer describes the coded reduction (the behavioural comparison then decides whether the
    property is affected): reported as no-failing-input-found."""
    import mccheck
    rng = random.Random(R.seed + 15)
    items = []
    for f in mccheck.ctl_formulas_depth(1):
        items.append(('CTL', f))
    for f in rng.sample(mccheck.ctl_formulas_depth(2), 600 if R.thorough else 150):
        items.append(('CTL', f))
    pool = mccheck.path_formulas_ops(2, quant=True)
    for g in rng.sample(pool, min(len(pool), 1500 if R.thorough else 250)):
        items.append(('CTLS', g))
    lp = mccheck.path_formulas_ops(2)
    for g in rng.sample(lp, min(len(lp), 800 if R.thorough else 150)):
        items.append(('LTL', g))
        items.append(('LTL', ('A', g)))
    for _ in range(1500 if R.thorough else 200):
        items.append(('CTL', rand_ctl(rng, rng.randint(2, 4))))
        items.append(('CTLS', rand_path(rng, rng.randint(2, 4), quant=True)))
    cmds, obs = [], []
    for logic, f in items:
        L = lang_module(logic)
        a = rng.choice(['fair', 'fair0', 'x'])
        o = to_py(f, L)
        s0 = str(o)
        r = call(lambda: tree_of(o.get_equivalent_non_fair_formula(a)))
        # the SAME object rewritten again for another fair label (what happens when one formula object is model checked on two
        # structures whose fresh label differs): the second rewriting must be the one for the second label
        a2 = rng.choice([x for x in ('fair', 'fair0', 'fair1', 'x') if x != a])
        r2 = call(lambda: tree_of(o.get_equivalent_non_fair_formula(a2)))
        obs.append((logic, f, a, r, str(o) == s0, a2, r2))
        cmds.append(['unfairctl' if logic == 'CTL' else 'unfairctls', Q(a), fsx(f)])
        cmds.append(['unfairctl' if logic == 'CTL' else 'unfairctls', Q(a2), fsx(f)])
    outs = model_batch_parallel(cmds)
    nbad = nagain = 0

    def mres(logic, o):
        if logic == 'CTL':
            return ('ok', fparse(o[1])) if o[0] == 'some' else ('err', 'TypeError')
        return ('ok', fparse(o))
    for k, (logic, f, a, r, same, a2, r2) in enumerate(obs):
        o = outs[2 * k]
        R.evaluations += 1
        m = mres(logic, o)
        m2 = mres(logic, outs[2 * k + 1])
        if tuple(r) == m and same and tuple(r2) != m2:
            nagain += 1
            if nagain <= 10:
                R.violation('get_equivalent_non_fair_formula(%r) on a formula object that had been rewritten for %r before is not the rewriting '
                            'for %r (the first rewriting agrees with the model: the object remembers)' % (a2, a, a2),
                            {'correspondence': 'fairness rewriting, one object rewritten twice', 'logic': logic, 'formula': f, 'formula_str': fstr(f),
                             'fair_atoms': [a, a2], 'impl_first': r, 'impl_second': r2, 'model_second': m2})
            continue
        if tuple(r) != m or not same:
            nbad += 1
            if nbad <= 10:
                R.violation('get_equivalent_non_fair_formula differs from the model of the coded reduction' + ('' if same else ' (and modified the formula)'),
                            {'correspondence': 'fairness rewriting (unfair_ctl / unfair_ctls)', 'logic': logic, 'formula': f, 'formula_str': fstr(f),
                             'fair_atom': a, 'impl': r, 'model': m}, no_input=same)
        else:
            R.count('rewriting_tie_agree')
    R.cov['rewriting_tie'] = {'compared': len(items), 'differences': nbad, 'same_object_rewritten_for_a_second_label': len(items),
                              'second_rewriting_differs': nagain}


# ----------------------------------------------------------------------------------------------
# ----------------------------------------------------------------------------------------------
# structures that LIVE: the caller edits K (add_edge between existing states, new states) between two get_fair_states calls
# ----------------------------------------------------------------------------------------------
def evolving_structures(R):
    """get_fair_states must answer for the structure AS IT IS NOW: after every caller edit through the public API the fair set
    is compared with the faithful model run on the presentation read back from the live object (so KF-C15-a is reproduced, not
    flagged) - something remembered from before the edit (e.g. a cached reversed graph) shows up as a difference"""
    rng = random.Random(R.seed + 1515)
    cmds, meta = [], []
    for case in range(1200 if R.thorough else 150):
        n = rng.randint(2, 5)
        kd = clustered_case(rng)[0] if rng.random() < 0.4 else rand_kripke(rng, n)
        K = kd_py(kd)
        F = rand_F(rng, list(K.states()), foreign=False)
        trace = []
        for step in range(rng.randint(2, 4)):
            r = canon(call(lambda: K.get_fair_states(mkF(F, rng.choice(['list', 'tuple', 'frozen'])))), K)
            cmds.append(['fair', kripke_sx(K), [sorted(P) for P in F]])
            meta.append((case, kd, F, list(trace), r))
            st = sorted(K.states())
            non_edges = [(a, b) for a in st for b in st if b not in K.next(a)]
            if non_edges and rng.random() < 0.8:
                a, b = rng.choice(non_edges)
                K.add_edge(a, b)
                trace.append(['add_edge', a, b])
            else:
                v = max(st) + 1
                a, b = rng.choice(st), rng.choice(st)    # a new state needs a successor (totality is the caller's duty here)
                K.add_edge(v, a)
                K.add_edge(b, v)
                trace += [['add_edge', v, a], ['add_edge', b, v]]
    outs = model_batch_parallel(cmds)
    bad = 0
    for (case, kd, F, trace, r), o in zip(meta, outs):
        R.evaluations += 1
        m = ('ok', sorted(ints(o)))
        if tuple(r) != m:
            bad += 1
            if bad <= 5:
                R.violation('get_fair_states after the caller edited K differs from the faithful model on the current structure',
                            {'stream': 'evolving', 'kripke': kdj(kd), 'F': F, 'caller_edits_so_far': trace, 'impl': r, 'model_on_current_structure': m})
        elif trace:
            R.nontriv(('evolving', case, len(trace)))
    R.cov['evolving_structures'] = {'get_fair_states_calls': len(meta), 'differences': bad}


def run(R):
    R.rule = ('(K, F) and (K, F, formula, logic): the witnesses of KF-C15-a/b and of the two fixed: entries; every total structure with '
              '<= 2 states over labels {p,q} x every list F of <= 2 subsets of the states (both orders of a pair in thorough) x templates sampled per structure '
              '(CTL: every A/E x X/F/G/U/R over literals incl. E(f R g), A(f U g), one level of nesting, Boolean combinations; LTL: A g for '
              'every g with <= 1 operator, sampled 2-operator g, GF/FG patterns; CTL*: A/E over non-CTL path formulas, nested quantifiers); '
              'fair sets alone on every graph with <= 3 states x every F of <= 2 sets (sampled F for 3 states in quick) in two insertion '
              'orders; sampled 3-state structures; random structures with <= 5 states, random F of <= 3 sets (containers list/tuple, '
              'set/frozenset, occasionally a foreign element), random formulas of depth <= 3; random (structure, F) with 3-5 states on which '
              'KF-C15-a cannot bite (truly fair SCCs have >= 2 nodes, each with a self loop) and whose fair set is proper, so that the '
              'reductions are exercised on correct fair sets; a share of the structures is presented with '
              'shuffled insertion order and with labels named fair/fair0/fair1 (used by the formula or not); identifier atoms only; Boolean '
              'constants occur in a minority of formulas and are read as atoms (true = holds everywhere, false = nowhere). '
              'TEXT CHANNEL: for a share of the (K, F, formula) of every stream (20% quick / 34% thorough; ~60% in the renamed stream) the '
              'formula is ALSO passed as a string together with F (explicit parser object, or parser=None for a few) to each of the three '
              'modelcheck and classified like the object answer; text and object answers must coincide. ASK AGAIN: after every '
              'get_fair_states the caller edits the returned set (clear / drop half / add a foreign element) and asks again on the same '
              'object: same answer, another set object; the later label_fair_states / modelcheck calls of the group run on that same '
              'structure. RENAMED STATES: random / clustered / KF-C15-a-free / witness structures whose states are other ints '
              '(negative, > 2**61, colliding modulo 8), strings, or mutually unorderable mixtures of int, str, tuple, frozenset, float, '
              'bytes (pairs that collide under str() or hash()); reference and model work on 0..n-1, the model gets the presentation read back '
              'from the live object (from K.clone() for calls with F, because KF-C15-a depends on the iteration order inside the clone). '
              'FORMULA OBJECT RE-USE: one formula object per (logic, formula) handed to modelcheck on 2-4 (structure, F) steps whose '
              'fresh fair label differs (labels fair / fair0 already used by the structure or not; F=None steps in between); every answer is '
              'classified and must equal the answer for a fresh object; in the rewriting tie each object is rewritten a second time '
              'for another fair label. LONG STRUCTURES: 1000-6000 states (more than the recursion limit): a chain into a fair 2-clique '
              'with self loops, optional exit to an unfair sink in the middle, optional long unfair tail behind the clique, or a ring with '
              'self loops; F inside the clique / on one ring state, so that neither known finding applies; expected = the common answer of '
              'faithful model and reference on the small member of the same family, lifted segment by segment (a state and its '
              'representative agree on segment and on the distance to the next special state up to X-depth+2; formulas on which model '
              'and reference differ on the small member are skipped); get_fair_states and CTL on every one, LTL / CTL* on ~1100 states. '
              'IDENTITY-HASHED STATES: the renamed-state streams again with states that are plain user objects (no __eq__/__hash__: a copy of a '
              'state is not that state; alone or mixed with builtins): results must be states of K itself. OTHER-MODULE OBJECTS: for a '
              'share of the (K, F, formula) of every stream the formula is also built with the classes of ANOTHER language module that '
              'can express it (CTL <- CTL*/LTL classes, LTL <- CTL* classes, CTL* <- CTL/LTL classes) and passed with and without F: where the '
              'entry point answers it without F like its own object, it must answer it with F like its own object. BY POSITION: for a '
              'share, modelcheck(K, f, None, F) / modelcheck(K, f-or-text, parser, F) - the documented positional order - must equal the '
              'keyword call. LIVING STRUCTURES: one live K and one F; before and after each of 2-4 caller edits (K.labels(s).add/discard, '
              'replace_labelling_function, add_edge between states, a NEW state through add_edge / add_node that the caller never labels, '
              'in-place edits of the F list he keeps passing) get_fair_states, label_fair_states on a clone and modelcheck(K,f,F=F) in the '
              'three logics are classified against reference and faithful model of the structure AS IT IS NOW. '
              'Non-trivial: F non-empty and the true fair '
              'set neither empty nor everything, or the fair reference answer differs from the unconstrained one; distinct by '
              '(structure, F[, logic, formula])')
    R.cov['explanation'] = EXPLANATION
    rewriting_tie(R)
    evolving_structures(R)
    groups = build_groups(R)
    groups.sort(key=lambda g: g.get('stream') != 'long')       # the few slow ones first (the pool hands groups out in order)
    t0 = time.time()
    results = run_groups(groups, jobs=min(16, os.cpu_count() or 1))
    t1 = time.time()
    J = Judge(R)
    ncmds = judge_all(R, J, results)
    R.cov['wall_split_s'] = {'implementation+reference+model (worker pool)': round(t1 - t0, 1), 'classification': round(time.time() - t1, 1),
                             'model_commands': ncmds, 'groups': len(groups)}
    R.samples = [x for cls in sorted(J.samples) for x in J.samples[cls]]
    R.cov['fair_set'] = J.fair
    R.cov['modelcheck_with_F'] = J.mcs
    R.cov['F_every_path_satisfies'] = J.trivF
    R.cov['F_None'] = J.none
    R.cov['asserted_outright'] = J.outright
    R.cov['distribution'] = J.hist
    R.cov['formula_object_reuse'] = J.reuse_cov
    R.cov['long_structures'] = J.long_cov
    R.cov['living_structures'] = J.living_cov
    R.cov['formula_objects_of_another_language_module_with_F'] = J.xlang_cov
    tot = {k: J.fair.get(k, 0) + sum(J.mcs[l].get(k, 0) for l in J.mcs) for k in ('explored', 'agree_reference', KFA, KFB)}
    R.cov['classification_total'] = {'explored_inputs': tot['explored'], 'agree_with_reference_outright': tot['agree_reference'],
                                     'under_' + KFA: tot[KFA], 'under_' + KFB: tot[KFB],
                                     'violations': sum(J.nviol.values())}
    if sum(J.nviol.values()) > len(R.violations):
        R.cov['violations_not_written_as_replays'] = sum(J.nviol.values()) - len(R.violations)
    for fid in (KFA, KFB):
        n = J.hits[fid]
        if n:
            R.known_hits[fid] = n
            known_finding_line(PID, fid, '%s (%d explored inputs)' % (KF_WHAT[fid], n))
            R.cov.setdefault('known_finding_first_hit', {})[fid] = J.first_hit[fid]
        else:
            J.stale.add(fid)
    if J.stale:
        R.cov['known_finding_no_longer_reproduces'] = ','.join(sorted(J.stale))
    R.exhaustive = False


def detup(x):
    if isinstance(x, list):
        return tuple(detup(y) for y in x)
    return x


def replay(R, data):
    d = data['data']
    if d.get('stream') == 'reuse':
        g = {'stream': 'reuse', 'forms': [(d['logic'], detup(d['formula']))],
             'steps': [{'kd': kd_from(st['kripke']), 'F': st['F'], 'kind': st.get('kind', 'list')} for st in d['steps']]}
        res = do_group(g)
        J = Judge(R)
        judge_all(R, J, [res])
        print('formula  :', d['logic'], fstr(g['forms'][0][1]), ' - ONE object, handed to every step in turn')
        for j, (st, c) in enumerate(zip(g['steps'], res['forms'][0]['calls'])):
            print('step %d: structure %s  F=%s  (fresh fair label: %s)' % (j + 1, st['kd'], st['F'], fresh_label(st['kd']) if st['F'] is not None else '-'))
            print('   impl, the re-used object:', c['reused'], '  impl, a fresh object:', c['fresh'], '  faithful model:', model_obs(c['out']),
                  '  fair reference:', c['ref'], '  object intact:', c['object_intact'], '  K changed:', c['K_changed'])
        print('classification:', J.reuse_cov)
        return
    if d.get('stream') == 'living':
        g = {'stream': 'living', 'kd': kd_from(d['kripke']), 'F': d['F'], 'kind': d.get('Fkind', 'list'), 'keepF': d.get('keepF'),
             'edits': d['edits'], 'forms': [(l, detup(f)) for l, f in d['forms']]}
        res = do_group(g)
        J = Judge(R)
        judge_all(R, J, [res])
        print('structure:', g['kd'], ' F:', g['F'], '(the caller keeps and passes ONE list object)' if g['keepF'] else '(%s, built anew for every call)' % g['kind'])
        for j, st in enumerate(res['steps']):
            print('step %d%s' % (j, ': caller: ' + edit_text(g['edits'][j - 1]) if j else ' (as constructed)'))
            print('   structure now:', st['kd'], ' F now:', st['F'])
            print('   get_fair_states: impl', st['fair'], ' faithful model', sorted(ints(st['o_fair'])), ' true fair set', st['true_fair'],
                  ' label_fair_states on a clone:', st['label'], ' K changed by the calls:', st['changed'])
            for c in st['calls']:
                print('   %s %s with F: impl %s  faithful model on the structure now %s  fair reference now %s'
                      % (c['logic'], fstr(c['f']), c['r'], model_obs(c['out']), c['ref']))
        print('classification:', J.living_cov, ' violations:', J.nviol)
        return
    if d.get('stream') == 'long':
        g = {'stream': 'long', 'p': d['p'], 'kind': d.get('Fkind', 'list'), 'text': d.get('channel') == 'text',
             'forms': [(d['logic'], detup(d['formula']))] if 'formula' in d else []}
        res = do_group(g)
        J = Judge(R)
        judge_all(R, J, [res])
        print('family   :', d['p'], ' states:', res['n_states'], ' F (%s):' % g['kind'], long_kd(d['p'])[1])
        print('get_fair_states: impl', res['fair']['impl'], ' agrees with the closed form:', res['fair']['agrees'], ' K changed:', res['fair']['changed'])
        for rec in res['forms']:
            print('formula  :', rec['logic'], fstr(rec['f']), '(%s)' % rec.get('channel', '-'))
            print('   small member of the family:', rec['small'], 'F', rec['small_F'], ' faithful model', rec['small_model'], ' reference', rec['small_reference'])
            print('   ' + ('skipped: ' + rec['skipped'] if rec.get('skipped') else 'impl on the long structure vs lifted answer: %s  agrees: %s  K changed: %s'
                           % (rec['impl'], rec['agrees'], rec['changed'])))
        print('classification:', J.long_cov)
        return
    if str(d.get('correspondence', '')).startswith('fairness rewriting') and 'formula' in d:
        f = detup(d['formula'])
        o = to_py(f, lang_module(d['logic']))
        atoms = d.get('fair_atoms') or [d['fair_atom']]
        cmd = 'unfairctl' if d['logic'] == 'CTL' else 'unfairctls'
        print('formula  :', d['logic'], fstr(f), ' - ONE object, rewritten for', atoms, 'in turn')
        differs = False
        for a in atoms:
            r = call(lambda: tree_of(o.get_equivalent_non_fair_formula(a)))
            mo = model_batch([[cmd, Q(a), fsx(f)]])[0]
            m = (('ok', fparse(mo[1])) if mo[0] == 'some' else ('err', 'TypeError')) if d['logic'] == 'CTL' else ('ok', fparse(mo))
            print('  fair label %r: impl %s' % (a, r))
            print('  %s  model %s' % (' ' * len(repr(a)), m))
            differs = differs or tuple(r) != m
        if differs:
            R.violation('replayed', d)
        return
    if 'kripke' not in d:
        print('nothing to replay (proof gate entry):', data.get('what'))
        return
    kd = kd_from(d['kripke'])
    F = d.get('F')
    if d.get('stream') == 'evolving':
        K = kd_py(kd)
        call(lambda: K.get_fair_states(mkF(F, 'list')))          # the caller had asked before editing
        for ed in d['caller_edits_so_far']:
            if ed[0] == 'add_edge':
                K.add_edge(ed[1], ed[2])
                print('caller: K.add_edge(%r, %r)' % (ed[1], ed[2]))
                call(lambda: K.get_fair_states(mkF(F, 'list')))
        r = canon(call(lambda: K.get_fair_states(mkF(F, 'list'))), K)
        m = ('ok', sorted(ints(model_batch([['fair', kripke_sx(K), [sorted(P) for P in F]]])[0])))
        print('impl :', r)
        print('model on the current structure:', m)
        if tuple(r) != m:
            R.violation('replayed', d)
        return
    kind = d.get('Fkind', 'list')
    g = {'kd': kd, 'Fs': [] if F is None else [(F, kind)]}
    if 'formula' in d:
        key = 'bad' if d.get('out_of_logic') else 'forms'
        g[key] = [(d['logic'], detup(d['formula']))]
        if key == 'forms':
            g['text'] = {0: d.get('parser', 'shared')}
            if d.get('xlang'):
                g['xlang'] = {0: d['xlang']}
            if d.get('pos'):
                g['pos'] = {0: d['pos']}
    res = do_group(g)
    J = Judge(R)
    judge_all(R, J, [res])
    print('structure:', kd)
    print('F        :', F, '(%s)' % kind)
    for p in res['plain']:
        print('formula  :', p['logic'], fstr(p['f']))
        print('  impl without F / F=None :', p['r_plain'], '/', p['r_none'], '   model:', model_obs(p['out']), '   reference:', p['ref'])
    for e in res['perF']:
        o = e['fair']['outs']
        print('get_fair_states: impl', e['fair']['impl'], ' faithful model', sorted(ints(o[0])), ' fairref', sorted(ints(o[1])),
              ' brute force', e['true_fair'], ' K changed:', e['fair']['changed'])
        print('   asked again after the caller edited the returned set:', e['fair'].get('again'))
        if kd.get('names'):
            print('   (states are shown as 0..n-1; in the library call they are', [dec_name(x) for x in kd['names']], ')')
        print('label_fair_states:', e['label']['impl'], ' model label', e['label']['out'][1], ' K changed:', e['label']['changed'])
        for c in e['cases'] + e['bad']:
            print('  modelcheck with F: impl', c['r'], ' faithful model', model_obs(c['out']), ' fair reference', c.get('ref', '-'),
                  ' K changed:', c['changed'])
            if 'r_text' in c:
                print('  modelcheck with F, formula as TEXT (%s parser): impl' % c['parser'], c['r_text'], ' K changed:', c['changed_text'])
            if 'x' in c:
                print('  the formula built with the %s classes: impl without F' % c['x']['lang'], c['x']['plain'], ' with F', c['x']['F'], ' K changed:', c['x']['changed'])
            if 'pos' in c:
                print('  modelcheck(K, <%s>, %s, F) by position: impl' % (c['pos']['formula_as'], 'None' if c['pos']['how'] == 'none' else '<parser>'),
                      c['pos']['r'], ' K changed:', c['pos']['changed'])
    print('classification:', {'fair_set': J.fair, 'modelcheck': {l: v for l, v in J.mcs.items() if v['explored']},
                              'violations': J.nviol, 'known findings': J.hits})
