"""c06_worker.py - observes the library on ONE presentation of a Kripke structure.

Used in two ways by props_c06.py:
* imported (observe_job runs in the check's own interpreter / fork pool), and
* as a script in a FRESH interpreter:  env PYTHONHASHSEED=<k> python c06_worker.py < job.json > observations.json
  (hash randomisation can only be varied per interpreter).

A presentation is a dict
  {'S': [state...] | None, 'S0': [...], 'R': [[s, d]...], 'L': [[state, [atom...]]...],
   'back': [[state, base_number]...], 'containers': 'list' | 'set' | {spec}}
(containers may also be a dict {'S': k, 'S0': k, 'R': k, 'edge': 'tuple' | 'list', 'L': 'dict' | 'ordered' | 'default',
'labels': [k, ...]} with k one of CONTAINER_KINDS - list, set, tuple, frozenset, dict keys view, one-shot iterator, generator,
deque: each collection handed to Kripke in its own container type, the label collections cycling through 'labels')
with states encoded for JSON (int | str | {'t': [...]} for tuples | {'o': [label, style]} for a PLAIN OBJECT: an instance of
the user class Loc below, hashed and compared by identity - one object per (label, style) and presentation, so such a state
has no value that could be rebuilt from a copy of it; style 'same' gives all of them the same repr).  With containers ==
'set' the S, R and label
collections are handed to Kripke as Python sets, so that their iteration order is whatever the interpreter's hashing
gives.  All observations are reported in BASE NUMBERS (through `back`), together with the iteration orders that the
live object actually has, so that the caller can run the model on exactly this presentation."""
import sys, os, json

sys.path.insert(0, os.path.dirname(os.path.abspath(__file__)))
from common import to_py, lang_module, call   # noqa: E402  (also puts PMC_REPO first on sys.path)


class ObjName(object):
    """placeholder (in the generating process) for a state that is to be a plain object: enc() writes it as {'o': [label, style]}"""
    def __init__(self, label, style):
        self.label, self.style = label, style

    def __eq__(self, other):
        return isinstance(other, ObjName) and (self.label, self.style) == (other.label, other.style)

    def __hash__(self):
        return hash(('ObjName', self.label, self.style))

    def __repr__(self):
        return 'ObjName(%r, %r)' % (self.label, self.style)


class Loc(object):
    """a plain user class used as a state: hashable, compared and hashed by identity (Python's defaults), not orderable;
    a copy of a Loc is a DIFFERENT state"""
    def __init__(self, label, same_repr):
        self.label = label
        self.same_repr = same_repr

    def __repr__(self):
        return 'Loc' if self.same_repr else 'Loc(%s)' % self.label


def enc(x):
    if isinstance(x, ObjName):
        return {'o': [x.label, x.style]}
    if isinstance(x, tuple):
        return {'t': [enc(y) for y in x]}
    return x


def dec(x, table=None):
    """table: the objects of this presentation, (label, style) -> Loc (needed as soon as a state is a plain object)"""
    if isinstance(x, dict):
        if 'o' in x:
            key = (x['o'][0], x['o'][1])
            if key not in table:
                table[key] = Loc(key[0], key[1] == 'same')
            return table[key]
        return tuple(dec(y, table) for y in x['t'])
    return x


def detuple(x):
    if isinstance(x, list):
        return tuple(detuple(y) for y in x)
    return x


CONTAINER_KINDS = ['list', 'set', 'tuple', 'frozenset', 'dictkeys', 'iter', 'gen', 'deque']


def container(kind, xs):
    """the collection xs (a list) in the container type `kind`"""
    import collections
    if kind == 'list':
        return list(xs)
    if kind == 'set':
        return set(xs)
    if kind == 'tuple':
        return tuple(xs)
    if kind == 'frozenset':
        return frozenset(xs)
    if kind == 'dictkeys':
        return dict.fromkeys(xs).keys()
    if kind == 'iter':
        return iter(list(xs))
    if kind == 'gen':
        return (x for x in list(xs))
    if kind == 'deque':
        return collections.deque(xs)
    raise ValueError(kind)


def build_varied(pres, table, spec):
    import collections
    from pyModelChecking import Kripke
    S = None if pres['S'] is None else container(spec['S'], [dec(s, table) for s in pres['S']])
    S0 = container(spec['S0'], [dec(s, table) for s in pres['S0']])
    mk = tuple if spec.get('edge', 'tuple') == 'tuple' or spec['R'] in ('set', 'frozenset', 'dictkeys') else list    # lists are not hashable
    Rl = container(spec['R'], [mk((dec(a, table), dec(b, table))) for a, b in pres['R']])
    L = {'dict': dict, 'ordered': collections.OrderedDict, 'default': lambda: collections.defaultdict(list)}[spec.get('L', 'dict')]()
    kinds = spec.get('labels') or ['list']
    for i, (s, labs) in enumerate(pres['L']):
        L[dec(s, table)] = container(kinds[i % len(kinds)], labs)
    return Kripke(S=S, S0=S0, R=Rl, L=L)


def stored_differs(K, pres, table):
    """None, or what the live object stores differently from the presentation it was built from (states, initial states,
    transitions, label sets: whatever container type each collection was handed over in)"""
    given_R = set((dec(a, table), dec(b, table)) for a, b in pres['R'])
    given_S = set(x for e in given_R for x in e) | (set() if pres['S'] is None else set(dec(s, table) for s in pres['S']))
    if set(K.states()) != given_S:
        return 'states'
    if set(K.S0) != set(dec(s, table) for s in pres['S0']):
        return 'initial-states'
    if set(K.transitions()) != given_R:
        return 'transitions'
    given_L = {dec(s, table): set(labs) for s, labs in pres['L']}
    for s in given_S:
        if K._labels.get(s) != given_L.get(s, set()):
            return 'labels'
    return None


def build(pres, table=None):
    from pyModelChecking import Kripke
    if table is None:
        table = {}
    if isinstance(pres.get('containers'), dict):
        return build_varied(pres, table, pres['containers'])
    as_set = pres.get('containers') == 'set'
    S = None if pres['S'] is None else [dec(s, table) for s in pres['S']]
    S0 = [dec(s, table) for s in pres['S0']]
    Rl = [(dec(a, table), dec(b, table)) for a, b in pres['R']]
    L = {}
    for s, labs in pres['L']:
        L[dec(s, table)] = set(labs) if as_set else list(labs)
    if as_set:
        S = None if S is None else set(S)
        Rl = set(Rl)
        S0 = set(S0)
    return Kripke(S=S, S0=S0, R=Rl, L=L)


def observe(pres, queries, X, internals=False, F=None):
    """-> dict of observations of one presentation; queries: [(logic, formula tree)], X: reach start set (encoded states);
    F: fairness constraints (list of lists of encoded states; each query is then modelcheck(K, f, F=[set, ...])) or None"""
    from pyModelChecking.graph import compute_SCCs
    table = {}                                 # the plain-object states of this presentation (shared by all builds below)
    back = {dec(s, table): n for s, n in pres['back']}
    out = {}
    r = call(lambda: build(pres, table))
    if r[0] != 'ok':
        return {'build': list(r)}
    K = r[1]
    diff = call(lambda: stored_differs(K, pres, table))
    if diff != ('ok', None):
        return {'build': ['err', 'other:stored-%s-differ-from-the-given-ones' % diff[1]]}
    out['build'] = ['ok']
    out['states_order'] = [back[s] for s in K.states()]
    out['succ_order'] = [[back[s], [back[d] for d in K._next[s]]] for s in K._next]
    out['label_order'] = [[back[s], [str(a) for a in K._labels[s]]] for s in K._labels]
    out['init'] = sorted(back[s] for s in K.S0)
    answers = []
    for logic, f in queries:
        f = detuple(f)
        L = lang_module(logic)
        K2 = build(pres, table)                # a fresh object per query: no interference between queries
        if F is None:
            a = call(lambda: L.modelcheck(K2, to_py(f, L)))
        else:
            Fv = [set(dec(x, table) for x in P) for P in F]
            a = call(lambda: L.modelcheck(K2, to_py(f, L), F=Fv))
        if a[0] == 'ok':
            v = a[1]
            if not isinstance(v, set):
                answers.append(['err', 'other:not-a-set:' + type(v).__name__])
            elif any(s not in back for s in v):
                answers.append(['err', 'other:foreign-state-in-result'])
            else:
                answers.append(['ok', sorted(back[s] for s in v)])
        else:
            answers.append(list(a))
    out['answers'] = answers
    def foreign(vs):
        try:
            return any(v not in back for v in vs)
        except TypeError:
            return True
    s = call(lambda: [list(c) for c in compute_SCCs(K)])
    if s[0] == 'ok' and any(foreign(c) for c in s[1]):
        s = ('err', 'other:foreign-state-in-result')
    out['scc'] = ['ok', sorted(sorted(back[v] for v in c) for c in s[1])] if s[0] == 'ok' else list(s)
    xs = [dec(x, table) for x in X]
    rr = call(lambda: K.get_reachable_set_from(list(xs)))
    if rr[0] == 'ok' and foreign(rr[1]):
        rr = ('err', 'other:foreign-state-in-result')
    out['reach'] = ['ok', sorted(back[v] for v in rr[1])] if rr[0] == 'ok' else list(rr)
    if internals:
        # order in which the LTL closure set iterates (Formula.__hash__ is the hash of the printed form): evidence only
        try:
            from pyModelChecking.LTL import model_checking as M
            from pyModelChecking.language import LNot
            import pyModelChecking.LTL as LTL
            for logic, f in queries:
                if logic == 'LTL':
                    p = LNot(to_py(detuple(f)[1], LTL)).get_equivalent_restricted_formula()
                    out['closure_order'] = [str(x) for x in M._get_closure(p)]
                    break
        except Exception:  # noqa
            pass
    return out


def observe_job(job):
    return [observe(c['pres'], c['queries'], c['X'], job.get('internals', False), F=c.get('F')) for c in job['cases']]


if __name__ == '__main__':
    job = json.load(sys.stdin)
    res = {'hashseed': os.environ.get('PYTHONHASHSEED'), 'hash_of_p': hash('p'), 'observations': observe_job(job)}
    json.dump(res, sys.stdout)
