"""lattice.py - introspective tie for C08: the class-lattice tables of the Gallina model
(in_alphabet, isinst, required; coq/Model/Syntax.v) are compared on every run with tables
REGENERATED from the live classes of /repo's current working tree:
  in_alphabet(L, Op)      = the language module defines class Op
  isinst(L, Op, T)        = issubclass(L.Op, L.T)            (T = PathFormula / StateFormula)
  required(L, Op)         = the FormulaClass that L.Op.__init__ passes to wrap_subformulas
                            (recorded by intercepting wrap_subformulas during a probe construction)
A difference means the model's tables no longer describe the code (the behavioural comparison in
props_c08 then looks for a concrete failing construction)."""
from common import *

OPS = ['Bool', 'AtomicProposition', 'Not', 'Or', 'And', 'Imply', 'X', 'F', 'G', 'U', 'R', 'A', 'E']
ARITY = {'Bool': 0, 'AtomicProposition': 0, 'Not': 1, 'X': 1, 'F': 1, 'G': 1, 'A': 1, 'E': 1}


def live_tables():
    import pyModelChecking.language as BL
    import pyModelChecking.PL.language as PLL
    rows = {}
    for lname in ('PL', 'CTLS', 'CTL', 'LTL'):
        import importlib
        L = importlib.import_module('pyModelChecking.%s.language' % lname)   # the defining module (the CTL package re-exports CTLS.PathFormula)
        for op in OPS:
            cls = getattr(L, op, None)
            if cls is None:
                rows[(lname, op)] = (False, None, None, None)
                continue
            pf = getattr(L, 'PathFormula', None)
            sf = getattr(L, 'StateFormula', None)
            is_p = bool(pf is not None and issubclass(cls, pf))
            is_s = bool(sf is not None and issubclass(cls, sf))
            req = None
            if op not in ('Bool', 'AtomicProposition'):
                seen = []
                saved = []
                for owner in (BL.Formula, PLL.Formula):
                    if 'wrap_subformulas' in owner.__dict__:
                        saved.append((owner, owner.__dict__['wrap_subformulas']))

                        def rec(self, subformulas, FormulaClass, _seen=seen):
                            _seen.append(FormulaClass)
                            self._subformula = []
                            self.height = 0
                        setattr(owner, 'wrap_subformulas', rec)
                try:
                    n = ARITY.get(op, 2)
                    try:
                        cls(*['p'] * n)
                    except Exception:
                        pass
                finally:
                    for owner, fn in saved:
                        setattr(owner, 'wrap_subformulas', fn)
                if seen:
                    fc = seen[-1]
                    req = fc.__name__ if fc.__name__ in ('Formula', 'PathFormula', 'StateFormula') else fc.__name__
                    # the class must belong to the same language module (or a base language) - record module too
                    req = (req, fc.__module__.split('.')[1] if fc.__module__.startswith('pyModelChecking.') and len(fc.__module__.split('.')) > 2 else fc.__module__)
            rows[(lname, op)] = (True, is_p, is_s, req)
    return rows


def model_tables():
    out = model_batch([['lattice']])[0]
    rows = {}
    for r in out:
        rows[(str(r[0]), str(r[1]))] = (r[2] == '1', r[3] == '1', r[4] == '1', str(r[5]))
    return rows


def lattice_check(R):
    """returns the list of differences (also recorded as a no-failing-input violation by the caller)"""
    live = live_tables()
    model = model_tables()
    diffs = []
    for key in sorted(model):
        m_in, m_p, m_s, m_req = model[key]
        l_in, l_p, l_s, l_req = live[key]
        if m_in != l_in:
            diffs.append('%s.%s: in_alphabet model=%s live=%s' % (key + (m_in, l_in)))
            continue
        if not l_in:
            continue
        lname, op = key
        # PL has no PathFormula/StateFormula classes: the model answers false for both
        if (m_p, m_s) != (l_p, l_s):
            diffs.append('%s.%s: isinstance(Path, State) model=%s live=%s' % (lname, op, (m_p, m_s), (l_p, l_s)))
        if l_req is not None:
            req_name, req_mod = l_req
            if req_name != m_req:
                diffs.append('%s.%s: required operand class model=%s live=%s.%s' % (lname, op, m_req, req_mod, req_name))
            elif req_name != 'Formula' and req_mod != lname:
                diffs.append('%s.%s: required class %s comes from module %s' % (lname, op, req_name, req_mod))
    R.cov['lattice_rows_compared'] = len(model)
    R.cov['lattice_differences'] = diffs
    return diffs
