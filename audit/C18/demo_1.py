"""escape 1: a text that is a fine expression but not a lambda, given in the one-argument (lambda) notation.
The one-argument form OBDD(text) only accepts 'lambda v1,...,vn: e'; any other text is ill-formed input and must raise
SyntaxError (C18: 'non-Boolean syntax raises SyntaxError'; base library: SyntaxError 'expected a binary lambda function').
run: PYTHONPATH=<lib> python demo_1.py"""
from pyModelChecking.BDD import OBDD
bad = 0
for text in ['a & b1', 'a', '1', 'not a', '(a, b1)', 'f(a)', 'a.b']:
    try:
        o = OBDD(text)
        got = 'accepted: %s' % o
    except SyntaxError as e:
        got = 'SyntaxError'
    except Exception as e:
        got = type(e).__name__ + ': ' + str(e)
    ok = got == 'SyntaxError'
    bad += not ok
    print('OBDD(%r) -> %s %s' % (text, got, '' if ok else '   <-- expected SyntaxError'))
# the two-argument form of the same texts is unaffected, which is why the check (whose lambda texts are always built as
# 'lambda <args>: <body>' or are statements that ast.parse itself rejects) cannot see the difference
print('VIOLATED' if bad else 'ok')
