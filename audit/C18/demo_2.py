"""escape 2: memo of parsed expression texts, keyed by (text, SET of the ordering's variables) instead of the ordering itself
(frozenset(d) where frozenset(d.items()) was meant); weak values, so an entry lives only while its diagram is in use.
While OBDD(e, [a, b1]) is alive, OBDD(e, [b1, a]) gets the diagram built for the OTHER ordering, the lambda form does not.
run: PYTHONPATH=<lib> python demo_2.py"""
from pyModelChecking.BDD import OBDD
e = 'a & b1'
keep = OBDD(e, ['a', 'b1'])                 # some other user of the library holds this one
x = OBDD(e, ['b1', 'a'])                    # expression notation, argument order b1,a
y = OBDD('lambda b1,a: ' + e)               # lambda notation, same argument order
print('x =', x, '  root variable:', x.root.var, '  respects its ordering:', x.root.respect_ordering(x.ordering))
print('y =', y, '  root variable:', y.root.var, '  respects its ordering:', y.root.respect_ordering(y.ordering))
print('OBDD(e,[b1,a]) == OBDD("lambda b1,a: e"):', x == y)
print('OBDD(str(x)) == x:', OBDD(str(x)) == x)
print('VIOLATED' if not (x == y and OBDD(str(x)) == x) else 'ok')
