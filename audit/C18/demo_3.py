"""escape 3: comparison operators quietly become connectives (a != b as xor, a <= b as implication).
C18: the Boolean syntax is ~ & | / not and or over variables and 0/1; anything else raises SyntaxError.
run: PYTHONPATH=<lib> python demo_3.py"""
from pyModelChecking.BDD import OBDD
bad = 0
for text in ['a != b1', 'a <= b1', 'a & (b1 != cc)', 'a < b1', 'a == b1']:
    got = []
    for form in (lambda: OBDD(text, ['a', 'b1', 'cc']), lambda: OBDD('lambda a,b1,cc: ' + text)):
        try:
            got.append('accepted: %s' % form().root)
        except SyntaxError:
            got.append('SyntaxError')
        except Exception as e:
            got.append(type(e).__name__)
    ok = got == ['SyntaxError', 'SyntaxError']
    bad += not ok
    print('%-16r expression form -> %-40s lambda form -> %s%s' % (text, got[0], got[1], '' if ok else '   <-- expected SyntaxError'))
print('VIOLATED' if bad else 'ok')
