# C18: "for every OBDD o ... OBDD(str(o)) equals o" - 4 variables, depth 4
# run: PYTHONPATH=/root/work/aud_C18/lib python demo_1.py   (with escape_1.diff applied)
from pyModelChecking.BDD import OBDD

e = '(c & d) | ~((d & b) | (a | c))'
o = OBDD(e, ['a', 'b', 'c', 'd'])
s = str(o)
print(repr(s))
assert OBDD(str(o.root), o.ordering) == o          # the root alone still round-trips
try:
    back = OBDD(s)
except SyntaxError as ex:
    print('VIOLATION: OBDD(str(o)) raises SyntaxError: the printed lambda is wrapped at column 79 and the line '
          'break falls outside every bracket (before the top-level "|")')
else:
    assert back == o, 'VIOLATION: OBDD(str(o)) != o'
    print('ok: OBDD(str(o)) == o')
