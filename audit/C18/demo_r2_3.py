# C18: "... non-Boolean syntax raises SyntaxError" (Python's and/or/not and & | ~ are the only connectives)
# run: PYTHONPATH=/root/work/aud_C18/lib python demo_3.py   (with escape_3.diff applied)
import ast
from pyModelChecking.BDD import OBDD

for text in ('!a', 'a && b', 'a || !b', '!(a && b) || a'):
    try:
        ast.parse(text, mode='eval')
        raise AssertionError('Python itself reads %r' % text)
    except SyntaxError:
        pass                                   # not an expression of Python, let alone a Boolean one
    for form, args in (('expression', (text, ['a', 'b'])), ('lambda', ('lambda a,b: ' + text,))):
        try:
            o = OBDD(*args)
            print('VIOLATION: %s form OBDD%r accepted -> %s' % (form, args, o))
        except SyntaxError:
            print('ok: SyntaxError for', args)
