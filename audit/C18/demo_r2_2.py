# C18: "for every Boolean expression e over variables v1..vn, OBDD('lambda v1,...,vn: e') equals OBDD(e, [v1,...,vn])"
# run: PYTHONPATH=/root/work/aud_C18/lib python demo_2.py   (with escape_2.diff applied)
from pyModelChecking.BDD import OBDD

for names in (['x_1', 'y'], ['_p', 'q'], ['req_in', 'ack_out']):     # ordinary Python identifiers
    e = '%s & ~%s' % tuple(names)
    lam = 'lambda %s: %s' % (','.join(names), e)
    try:
        a = OBDD(lam)
        b = OBDD(e, names)
        assert a == b and OBDD(str(a)) == a and OBDD(str(a.root), a.ordering) == a
        print('ok', lam)
    except Exception as ex:
        print('VIOLATION: %r / OBDD(%r, %r) -> %s: %s' % (lam, e, names, type(ex).__name__, ex))
