# demo_4: 'E' is an ordinary atom name in LTL (LTL has no E operator: 'E' is not in LTL.symbols, and the unpatched
# LTL parser reads it as an atom); with the patch the shared temporal transformer rejects it with CTL*'s symbol table
# run: PYTHONPATH=/root/work/aud_C09/lib /venv/bin/python demo_4.py   (with escape_4.diff applied)
from pyModelChecking import LTL

def tree(o):
    n = type(o).__name__
    if n in ('Bool', 'AtomicProposition'):
        return (n, o._value if n == 'Bool' else o.name)
    return (n,) + tuple(tree(c) for c in o.subformulas())

print("'E' reserved in LTL?", 'E' in LTL.symbols)
E, p = LTL.AtomicProposition('E'), LTL.AtomicProposition('p')
for f in (LTL.G(LTL.Imply(p, LTL.F(E))), LTL.A(LTL.U(E, p)), LTL.Or(p, LTL.AtomicProposition('Ex'))):
    try:
        g = LTL.Parser()(str(f))
        print(str(f), '->', 'same tree' if tree(g) == tree(f) else 'OTHER TREE')
    except Exception as e:
        print(str(f), '-> VIOLATION: LTL.Parser raises', type(e).__name__)
