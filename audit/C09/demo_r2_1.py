# demo_1: an or/and with more than 255 operands is re-grouped by the parser: Parser()(str(f)) has another tree than f
# run: PYTHONPATH=/root/work/aud_C09/lib /venv/bin/python demo_1.py   (with escape_1.diff applied)
from pyModelChecking import PL, LTL, CTL, CTLS

def tree(o):
    n = type(o).__name__
    if n in ('Bool', 'AtomicProposition'):
        return (n, o._value if n == 'Bool' else o.name)
    return (n,) + tuple(tree(c) for c in o.subformulas())

for L in (PL, LTL, CTLS, CTL):
    for width in (150, 255, 256, 300):
        f = L.Or(*[L.AtomicProposition('p%d' % i) for i in range(width)])
        g = L.Parser()(str(f))
        print(L.__name__, 'width', width, 'same tree:', tree(g) == tree(f),
              ' arity of f:', len(f.subformulas()), ' arity of parsed:', len(g.subformulas()),
              ' first operand of parsed:', type(g.subformula(0)).__name__)
