# demo_3: tall formulas (height > recursionlimit/8 = 125) are printed by another code path that emits the operands
# of binary / n-ary connectives in reverse order -> parse(str(f)) is another tree, and print is not injective
# run: PYTHONPATH=/root/work/aud_C09/lib /venv/bin/python demo_3.py   (with escape_3.diff applied)
from pyModelChecking import PL, LTL

def tree(o):
    n = type(o).__name__
    if n in ('Bool', 'AtomicProposition'):
        return (n, o._value if n == 'Bool' else o.name)
    return (n,) + tuple(tree(c) for c in o.subformulas())

for L in (PL, LTL):
    p, q = L.AtomicProposition('p'), L.AtomicProposition('q')
    tall = q
    for _ in range(130):
        tall = L.Not(tall)
    small = L.Imply(p, L.Not(q))
    f, f_swapped = L.Imply(p, tall), L.Imply(tall, p)
    print(L.__name__, 'small formula round trip ok:', tree(L.Parser()(str(small))) == tree(small))
    g = L.Parser()(str(f))
    print(L.__name__, 'str(f) starts with', str(f)[:20], '... ends with', str(f)[-12:])
    print(L.__name__, 'tall: parse(str(f)) has the tree of f:', tree(g) == tree(f), '; of the swapped implication:', tree(g) == tree(f_swapped))
