# demo_2: formulas too deep for the recursive printer (height >= ~295, where the unchanged library raises RecursionError)
# are printed by a fallback that emits the operands of binary / n-ary connectives in reverse order
# run: PYTHONPATH=/root/work/aud_C09/lib /venv/bin/python demo_2.py   (with escape_2.diff applied)
import sys
from pyModelChecking import PL, LTL, CTLS

def tree(o):      # iterative-enough: raise the limit only while reading trees
    n = type(o).__name__
    if n in ('Bool', 'AtomicProposition'):
        return (n, o._value if n == 'Bool' else o.name)
    return (n,) + tuple(tree(c) for c in o.subformulas())

for L in (PL, LTL, CTLS):
    p, q = L.AtomicProposition('p'), L.AtomicProposition('q')
    for h in (270, 400):
        f = L.Imply(p, q)
        for _ in range(h):
            f = L.Not(f)
        try:
            s = str(f)                       # default recursion limit
        except RecursionError:
            print(L.__name__, h, 'str(f) raises RecursionError (unchanged library)')
            continue
        g = L.Parser()(s)
        sys.setrecursionlimit(10000)
        print(L.__name__, 'height', h, 'text ends with', s[-14:], ' parse(str(f)) has the tree of f:', tree(g) == tree(f))
        sys.setrecursionlimit(1000)
