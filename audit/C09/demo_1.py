# demo_1: print -> parse round trip is lost for identifier atoms that merely CONTAIN 'True' / 'False'
# run: PYTHONPATH=/root/work/aud_C09/lib /venv/bin/python demo_1.py   (with escape_1.diff applied)
from pyModelChecking import PL, LTL, CTL, CTLS

def tree(o):
    n = type(o).__name__
    if n == 'Bool':
        return ('bool', o._value)
    if n == 'AtomicProposition':
        return ('ap', o.name)
    return (n,) + tuple(tree(c) for c in o.subformulas())

bad = 0
for L in (PL, LTL, CTL, CTLS):
    f = L.Imply(L.AtomicProposition('isTrue'), L.Not(L.AtomicProposition('False_alarm')))
    g = L.Parser()(str(f))
    print(L.__name__, str(f), '->', tree(g), 'same tree:', tree(g) == tree(f))
    bad += tree(g) != tree(f)
# injectivity consequence: two different trees now parse to one formula
a, b = PL.AtomicProposition('isTrue'), PL.AtomicProposition('istrue')
print('parse(str(a)) == parse(str(b)):', tree(PL.Parser()(str(a))) == tree(PL.Parser()(str(b))))
print('VIOLATION' if bad else 'ok')
