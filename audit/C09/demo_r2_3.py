# demo_3: printed forms are cached per object (reset in wrap_subformulas for the node itself); after the documented public
# mutator Formula.wrap_subformulas ("Replaces subformulas of the current object") is used on a subformula, every formula
# ABOVE it keeps printing the old text: Parser()(str(g)) has another tree than g, and two different trees print identically
# run: PYTHONPATH=/root/work/aud_C09/lib /venv/bin/python demo_3.py   (with escape_3.diff applied)
from pyModelChecking import PL, LTL, CTLS

def tree(o):
    n = type(o).__name__
    if n in ('Bool', 'AtomicProposition'):
        return (n, o._value if n == 'Bool' else o.name)
    return (n,) + tuple(tree(c) for c in o.subformulas())

for L in (PL, LTL, CTLS):
    AP = L.AtomicProposition
    f = L.Or(AP('p'), AP('q'))
    g = L.Not(f) if L is PL else L.G(L.Not(f))
    before = str(g)                                   # e.g. the caller hashed / compared / logged g
    f.wrap_subformulas([AP('r'), AP('s'), AP('t')], L.Formula)   # f is now (r or s or t); unchanged library: g prints it
    h = L.Parser()(str(g))
    fresh = L.Not(L.Or(AP('p'), AP('q'))) if L is PL else L.G(L.Not(L.Or(AP('p'), AP('q'))))
    print(L.__name__, 'tree of g :', tree(g))
    print(L.__name__, 'str(g)    :', str(g), ' (before the edit:', before + ')')
    print(L.__name__, 'parse(str(g)) has the tree of g:', tree(h) == tree(g),
          '; same text as a formula with another tree:', str(g) == str(fresh) and tree(g) != tree(fresh))
