# demo_2: a CTL conjunction with 4 operands no longer survives print -> parse (CTL* notation, CTL parser)
# run: PYTHONPATH=/root/work/aud_C09/lib /venv/bin/python demo_2.py   (with escape_2.diff applied)
from pyModelChecking import CTL, CTLS

def tree(o):
    n = type(o).__name__
    if n in ('Bool', 'AtomicProposition'):
        return (n, getattr(o, 'name', None) if n != 'Bool' else o._value)
    return (n,) + tuple(tree(c) for c in o.subformulas())

p, q, r, s = (CTL.AtomicProposition(x) for x in 'pqrs')
for f in (CTL.And(p, q, r), CTL.Or(p, q, r, s), CTL.And(p, q, r, s), CTL.A(CTL.G(CTL.And(p, CTL.E(CTL.X(q)), r, s)))):
    text = str(f.cast_to(CTLS))                 # CTL formula printed in CTL* notation
    try:
        g = CTL.Parser()(text)
        print(text, '->', 'same tree' if tree(g) == tree(f) else 'OTHER TREE %s' % (tree(g),))
    except Exception as e:
        print(text, '-> VIOLATION: CTL.Parser raises', type(e).__name__)
