# demo 2: two atoms with EQUAL names held in two different str objects (names computed at run time: 'req%d' % i,
# read from a file, produced by the parser ...); run with PYTHONPATH=/root/work/aud_C11/lib (mutated) or /repo (original)
from pyModelChecking.CTL import AtomicProposition, Not
from pyModelChecking.CTL import Parser

i = 1
a = AtomicProposition('req%d' % i)       # name built at run time
b = AtomicProposition('req1')            # same name, literal
c = Parser()('req1')                     # same name, from the text channel
print('names equal          :', a.name == b.name == c.name, ' same tree, same class:', type(a) is type(b) is type(c))
print('a == b, b == a       :', a == b, b == a, '(must be True)')
print('b == parsed          :', b == c, '(must be True)')
print('hash equal           :', hash(a) == hash(b), ' one set key:', len({a, b}) == 1, ' dict hit:', {a: 1}.get(b))
print('Not(a) == Not(b)     :', Not(a) == Not(b), '(operators still compare by printed form)')
ok = a == b and b == a and b == c and len({a, b}) == 1
print('PROPERTY HOLDS' if ok else 'PROPERTY VIOLATED')
