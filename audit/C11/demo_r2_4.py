# demo 4: identifier atoms that differ as strings but have one NFKC form (composed / decomposed accent, ligature, micro sign)
# run with PYTHONPATH=/root/work/aud_C11/lib (mutated) or /repo (original)
from pyModelChecking.CTLS import AtomicProposition as AP, X

ok = True
for a, b in (('\u00e9', 'e\u0301'), ('\ufb01n', 'fin'), ('\u00b5', '\u03bc'), ('x\u00aa', 'xa')):
    assert a != b and a.isidentifier() and b.isidentifier()
    f, g = X(AP(a)), X(AP(b))
    same_tree = f.subformula(0).name == g.subformula(0).name           # False: different atoms
    r = (f == g, g == f, len({f, g}), AP(a) == AP(b))
    print('%-22r %-22r same tree: %s   f == g, g == f, len({f, g}), atoms ==: %s' % (a, b, same_tree, r))
    ok &= r == (False, False, 2, False)
print('PROPERTY HOLDS' if ok else 'PROPERTY VIOLATED (different trees compare equal / are one key)')
