# demo 3: a hashed formula edited through the live operand list with list methods OTHER than [k]=, append, pop
# run with PYTHONPATH=/root/work/aud_C11/lib (mutated) or /repo (original)
from pyModelChecking.LTL import AtomicProposition as AP, Imply, Or

def tree(o):
    return o.name if type(o).__name__ == 'AtomicProposition' else (type(o).__name__,) + tuple(tree(c) for c in o.subformulas())

qp, pq, bac = Imply(AP('q'), AP('p')), Imply(AP('p'), AP('q')), Or(AP('b'), AP('a'), AP('c'))
f, g = Imply(AP('p'), AP('q')), Or(AP('b'), AP('a'))
table = {f: 'f', g: 'g'}                  # f and g are used as keys
f.subformulas().reverse()                 # swap the operands in place
ops = g.subformulas()
ops += [AP('c')]                          # in-place extension of the live list
print('tree of f:', tree(f), ' printed:', str(f), '| tree of g:', tree(g), ' printed:', str(g))
r1 = (f == qp, qp == f, hash(f) == hash(qp), len({f, qp}) == 1)
r2 = (f == pq, pq == f)
r3 = (g == bac, hash(g) == hash(bac), g == Or(AP('b'), AP('a')))
print('f vs (q --> p) built earlier: ==, reversed ==, hash equal, one key :', r1, '(same tree: must all be True)')
print('f vs (p --> q) built earlier: ==, reversed ==                      :', r2, '(different tree: must be False)')
print('g vs (b or a or c): ==, hash equal;  g == fresh (b or a)          :', r3, '(must be True, True, False)')
ok = r1 == (True,) * 4 and r2 == (False, False) and r3 == (True, True, False)
print('PROPERTY HOLDS' if ok else 'PROPERTY VIOLATED')
