# demo 1: an atom object shared by two formulas (ordinary user code: p = AtomicProposition('p') used twice);
# run with PYTHONPATH=/root/work/aud_C11/lib (mutated) or PYTHONPATH=/repo (original)
from pyModelChecking.CTLS import AtomicProposition, Not, Or

def tree(o):
    return o.name if type(o).__name__ == 'AtomicProposition' else (type(o).__name__,) + tuple(tree(c) for c in o.subformulas())

p = AtomicProposition('p')
f = Not(p)
g = Or(p, AtomicProposition('q'))        # the same atom object is an operand of f and of g
hash(f), hash(g)                          # both formulas are used as keys somewhere
p.name = 'r'                              # public in-place edit (the check's own "rename" route)
fresh_now, fresh_old = Not(AtomicProposition('r')), Not(AtomicProposition('p'))
print('tree of f            :', tree(f), ' printed:', str(f))
print('f == fresh not r     :', f == fresh_now, '(same tree: must be True)')
print('f == fresh not p     :', f == fresh_old, '(different tree: must be False)')
print('hash equal / one key :', hash(f) == hash(fresh_now), len({f, fresh_now}) == 1)
print('f.clone() == f       :', f.clone() == f, '(clone must be equal to the original)')
h = g.subformulas()[0]; print('g == fresh (r or q)  :', g == Or(AtomicProposition('r'), AtomicProposition('q')))
ok = (f == fresh_now) and not (f == fresh_old) and hash(f) == hash(fresh_now) and f.clone() == f
print('PROPERTY HOLDS' if ok else 'PROPERTY VIOLATED')
