# -*- coding: utf-8 -*-
# demo 3: AtomicProposition.__str__ made "ascii safe" (encode(..., 'replace')): every non-ASCII letter prints as '?',
# and == / hash are defined on the printed form.   run: PYTHONPATH=<lib copy> python demo_3.py
from pyModelChecking import CTL

a, b = u'tür', u'tör'               # two different identifiers, not reserved words
assert a.isidentifier() and b.isidentifier() and a != b
f = CTL.AG(CTL.Imply(a, CTL.AF(b)))
g = CTL.AG(CTL.Imply(b, CTL.AF(a)))           # operands swapped: a different tree
print('f == g      :', f == g)                 # True   (must be False: the trees differ)
print('len({f, g}) :', len({f, g}))            # 1      (must be 2)
memo = {f: 'verdict of f'}
print('memo[g]     :', memo.get(g))            # 'verdict of f': a memo table keyed on formulas merges them
print('atoms equal :', CTL.AtomicProposition(a) == CTL.AtomicProposition(b))   # True (must be False)
assert not (f == g)
