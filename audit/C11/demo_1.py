# demo 1: clone() memo kept in a mutable default argument -> a second clone() of the same object is the FIRST clone
# (stale after an edit, and the very object handed out before).  run: PYTHONPATH=<lib copy> python demo_1.py
from pyModelChecking import CTL

f = CTL.And(CTL.Not('p'), 'q')
c1 = f.clone()
assert c1 == f and c1 is not f                      # first clone: fine
f.subformula(1).name = 'r'                          # edit the original through the public attribute `name`
c2 = f.clone()
print('f       =', f)                               # (not p and r)
print('clone() =', c2)                              # (not p and q)   <- not equal to f
print('clone() == f            :', c2 == f)         # False: clone() must return an EQUAL formula
print('hash equal              :', hash(c2) == hash(f))
print('second clone is first   :', c2 is c1)        # True: the two "independent copies" are one mutable object
g = CTL.Or('a', 'b')
d1 = g.clone(); d1.subformula(0).name = 'zz'        # the user edits HIS copy ...
print('fresh clone of untouched g:', g.clone(), ' g =', g, ' equal:', g.clone() == g)   # ... and every later clone of g is spoiled
assert not (c2 == f) and not (g.clone() == g)
