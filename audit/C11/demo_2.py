# demo 2: printed form cached per node, invalidated by a global edit counter that only the `name` setter and
# wrap_subformulas() bump; an edit through the live list returned by the public subformulas() is not counted.
# run: PYTHONPATH=<lib copy> python demo_2.py
from pyModelChecking import LTL

f = LTL.Or('p', LTL.X('q'))
seen = {f}                                    # hashing caches the printed form "(p or X(q))"
f.subformulas()[0] = LTL.AtomicProposition('r')   # public accessor, returns the live operand list
g = LTL.Or('r', LTL.X('q'))                   # a fresh formula with f's CURRENT tree
h = LTL.Or('p', LTL.X('q'))                   # a fresh formula with f's FORMER tree
print('f =', f, '  g =', g, '  h =', h)       # (r or X(q))  (r or X(q))  (p or X(q))
print('same tree, f == g :', f == g, '  g == f :', g == f)      # False False  (must be True)
print('other tree, f == h:', f == h)                              # True         (must be False)
print('hash(f) == hash(g):', hash(f) == hash(g), '  len({f, g}) =', len({f, g}))   # False, 2
print('clone equal       :', f.clone() == f)                      # False: clone() is not equal to its original
assert f == g and not (f == h) and hash(f) == hash(g) and f.clone() == f
