# escape 1: printed form of and/or/not/--> nodes cached in the node; the CTL memo table is keyed by printed form.
# A formula object edited by its owner between two calls (the operand list returned by subformulas() is live;
# C11 treats such edits as legal) keeps its old printed form and is answered from another subformula's memo entry.
import pyModelChecking.CTL as CTL
from pyModelChecking import Kripke
K = Kripke(R=[(0, 0), (1, 1), (2, 2)], L={0: ['p'], 1: ['q'], 2: ['r']})
f = CTL.Or('p', 'q')
print('p or q          ->', sorted(CTL.modelcheck(K, f)))            # [0, 1]
f.subformulas()[1] = CTL.AtomicProposition('r')                       # the owner turns f into  p or r
g = CTL.Or(CTL.And('p', 'q'), CTL.Or('p', 'q'), f)                    # (p and q) or (p or q) or (p or r)
got = sorted(CTL.modelcheck(K, g))
# first principles: state i satisfies g iff one of the disjuncts holds there
want = [s for s in K.states() if ('p' in K.labels(s) and 'q' in K.labels(s)) or 'p' in K.labels(s) or 'q' in K.labels(s) or 'r' in K.labels(s)]
print('operands of f   :', [x.name for x in f.subformulas()])
print('got', got, 'exact', sorted(want))
assert got == sorted(want), 'VIOLATION: state 2 (labelled r) satisfies p or r but is missing'
