# escape_3: Kripke keeps its own list of transitions (built in __init__) for transitions_iter();
# DiGraph.add_edge (inherited, public) does not maintain it -> EX/AX ignore transitions added later,
# while EU/EG (which use next()/get_subgraph) see them
# run: PYTHONPATH=/root/work/aud_C01/lib /venv/bin/python demo_3.py
from pyModelChecking import Kripke
from pyModelChecking.CTL import modelcheck, EX, AX, EF, Not

K = Kripke(S=[0, 1], R=[(0, 0), (1, 1)], L={0: {'p'}, 1: set()})
K.add_edge(1, 0)                      # still total; 1 now has the successors {0, 1}
succ = {s: set(K.next(s)) for s in K.states()}
assert succ == {0: {0}, 1: {0, 1}}
p = {s for s in K.states() if 'p' in K.labels(s)}                      # {0}
want_EX = {s for s in succ if succ[s] & p}                             # {0, 1}
want_AXnp = {s for s in succ if not (succ[s] & p)}                     # set(): 1 can move to 0
got_EX, got_AX = modelcheck(K, EX('p')), modelcheck(K, AX(Not('p')))
print('E X p     :', sorted(got_EX), ' expected', sorted(want_EX))
print('A X not p :', sorted(got_AX), ' expected', sorted(want_AXnp))
print('E F p     :', sorted(modelcheck(K, EF('p'))), ' (uses next(): sees the new transition)')
assert got_EX == want_EX and got_AX == want_AXnp, 'VIOLATION of C01'
