# escape 2: Formula.__hash__ becomes hash((class name, printed form)); __eq__ is unchanged ('p' == AtomicProposition('p') still holds,
# the library tests stay green).  Until now an atom hashed like its name, so a structure labelled with AtomicProposition OBJECTS
# (Kripke stores set(L[s])) was checked correctly: `formula.name in kripke.labels(v)` found the object.  Now the set lookup misses.
import pyModelChecking.CTL as CTL
from pyModelChecking import Kripke
p, q = CTL.AtomicProposition('p'), CTL.AtomicProposition('q')
K = Kripke(R=[(0, 1), (1, 1), (2, 0)], L={0: [p], 1: [q], 2: []})       # labels are the atoms themselves
got = sorted(CTL.modelcheck(K, CTL.E(CTL.U(p, q))))
# first principles: E(p U q) = least set containing the q-states and the p-states with a successor in the set
sat = {s for s in K.states() if any(str(a) == 'q' for a in K.labels(s))}
while True:
    new = {s for s in K.states() if any(str(a) == 'p' for a in K.labels(s)) and K.next(s) & sat} - sat
    if not new:
        break
    sat |= new
print('got', got, 'exact', sorted(sat))
assert got == sorted(sat), 'VIOLATION'
