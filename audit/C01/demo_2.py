# escape_2: compute_SCCs visits nodes in sorted() order "for reproducible output" -> TypeError when
# the states of a (perfectly legal) Kripke structure are not mutually orderable
# run: PYTHONPATH=/root/work/aud_C01/lib /venv/bin/python demo_2.py
from pyModelChecking import Kripke
from pyModelChecking.CTL import modelcheck

# states are arbitrary hashable objects (models.rst): a product state space with an optional component
idle, busy, err = ('cpu', None), ('cpu', 3), 'error'
K = Kripke(S=[idle, busy, err], R=[(idle, busy), (busy, idle), (busy, err), (err, err)],
           L={idle: {'p'}, busy: {'p'}, err: set()})
# first principles: idle <-> busy is a cycle inside the p-states, so E G p holds exactly at idle and busy
want = {idle, busy}
for text in ('E G p', 'A F not p', 'A (p U not p)', 'E (p R p)'):
    try:
        got = modelcheck(K, text)
    except Exception as e:
        got = '%s: %s' % (type(e).__name__, e)
    print('%-14s ->' % text, got)
got = modelcheck(K, 'E G p')
assert got == want, 'VIOLATION of C01'
