# escape_1: labelling memo kept on the Kripke object -> stale answers after the structure is edited
# run: PYTHONPATH=/root/work/aud_C01/lib /venv/bin/python demo_1.py
from pyModelChecking import Kripke
from pyModelChecking.CTL import modelcheck, EX, AG

K = Kripke(S=[0, 1], R=[(0, 1), (1, 1)], L={0: {'p'}, 1: set()})
f = EX('p')                       # states with a successor labelled p
print('before edit :', sorted(modelcheck(K, f)), ' expected []')
assert modelcheck(K, f) == set()

K.replace_labelling_function({0: set(), 1: {'p'}})     # documented API: now p holds at 1 only
# first principles: 0 -> 1 and 1 -> 1, p at 1  =>  EX p holds at 0 and 1
want = {s for s in K.states() if any('p' in K.labels(d) for d in K.next(s))}
got = modelcheck(K, EX('p'))
print('after relabel:', sorted(got), ' expected', sorted(want))

K2 = Kripke(S=[0, 1], R=[(0, 0), (1, 1)], L={0: {'p'}, 1: set()})
modelcheck(K2, EX('p'))           # {0}
K2.add_edge(1, 0)                 # new transition 1 -> 0: EX p now holds at 1 too
got2 = modelcheck(K2, EX('p'))
print('after add_edge:', sorted(got2), ' expected [0, 1]')
assert got == want and got2 == {0, 1}, 'VIOLATION of C01: stale cached labelling'
