# escape 3: wrap_subformulas skips "empty" operands with a truthiness test: the documented raw operand False (the classes
# "wrap strings and Boolean values") is dropped, so And('p', False) is built - and model checked - as And('p').
# The library itself only ever passes the raw constant True (EU(True, .)), and the check always wraps constants in Bool().
import pyModelChecking.CTL as CTL
from pyModelChecking import Kripke
K = Kripke(R=[(0, 1), (1, 0), (2, 2)], L={0: ['p'], 1: [], 2: ['p']})
f = CTL.E(CTL.G(CTL.And('p', False)))          # E G (p and false): no state satisfies it
got = sorted(CTL.modelcheck(K, f))
# first principles: E G x = greatest set of x-states with a successor in the set; x = p and false holds nowhere
x = {s for s in K.states() if 'p' in K.labels(s) and False}
sat = set(x)
while True:
    keep = {s for s in sat if K.next(s) & sat}
    if keep == sat:
        break
    sat = keep
print('formula built:', f, ' got', got, 'exact', sorted(sat))
assert got == sorted(sat), 'VIOLATION'
