# demo 4: the labelling is replaced through the public replace_labelling_function by a dict that only lists the
# labelled states (documented use: missing states get the empty label set).  With the slip the missing entries are
# never created and every later query dies with KeyError inside modelcheck.
# run: PYTHONPATH=/root/work/aud_C19/lib /venv/bin/python demo_4.py
from pyModelChecking import Kripke, CTL, LTL, CTLS
K = Kripke(R=[('idle', 'busy'), ('busy', 'idle'), ('busy', 'busy')], L={'idle': {'p'}, 'busy': {'q'}})
print('before:', CTL.modelcheck(K, 'E X q'))
K.replace_labelling_function({'busy': {'q', 'r'}})          # 'idle' carries no label any more
assert set(K.states()) == {'idle', 'busy'} and all(K.next(s) for s in K.states())     # still a total structure
for M, text, F in ((CTL, 'E X q', None), (CTL, 'true', None), (CTL, 'A G r', [{'busy'}]), (LTL, 'A F r', None), (CTLS, 'A F G r', None)):
    try:
        r = M.modelcheck(K, text, F=F)
        print(M.__name__.split('.')[-1], repr(text), 'F=%s' % F, '->', type(r).__name__, sorted(r))
    except Exception as e:
        print(M.__name__.split('.')[-1], repr(text), 'F=%s' % F, '-> RAISED %s: %r' % (type(e).__name__, e))
# clean library: five sets of states; mutated: KeyError 'idle' (all but the constant 'true')
