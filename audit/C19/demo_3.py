"""C19 escape 3: a WIDE disjunction / conjunction (n-ary Or / And with many operands, e.g. generated from a state list).
run: PYTHONPATH=/root/work/aud_C19/lib /venv/bin/python demo_3.py   (apply escape_3.diff to the lib first;
the unmodified library answers every query)"""
from pyModelChecking import Kripke
import pyModelChecking.CTL as CTL, pyModelChecking.CTLS as CTLS

n = 1400
K = Kripke(R=[(i, (i + 1) % n) for i in range(n)], L={i: {'at%d' % i} for i in range(n)})    # a ring, state i labelled at<i>
even = CTL.Or(*['at%d' % i for i in range(0, n, 2)])          # "the token is at an even position": 700 operands
text = ' or '.join('at%d' % i for i in range(0, n, 2))
for name, call in (('CTL  obj  E X even        ', lambda: CTL.modelcheck(K, CTL.E(CTL.X(even)))),
                   ('CTL  text A G (even or ..)', lambda: CTL.modelcheck(K, 'A G E X (%s)' % text)),
                   ('CTL  obj  And of 700      ', lambda: CTL.modelcheck(K, CTL.And(*[CTL.Not('at%d' % i) for i in range(0, n, 2)]))),
                   ('CTLS obj  A F even        ', lambda: CTLS.modelcheck(K, CTLS.A(CTLS.F(CTLS.Or(*['at%d' % i for i in range(0, n, 2)])))))):
    try:
        r = call()
        print(name, '->', type(r).__name__, len(r), 'states')
    except RecursionError as e:
        print(name, '-> RecursionError   <-- internal error, C19 violated')
