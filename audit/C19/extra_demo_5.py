"""C19 extra escape 5: states that are plain objects (default identity __eq__/__hash__) - the result holds COPIES, not states of K.
run: PYTHONPATH=/root/work/aud_C19/lib /venv/bin/python extra_demo_5.py   (apply extra_5.diff to the lib first;
on the unmodified library every answer is a subset of K.states())"""
from pyModelChecking import Kripke
import pyModelChecking.CTL as CTL, pyModelChecking.LTL as LTL, pyModelChecking.CTLS as CTLS


class Place(object):                      # e.g. a node object of the caller's design; compared by identity
    def __init__(self, name):
        self.name = name

    def __repr__(self):
        return 'Place(%s)@%x' % (self.name, id(self) & 0xffff)


a, b = Place('a'), Place('b')
K = Kripke(R=[(a, b), (b, a), (b, b)], L={a: {'p'}, b: {'q'}})
for name, call in (('CTL  E X q           ', lambda: CTL.modelcheck(K, 'E X q')),
                   ('CTLS A G F q         ', lambda: CTLS.modelcheck(K, 'A G F q')),
                   ('CTL  E X q  F=[{b}]  ', lambda: CTL.modelcheck(K, 'E X q', F=[{b}])),
                   ('LTL  A G F q F=[]    ', lambda: LTL.modelcheck(K, 'A G F q', F=[]))):
    r = call()
    ok = isinstance(r, set) and r <= set(K.states())
    print(name, '->', sorted(r, key=repr), 'only states of K' if ok else '  <-- NOT states of K (a in r: %s), C19 violated' % (a in r))
