"""C19 escape 4 (result cache keyed by id(kripke)): a structure that is garbage collected and another one allocated at the same
address -> the answer holds states of the DEAD structure.
run: PYTHONPATH=/root/work/aud_C19/lib /venv/bin/python demo_4.py (apply escape_4.diff to the lib first; address reuse is up to the allocator, a handful of rounds suffice in practice)"""
from pyModelChecking import Kripke
import pyModelChecking.CTL as CTL


def design(prefix):
    s = [prefix + str(i) for i in range(3)]
    return Kripke(R=[(s[0], s[1]), (s[1], s[2]), (s[2], s[0])], L={s[0]: {'p'}})


seen = {}
for round_ in range(300):
    K = design('v%d_' % round_)                   # a new version of the design, the old one is dropped
    r = CTL.modelcheck(K, 'E X p')
    ok = r <= set(K.states())
    print('round', round_, 'id %x' % id(K), sorted(r), 'ok' if ok else '<-- NOT states of K (%s), C19 violated' % sorted(K.states()))
    if not ok:
        break
