"""C19 escape 2: the EMPTY Kripke structure (no states - vacuously total) -> internal TypeError instead of set().
run: PYTHONPATH=/root/work/aud_C19/lib /venv/bin/python demo_2.py   (apply escape_2.diff to the lib first;
on the unmodified library every line prints 'set []')"""
from pyModelChecking import Kripke
import pyModelChecking.CTL as CTL, pyModelChecking.LTL as LTL, pyModelChecking.CTLS as CTLS

K = Kripke()                                  # S = {}, R = {}: every state (there is none) has a successor
for name, call in (('CTL  A G p          ', lambda: CTL.modelcheck(K, 'A G p')),
                   ('CTL  A G p   F=[{1}]', lambda: CTL.modelcheck(K, 'A G p', F=[{1}])),
                   ('LTL  A F G p F=[]   ', lambda: LTL.modelcheck(K, 'A F G p', F=[])),
                   ('CTLS A F G p        ', lambda: CTLS.modelcheck(K, 'A F G p')),
                   ('CTLS E X A F p      ', lambda: CTLS.modelcheck(K, 'E X A F p'))):
    try:
        r = call()
        print(name, '->', type(r).__name__, sorted(r))
    except Exception as e:
        print(name, '-> %s: %s   <-- internal error, C19 violated' % (type(e).__name__, str(e)[:70]))
