"""C19 escape 1: fairness query on a long (but perfectly ordinary) structure -> RecursionError.
run: PYTHONPATH=/root/work/aud_C19/lib /venv/bin/python demo_1.py   (apply escape_1.diff to the lib first)"""
from pyModelChecking import Kripke
import pyModelChecking.CTL as CTL, pyModelChecking.LTL as LTL, pyModelChecking.CTLS as CTLS

n = 1500                                    # corridor 0 -> 1 -> ... -> n-1 ending in a 2-state loop with self loops; last state labelled p
R = [(i, i + 1) for i in range(n - 1)] + [(n - 1, n - 1), (n - 1, n - 2), (n - 2, n - 2)]
K = Kripke(R=R, L={n - 1: {'p'}})
F = [{n - 1}]                               # one fairness constraint: visit the last state infinitely often
print('no F :', len(CTL.modelcheck(K, 'E F p')), 'states (fine)')
for name, M, f in (('CTL', CTL, 'E F p'), ('LTL', LTL, 'A F p'), ('CTLS', CTLS, 'A F G p')):
    try:
        r = M.modelcheck(K, f, F=F)
        print(name, f, 'with F ->', type(r).__name__, len(r), '(property holds)')
    except RecursionError as e:
        print(name, f, 'with F -> RecursionError: internal error, C19 violated')
