# demo 2: an atom whose name contains a brace + a quantified subformula that occurs twice -> KeyError / IndexError /
# ValueError out of CTLS.modelcheck (the fallback fresh name is produced by str.format on a template that embeds the
# printed formula).  run: PYTHONPATH=/root/work/aud_C19/lib /venv/bin/python demo_2.py
from pyModelChecking import Kripke, CTLS
from pyModelChecking.CTLS import A, E, X, G, F, And, AtomicProposition as AP
K = Kripke(R=[(0, 1), (1, 0), (1, 1)], L={0: {'x in {1,2}'}, 1: {'{busy}', '{}'}})
for name in ('busy', '{busy}', '{}', 'x in {1,2}'):
    exf = lambda: E(X(AP(name)))
    f = And(exf(), A(G(F(exf()))))          # E X a  and  A G F E X a : 'E X a' is eliminated twice
    try:
        r = CTLS.modelcheck(K, f)
        print('%-12r -> %s %r' % (name, type(r).__name__, r))
    except Exception as e:
        print('%-12r -> RAISED %s: %s' % (name, type(e).__name__, e))
# the same through the text channel (quoted names)
try:
    print(CTLS.modelcheck(K, 'E X "{busy}" and A G F E X "{busy}"'))
except Exception as e:
    print('text -> RAISED %s: %s' % (type(e).__name__, e))
# clean library: four sets ({} / {0,1} ...) ; mutated: KeyError 'busy', IndexError, KeyError '1,2'
