# demo 3: a Kripke SUBCLASS with its own constructor signature (a parametric model) is a total Kripke structure, but
# every query that clones (CTL*/always, CTL and LTL with F=...) raises TypeError from the constructor call in clone().
# run: PYTHONPATH=/root/work/aud_C19/lib /venv/bin/python demo_3.py
from pyModelChecking import Kripke, CTL, LTL, CTLS


class Ring(Kripke):
    """n stations on a ring, the token may stay or move on; station 0 is labelled 'home'"""
    def __init__(self, n):
        R = [(i, i) for i in range(n)] + [(i, (i + 1) % n) for i in range(n)]
        super(Ring, self).__init__(R=R, L={0: {'home'}})


K = Ring(3)
assert isinstance(K, Kripke) and all(K.next(s) for s in K.states())      # a total Kripke structure
print('CTL  no F :', CTL.modelcheck(K, 'E F home'))                      # no clone: fine in both libraries
for what, q in (('CTL  F   ', lambda: CTL.modelcheck(K, 'A F home', F=[{0}])),
                ('LTL  F   ', lambda: LTL.modelcheck(K, 'A G F home', F=[{0}])),
                ('CTL* no F', lambda: CTLS.modelcheck(K, 'A F G home')),
                ('CTL* F   ', lambda: CTLS.modelcheck(K, 'E G F home', F=[{1}, {2}]))):
    try:
        r = q()
        print(what, ':', type(r).__name__, r)
    except Exception as e:
        print(what, ': RAISED', type(e).__name__, str(e)[:100])
# clean library: four sets of states of K; mutated: TypeError (Ring.__init__() takes 2 positional arguments but 5 were given)
