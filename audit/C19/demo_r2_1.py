# demo 1: a quoted atom name with a backslash (legal: grammar a_prop -> ESCAPED_STRING) makes modelcheck raise an
# internal error (lark VisitError wrapping SyntaxError) instead of returning a set of states.
# run: PYTHONPATH=/root/work/aud_C19/lib /venv/bin/python demo_1.py
from pyModelChecking import Kripke, CTL, LTL, CTLS
# labels written LaTeX-style: \xi and \phi
K = Kripke(R=[(0, 1), (1, 1)], L={0: {r'\xi'}, 1: {r'\phi'}})
for M, text in ((CTL, r'E X "\phi"'), (CTL, r'E F "\xi"'), (LTL, r'A F "\xi"'), (CTLS, r'A F G not "\xi"')):
    try:
        r = M.modelcheck(K, text)
        print(M.__name__.split('.')[-1], text, '->', type(r).__name__, r)
    except Exception as e:
        print(M.__name__.split('.')[-1], text, '-> RAISED', type(e).__name__, str(e).splitlines()[0][:90])
# clean library: {0,1}-style sets for all four; mutated: the \xi queries raise (truncated \xXX escape)
print(CTL.modelcheck(K, CTL.E(CTL.F(CTL.AtomicProposition(r'\xi')))), '<- same query as an object: a set')
