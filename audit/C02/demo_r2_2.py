# escape 2: _build_atoms reads the stored labelling dict instead of calling K.labels(state):
# a Kripke SUBCLASS whose labels are derived (overrides the public accessor labels()) is model checked on the wrong labels
from pyModelChecking import Kripke, LTL

class Counter(Kripke):
    """a modulo-4 counter; 'even' is derived from the state instead of being stored"""
    def __init__(self):
        super(Counter, self).__init__(R=[(i, (i + 1) % 4) for i in range(4)])
    def labels(self, state=None):
        if state is None:
            return {'even'}
        return {'even'} if state % 2 == 0 else set()

K = Counter()
print('labels through the public accessor:', {s: K.labels(s) for s in K.states()})
r = LTL.modelcheck(K, 'A X even')
# the only path from an odd state goes to an even state next: exactly the odd states satisfy A X even
plain = Kripke(R=list(K.transitions()), L={s: K.labels(s) for s in K.states()})
print('subclass instance :', r)
print('plain Kripke copy :', LTL.modelcheck(plain, 'A X even'))
assert r == {1, 3}, 'PROPERTY VIOLATED: every path from 1 (and 3) satisfies X even'
