# demo 2: the tableau looks atoms up in a table INDEXED BY THE STATE -> only structures whose states are 0..n-1 work
# run: PYTHONPATH=<lib> python demo_2.py
from pyModelChecking import Kripke
import pyModelChecking.LTL as LTL

def ask(K, f):
    try:
        return sorted(LTL.modelcheck(K, f))
    except Exception as e:
        return 'raised %s: %s' % (type(e).__name__, e)

# two states, both with a self loop only; p holds in the first one.  Every path from the first state is first^omega, which
# satisfies G p; the only path from the second violates it.  Exact answer: {first}.
for first, second in [(0, 1), (1, 2), ('idle', 'busy'), ((0, 0), (0, 1))]:
    K = Kripke(R=[(first, first), (second, second)], L={first: {'p'}})
    got = ask(K, LTL.A(LTL.G(LTL.AtomicProposition('p'))))
    print('states %r, %r: A G p -> %s   (exact: [%r])%s' % (first, second, got, first, '' if got == [first] else '   PROPERTY VIOLATED'))
