# escape 3: backward reachability to the fulfilling components is cut off after |S| rounds (S = states of K, not tableau atoms)
from pyModelChecking import Kripke, LTL
K = Kripke(R=[(0, 0), (0, 1), (1, 1)], L={0: {'p'}, 1: set()})
f = 'A X X (not p or X p)'
r = LTL.modelcheck(K, f)
print(f, '->', r)
# first principles: the path 0 0 0 1 1 1 ... has p at position 2 and not p at position 3,
# so (not p or X p) fails at position 2 and X X (...) fails at position 0: state 0 must be excluded.
path = [0, 0, 0] + [1] * 5
lab = {0: {'p'}, 1: set()}
holds_at_2 = ('p' not in lab[path[2]]) or ('p' in lab[path[3]])
print('path 0 0 0 1^omega satisfies X X (not p or X p):', holds_at_2)
# from 1 the only path is 1^omega, where not p holds everywhere: state 1 is included
assert not holds_at_2
assert r == {1}, 'PROPERTY VIOLATED: state 0 returned although the path 0 0 0 1^omega violates the formula'
