# escape 4: F.get_equivalent_restricted_formula 'absorbs' F G F phi but returns the rewriting of F phi instead of G F phi
from pyModelChecking import Kripke, LTL
K = Kripke(R=[(0, 1), (1, 1)], L={0: {'p'}, 1: set()})
f = LTL.A(LTL.F(LTL.G(LTL.F(LTL.AtomicProposition('p')))))
r = LTL.modelcheck(K, f)
print(f, '->', r)
# the only path from 0 is 0 1 1 1 ...: p holds at position 0 only, so F p fails from position 1 on,
# G F p fails everywhere and F G F p fails at 0.  The only path from 1 never sees p.  Exact answer: set()
word = [{'p'}] + [set()] * 6              # prefix; the last letter repeats forever
Fp = [any('p' in a for a in word[i:]) for i in range(len(word))]
GFp = [all(Fp[i:]) for i in range(len(word))]
FGFp = [any(GFp[i:]) for i in range(len(word))]
print('F G F p on 0 1^omega:', FGFp[0], '   F p on 0 1^omega:', Fp[0])
assert r == set(), 'PROPERTY VIOLATED: state 0 returned, but its only path 0 1^omega does not satisfy F G F p'
