# escape 1: DiGraph caches its edge list; edits through the live successor set returned by next() bypass the invalidation
from pyModelChecking import Kripke, LTL
K = Kripke(R=[(0, 0), (0, 1), (1, 1)], L={0: {'p'}, 1: set()})
print('before edit      :', LTL.modelcheck(K, 'A G p'), ' (exact: set(), 0 can move to 1 where p fails)')
K.next(0).discard(1)            # the owner removes transition 0 -> 1 (there is no remove_edge; next() returns the live set)
print('transitions now  :', sorted((s, d) for s in K.states() for d in K.next(s)))
r = LTL.modelcheck(K, 'A G p')
print('after edit       :', r, ' (exact: {0} - the only path from 0 is 0 0 0 ... and p holds at 0)')
K2 = Kripke(R=[(s, d) for s in K.states() for d in K.next(s)], L={0: {'p'}, 1: set()})
print('same K rebuilt   :', LTL.modelcheck(K2, 'A G p'))
assert r == {0}, 'PROPERTY VIOLATED: state 0 has only the path 0^omega, which satisfies G p, but is not returned'
