# demo 3: the LTL grammar maps the 'R' rule to the until constructor (copy/paste of the alias): formulas given as TEXT
# run: PYTHONPATH=<lib> python demo_3.py
from pyModelChecking import Kripke
import pyModelChecking.LTL as LTL

K = Kripke(R=[(0, 1), (1, 1)], L={0: {'q'}, 1: set()})
# the only path from 0 is 0 1 1 1 ...; 'p R q' needs q to hold up to and including the first p-position, forever if p never
# holds: p never holds and q fails at position 1, so the path violates p R q; from 1 q fails at once.  Exact answer: {}.
obj = sorted(LTL.modelcheck(K, LTL.A(LTL.R(LTL.AtomicProposition('p'), LTL.AtomicProposition('q')))))
txt = sorted(LTL.modelcheck(K, 'A (p R q)'))
print('as objects: %s   as text: %s   (exact: [])' % (obj, txt))
print('text parsed as:', LTL.Parser()('A (p R q)'))
print('PROPERTY VIOLATED (text channel)' if txt != [] else 'ok')
