# demo 1: result cache keyed by the Kripke OBJECT goes stale when the structure is edited between two queries
# run: PYTHONPATH=<lib> python demo_1.py
from pyModelChecking import Kripke
import pyModelChecking.LTL as LTL

K = Kripke(R=[(0, 0), (1, 1)], L={0: {'p'}, 1: {'p'}})
print('before edit  A G p ->', sorted(LTL.modelcheck(K, 'A G p')), '(exact: [0, 1])')
K.labels(1).discard('p')            # state 1 no longer satisfies p (labels() hands out the live set)
K.add_edge(0, 1)                    # and 0 can now reach it
# first principles: the path 0 1 1 1 ... starts at 0 and violates G p; so does 1 1 1 ...
got = sorted(LTL.modelcheck(K, 'A G p'))
fresh = sorted(LTL.modelcheck(Kripke(R=K.edges(), L={s: set(K.labels(s)) for s in K.states()}), 'A G p'))
print('after edit   A G p ->', got, '(exact: [];  an equal, freshly built structure gives %s)' % fresh)
assert fresh == []
print('PROPERTY VIOLATED' if got != [] else 'ok')
