# escape 5: the tableau's state -> atoms table is keyed by hash(state); hash(-1) == hash(-2) == -2 in CPython
from pyModelChecking import Kripke, LTL
K = Kripke(R=[(-1, -1), (-2, -2)], L={-1: {'p'}, -2: set()})
print('hash(-1), hash(-2):', hash(-1), hash(-2))
try:
    r = LTL.modelcheck(K, 'A G p')
except Exception as e:
    r = '%s: %s' % (type(e).__name__, e)
print('A G p ->', r)
# the only path from -1 is (-1)^omega where p always holds, the only path from -2 never sees p: exact answer {-1}
assert r == {-1}, 'PROPERTY VIOLATED: no exact answer on a legal two-state structure'
