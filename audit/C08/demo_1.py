# C08: every object that can be constructed in CTL is a CTL formula; otherwise TypeError.
from pyModelChecking import CTL, LTL
p = CTL.AtomicProposition('p')
try:
    CTL.And(p, 'q', CTL.X('r'))
    print('constructor accepted a path formula under CTL.And ?!')
except TypeError:
    print('CTL.And(p, q, X r)      -> TypeError (as documented: X r is not a CTL state formula)')
f = (p & 'q') & CTL.X('r')          # the operator form of the same construction
print('(p & q) & X(r)          ->', f, '| class', type(f).__module__, type(f).__name__)
kids = f.subformulas()
print('operands                :', [(type(k).__name__, isinstance(k, CTL.StateFormula)) for k in kids])
assert isinstance(f, CTL.StateFormula) and not isinstance(kids[2], CTL.StateFormula)
g = (LTL.X('p') | 'q') | CTL.E(CTL.X('r'))   # an LTL disjunction with a CTL E-formula inside, and a raw str child
print('LTL: (X p | q) | E X r  ->', g, [type(k).__module__.split('.')[1] + '.' + type(k).__name__ for k in g.subformulas()])
print('VIOLATION: objects of class CTL.And / LTL.Or that are not CTL / LTL formulas, no TypeError')
