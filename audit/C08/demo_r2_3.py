# escape 3: the closure construction of LTL.modelcheck descends only into the first TWO operands of an Or (as it does for U);
# a quantifier hidden in a third operand is never seen, so a formula outside LTL is answered with a set (or IndexError)
# instead of TypeError.
# run: PYTHONPATH=/root/work/aud_C08/lib /venv/bin/python demo_3.py
from pyModelChecking import Kripke, LTL, CTLS

K = Kripke(R=[(0, 1), (1, 2), (2, 2), (1, 0)], L={0: ['p'], 1: [], 2: ['p', 'q']})
E, A, X, Or, Not = CTLS.E, CTLS.A, CTLS.X, CTLS.Or, CTLS.Not
bad = [A(Or('p', 'q', X(E('p')))),            # returns {0, 2}
       A(Or('p', 'q', Not(X(E('q'))))),       # returns {0, 1, 2}
       A(Or('p', 'q', E('p')))]               # IndexError
fails = 0
for f in bad:
    try:
        f.cast_to(LTL)
        raise SystemExit('BUG in demo')
    except TypeError:
        pass                                  # first principles: E is not in the LTL alphabet
    try:
        r = LTL.modelcheck(K, f)
        print('VIOLATION: LTL.modelcheck(K, %s) returned %r (TypeError required)' % (f, r))
        fails += 1
    except TypeError:
        print('ok: LTL.modelcheck(K, %s) raised TypeError' % f)
    except Exception as e:
        print('VIOLATION: LTL.modelcheck(K, %s) raised %s (TypeError required)' % (f, type(e).__name__))
        fails += 1
raise SystemExit(1 if fails else 0)
