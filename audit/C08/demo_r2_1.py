# escape 1: "true or x" is folded to true while rewriting to the restricted syntax, so LTL.modelcheck never sees
# the quantifier that puts the formula outside LTL and returns a set instead of raising TypeError.
# run: PYTHONPATH=/root/work/aud_C08/lib /venv/bin/python demo_1.py
from pyModelChecking import Kripke, LTL, CTLS

K = Kripke(R=[(0, 1), (1, 2), (2, 2), (1, 0)], L={0: ['p'], 1: [], 2: ['p', 'q']})
bad = [CTLS.A(CTLS.Or(True, CTLS.E('p'))),                 # E is not in the LTL alphabet
       CTLS.A(CTLS.X(CTLS.Or(CTLS.A(CTLS.G('p')), True)))]   # A below the root
fails = 0
for f in bad:
    try:
        f.cast_to(LTL)
        print('BUG in demo: %s is an LTL formula' % f)
    except TypeError:
        pass                                                # first principles: not castable into LTL
    try:
        r = LTL.modelcheck(K, f)
        print('VIOLATION: LTL.modelcheck(K, %s) returned %r (TypeError required)' % (f, r))
        fails += 1
    except TypeError:
        print('ok: LTL.modelcheck(K, %s) raised TypeError' % f)
raise SystemExit(1 if fails else 0)
