# escape 2: LTL.modelcheck memoises the closure in a dict keyed by the formula (Formula.__hash__/__eq__ = printed form).
# After a legal query about an atom NAMED "E(p)", the non-LTL formula A(X(E(p))) hits the cache, the closure
# construction (the only place where E is rejected) is skipped and a set comes back instead of TypeError.
# run: PYTHONPATH=/root/work/aud_C08/lib /venv/bin/python demo_2.py
from pyModelChecking import Kripke, LTL, CTLS

K = Kripke(R=[(0, 1), (1, 2), (2, 2), (1, 0)], L={0: ['p'], 1: [], 2: ['p', 'q']})
legal = CTLS.A(CTLS.X(CTLS.AtomicProposition('E(p)')))      # an LTL formula about an oddly named atom
bad = CTLS.A(CTLS.X(CTLS.E('p')))                           # E is not in the LTL alphabet
try:
    bad.cast_to(LTL)
    raise SystemExit('BUG in demo')
except TypeError:
    pass                                                    # first principles: not an LTL formula


def query(f):
    try:
        return LTL.modelcheck(K, f)
    except TypeError:
        return 'TypeError'

print('fresh process, bad formula  :', query(bad))          # TypeError (with and without the mutation)
print('legal query, atom "E(p)"    :', query(legal))        # set(): no state is labelled "E(p)"
r = query(bad)
print('bad formula again           :', r)
if r != 'TypeError':
    print('VIOLATION: LTL.modelcheck(K, %s) returned %r after an unrelated legal call' % (bad, r))
    raise SystemExit(1)
