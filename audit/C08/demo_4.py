# C08: cast_to returns the same structure in the target logic or raises TypeError; out-of-logic operands are rejected.
from pyModelChecking import PL, CTL, CTLS, LTL
f = CTLS.X('p')                       # operand given as a plain str (the README's usual style)
g = f.cast_to(LTL)
print('CTLS.X("p").cast_to(LTL)  ->', repr(g), '| class', type(g).__name__)
try:
    h = CTL.Not(f)                    # X p is a path formula: CTL.Not must refuse it
    print('CTL.Not(CTLS.X("p"))      ->', repr(h), '| operand class', type(h.subformula(0)).__name__, ' (accepted!)')
except TypeError as e:
    print('CTL.Not(CTLS.X("p"))      -> TypeError', e)
try:
    print('CTL.A(CTLS.X("p"))        ->', repr(CTL.A(f)))
except TypeError as e:
    print('CTL.A(CTLS.X("p"))        -> TypeError although A X p is a CTL formula:', e)
assert type(g).__name__ == 'X', 'VIOLATION: cast_to turned the formula X p into the ATOM named %r' % g.name
