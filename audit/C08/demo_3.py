# C08: a modelcheck function given a non-Kripke raises TypeError rather than returning a set.
from pyModelChecking import Kripke, CTL
K = Kripke(R=[(0, 1), (1, 0)], L={0: ['p'], 1: []})
class Recorder(object):                 # NOT a Kripke (not even a DiGraph): a logging wrapper around one
    def __init__(self, k): self._k = k
    def __getattr__(self, name): return getattr(self._k, name)
G = Recorder(K)
assert not isinstance(G, Kripke)
for f in ('E X p', 'A G (p or E X p)'):
    try:
        r = CTL.modelcheck(G, f)
        print('VIOLATION: CTL.modelcheck(<not a Kripke>, %r) returned the set %s' % (f, r))
    except TypeError as e:
        print('TypeError (as required):', e)
