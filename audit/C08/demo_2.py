from pyModelChecking import LTL
from pyModelChecking.graph import DiGraph
for X in (None, DiGraph(V=[0], E=[(0, 0)]), {}):
    try:
        print(LTL.modelcheck(X, 'A G p', F=[{0}]))
    except TypeError as e:
        print('TypeError (required):', e)
    except Exception as e:
        print('VIOLATION: %s instead of TypeError for a non-Kripke:' % type(e).__name__, e)
