# C08: cast_to returns a formula with the SAME STRUCTURE in the target logic, or raises TypeError.
from pyModelChecking import PL, CTL, CTLS, LTL
f = CTLS.A(CTLS.X('p'))
print('A(X p) -> CTL :', repr(f.cast_to(CTL)))
a = CTLS.AtomicProposition('A(X(p))')         # an ATOM whose name looks like a formula (any str is a legal name)
b = a.cast_to(CTL)
print('atom   -> CTL :', repr(b), '| class', type(b).__name__, '| operands', len(b.subformulas()))
assert type(a).__name__ == 'AtomicProposition'
assert type(b).__name__ == 'AtomicProposition', 'VIOLATION: cast_to changed the structure (atom became %s)' % type(b).__name__
