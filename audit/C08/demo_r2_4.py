# escape 4: a Python-2 compatibility shim makes AtomicProposition accept bytes; the documented payload of an atom is a str and
# anything else must raise TypeError (as Bool(1) must).  The object that comes back is silently ANOTHER atom, named "b'p'".
# run: PYTHONPATH=/root/work/aud_C08/lib /venv/bin/python demo_4.py
from pyModelChecking import Kripke, PL, CTLS, CTL, LTL

K = Kripke(R=[(0, 1), (1, 2), (2, 2), (1, 0)], L={0: ['p'], 1: [], 2: ['p', 'q']})
fails = 0
for L in (PL, CTLS, CTL, LTL):
    try:
        a = L.AtomicProposition(b'p')
        print('VIOLATION: %s.AtomicProposition(b"p") built the atom %r' % (L.__name__, a.name))
        fails += 1
    except TypeError:
        print('ok: %s.AtomicProposition(b"p") raised TypeError' % L.__name__)
try:
    print('VIOLATION: CTL.modelcheck(K, AtomicProposition(b"p")) =', CTL.modelcheck(K, CTL.AtomicProposition(b'p')), '(p holds in 0 and 2)')
except TypeError:
    pass
raise SystemExit(1 if fails else 0)
