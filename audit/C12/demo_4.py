# demo_4: successors are visited in sorted() order "for reproducible output"; nodes only have to be
# hashable, not mutually comparable -> TypeError on a graph whose nodes are of two kinds.
import sys; sys.path.insert(0, '/root/work/aud_C12/lib')
from pyModelChecking.graph import DiGraph, compute_SCCs
G = DiGraph(E=[('init', 0), ('init', (0, 'p')), (0, 'init')])  # str, int and tuple nodes: all hashable
print('nodes', list(G.nodes()), 'edges', G.edges())
try:
    comps = [set(c) for c in compute_SCCs(G)]
except Exception as e:
    print('VIOLATION: compute_SCCs raised %r on a legal digraph' % e); raise SystemExit(1)
print(comps)
assert {'init', 0} in comps and {(0, 'p')} in comps and len(comps) == 2
