# demo_3: the DFS loop uses next(it, None) and reads None as "successors exhausted";
# None is a legal (hashable) node, e.g. a "no state"/sink marker -> the frame is closed too early.
import sys; sys.path.insert(0, '/root/work/aud_C12/lib')
from pyModelChecking.graph import DiGraph, compute_SCCs
G = DiGraph(V=['a', None], E=[('a', None), (None, 'a')])       # a <-> None : one component
print('nodes', list(G.nodes()), 'edges', G.edges())
assert None in G.get_reachable_set_from(['a']) and 'a' in G.get_reachable_set_from([None])
try:
    comps = [sorted(c, key=str) for c in compute_SCCs(G)]
except Exception as e:
    print('VIOLATION: compute_SCCs raised %r on a legal digraph' % e); raise SystemExit(1)
print('components:', comps)
assert any('a' in c and None in c for c in comps), 'VIOLATION: a and None not in one component'
