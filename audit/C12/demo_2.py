# demo_2: SCCs are memoised on the graph; add_node drops the memo but add_edge between two
# existing nodes does not -> compute_SCCs answers for the graph as it was BEFORE the edit.
import sys; sys.path.insert(0, '/root/work/aud_C12/lib')
from pyModelChecking.graph import DiGraph, compute_SCCs
G = DiGraph(V=[0, 1], E=[(0, 1)])
print('before edit:', sorted(map(sorted, compute_SCCs(G))))     # [[0], [1]] - right
G.add_edge(1, 0)                                               # now 0 <-> 1
comps = sorted(map(sorted, compute_SCCs(G)))
print('edges now  :', G.edges(), ' components:', comps)
# first principles: 0 and 1 reach each other, hence must share a component
assert 1 in G.get_reachable_set_from([0]) and 0 in G.get_reachable_set_from([1])
same = any(0 in c and 1 in c for c in comps)
assert same, 'VIOLATION: mutually reachable nodes 0 and 1 are in different components'
