# demo 4: the components are asked for, the graph is completed, THEN the components are read (compute_SCCs is lazy).
# run: PYTHONPATH=/root/work/aud_C12/lib /venv/bin/python /root/work/aud_C12/demo_4.py
from pyModelChecking.graph import DiGraph, compute_SCCs


def expected(nodes, edges):      # first principles: mutual reachability by plain closure
    reach = {v: {v} for v in nodes}
    for _ in nodes:
        for a, b in edges:
            for v in nodes:
                if a in reach[v]:
                    reach[v] |= reach[b]
    return sorted(set(tuple(sorted(w for w in nodes if w in reach[v] and v in reach[w])) for v in nodes))


G = DiGraph(V=[0, 1], E=[(0, 1)])
at_call = expected([0, 1], [(0, 1)])
sccs = compute_SCCs(G)           # nothing is read yet
G.add_edge(1, 0)                 # the caller finishes building G
G.add_edge(2, 3)
got = sorted(tuple(sorted(c)) for c in sccs)
now = expected(list(G.nodes()), G.edges())
print('read:', got, '| G when asked:', at_call, '| G when read:', now)
assert got in (at_call, now), 'VIOLATION: %r is the partition of neither graph (nodes 2, 3 in no component, 0 and 1 merged)' % got
