# demo_1: compute_SCCs yields one shared, recycled list object -> a caller that collects the
# components (list(compute_SCCs(G))) sees the last component repeated: nodes missing / duplicated.
import sys; sys.path.insert(0, '/root/work/aud_C12/lib')
from pyModelChecking.graph import DiGraph, compute_SCCs
G = DiGraph(V=[0, 1, 2], E=[(0, 1), (1, 0), (1, 2)])          # SCCs: {0,1} and {2}
comps = list(compute_SCCs(G))                                  # the usual way to collect a generator
print('components:', comps)
flat = [x for c in comps for x in c]
# first principles: each node in exactly one component
for v in G.nodes():
    n = sum(1 for c in comps if v in c)
    print('node', v, 'occurs in', n, 'component(s)')
assert sorted(flat) == sorted(G.nodes()), 'VIOLATION: not a partition of the nodes'
