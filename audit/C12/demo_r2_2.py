# demo 2: two evaluations of compute_SCCs that are alive at the same time (different graphs, read in lockstep).
# run: PYTHONPATH=/root/work/aud_C12/lib /venv/bin/python /root/work/aud_C12/demo_2.py
from pyModelChecking.graph import DiGraph, compute_SCCs


def expected(G):      # first principles: mutual reachability by plain closure
    nodes = list(G.nodes())
    reach = {v: G.get_reachable_set_from([v]) for v in nodes}
    return sorted(set(tuple(sorted(w for w in nodes if w in reach[v] and v in reach[w])) for v in nodes))


G = DiGraph(V=[0, 1, 2, 3], E=[(0, 1), (1, 0), (1, 2), (2, 3), (3, 2)])   # two 2-cycles
H = DiGraph(V=[3, 2, 1, 0], E=[(3, 2), (2, 1), (1, 0)])              # a path: four singletons
gs, hs = [], []
for a, b in zip(compute_SCCs(G), compute_SCCs(H)):            # e.g. comparing two structures component by component
    gs.append(sorted(a)); hs.append(sorted(b))
print('G:', gs, 'expected', expected(G))
print('each graph alone:', [sorted(c) for c in compute_SCCs(G)], [sorted(c) for c in compute_SCCs(H)])
assert sorted(map(tuple, gs)) == expected(G), 'VIOLATION: components of G read next to those of H: %r' % gs
