# demo 3: a digraph whose edge list names an edge twice (e.g. transitions merged from two sources).
# run: PYTHONPATH=/root/work/aud_C12/lib /venv/bin/python /root/work/aud_C12/demo_3.py
from pyModelChecking.graph import DiGraph, compute_SCCs

E = [(0, 1), (1, 0), (1, 2), (2, 2)] + [(1, 0)]       # the digraph ({0,1,2}, {01, 10, 12, 22}); edge 10 listed twice
try:
    got = sorted(sorted(c) for c in compute_SCCs(DiGraph(V=[0, 1, 2], E=E)))
except Exception as e:
    got = 'raised %s: %s' % (type(e).__name__, str(e)[:60])
print('compute_SCCs:', got)
# first principles: 0 and 1 reach each other, 2 reaches only itself
assert got == [[0, 1], [2]], 'VIOLATION: no components for a legal digraph: %s' % (got,)
