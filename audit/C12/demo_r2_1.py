# demo 1: a caller that stops reading compute_SCCs early (any(), next(), break) and asks again later.
# run: PYTHONPATH=/root/work/aud_C12/lib /venv/bin/python /root/work/aud_C12/demo_1.py
from pyModelChecking.graph import DiGraph, compute_SCCs

G = DiGraph(V=[0, 1, 2, 3], E=[(0, 1), (1, 0), (1, 2), (2, 3), (3, 2)])
# ordinary question "is there a cycle?": any() stops at the first component with two nodes
print('has a cycle:', any(len(c) > 1 for c in compute_SCCs(G)))
got = [sorted(c) for c in compute_SCCs(G)]
print('components :', got)

# first principles: mutual reachability by plain closure over the edges of G
nodes = list(G.nodes())
reach = {v: G.get_reachable_set_from([v]) for v in nodes}
want = sorted(set(tuple(sorted(w for w in nodes if w in reach[v] and v in reach[w])) for v in nodes))
print('expected   :', [list(c) for c in want])
flat = [x for c in got for x in c]
assert sorted(flat) == sorted(nodes), 'VIOLATION: nodes %r are in no component' % sorted(set(nodes) - set(flat))

# same slip, other caller: pairs of components (nested loops over the same graph)
H = DiGraph(V=[0, 1, 2], E=[(0, 1), (1, 2)])
pairs = [(tuple(a), tuple(b)) for a in compute_SCCs(H) for b in compute_SCCs(H)]
assert len(pairs) == 9, 'VIOLATION: %d pairs of components instead of 9' % len(pairs)
