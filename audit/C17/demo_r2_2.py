# demo 2: a diagram that tests the SAME variable twice on a path is accepted as an OBDD; results are not ordered and
# variables() / the denoted function of combinations are wrong
from pyModelChecking.BDD import OBDD, BDDNode
T, F = BDDNode(1), BDDNode(0)
O = ['a', 'b']
inner = BDDNode('a', BDDNode('b', F, T), T)          # a | b          (fine)
root = BDDNode('a', inner, F)                        # a above a: "if a then 0 else (if a then 1 else b)"  == ~a & b
try:
    f = OBDD(root, O)
except (ValueError, RuntimeError) as e:
    print('refused (correct):', type(e).__name__); raise SystemExit
print('ACCEPTED', f, ' root.var =', f.root.var, ' root.low.var =', f.root.low.var, '(not strictly earlier)')
g = OBDD('~a & b', O)                                # the same function, as a genuine OBDD
print('same function, f == g ?', f == g, ' (canonicity lost)')
h = f.restrict('a', True)                            # cofactor a=1 of ~a & b is 0
h2 = (f ^ g)                                         # must be the constant 0
print('f ^ g =', h2, ' nodes with low is high or repeated a on a path:', h2.root is not F)
def ev(n, env):
    while hasattr(n, 'var'):
        n = n.high if env[n.var] else n.low
    return int(bool(n.value))
print('(f^g)(a=1,b=0) =', ev(h2.root, dict(a=1, b=0)), '(f^g)(a=0,b=1) =', ev(h2.root, dict(a=0, b=1)))
