# demo 4: every node of a result must test a variable strictly earlier in the ordering than its children,
# and the result must denote the conjunction (variable names: a, ab, b, bb)
import sys, itertools
sys.path.insert(0, '/root/work/aud_C17/lib')
from pyModelChecking.BDD import OBDD
from pyModelChecking.BDD.BDD import BDDTerminalNode

O = ['ab', 'b', 'bb', 'a']
pos = {v: i for i, v in enumerate(O)}

def ev(node, env):
    while not isinstance(node, BDDTerminalNode):
        node = node.high if env[node.var] else node.low
    return bool(node.value)

def misordered(node):
    if isinstance(node, BDDTerminalNode):
        return []
    out = [(node.var, c.var) for c in (node.low, node.high)
           if not isinstance(c, BDDTerminalNode) and not pos[node.var] < pos[c.var]]
    return out + misordered(node.low) + misordered(node.high)

r = OBDD('(ab | b) & (a & bb)', O)      # one parse = one ordering object for all the intermediate diagrams
wrong = [m for m in itertools.product([False, True], repeat=4)
         if ev(r.root, dict(zip(O, m))) != ((m[0] or m[1]) and (m[3] and m[2]))]
print('result:', r)
print('parent/child pairs against the ordering:', misordered(r.root), ' wrong assignments:', len(wrong))
print('VIOLATION' if misordered(r.root) or wrong else 'ok')
