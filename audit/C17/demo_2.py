# demo 2: variables() must be exactly the support reachable in the diagram - whatever the caller did with earlier answers
import sys
sys.path.insert(0, '/root/work/aud_C17/lib')
from pyModelChecking.BDD import OBDD
from pyModelChecking.BDD.BDD import BDDTerminalNode

def support(node, seen=None):
    """variables labelling the nodes reachable from `node` (first principles walk)"""
    seen = set() if seen is None else seen
    if isinstance(node, BDDTerminalNode):
        return set()
    return {node.var} | support(node.low) | support(node.high)

f = OBDD('a & b | c', ['a', 'b', 'c'])
free = f.variables()            # the caller's own set ...
free.discard('a')               # ... e.g. "variables still to be quantified"
free.add('tmp')
got, want = f.variables(), support(f.root)
print('variables():', sorted(got), ' reachable support:', sorted(want))
print('VIOLATION' if got != want else 'ok')
g = f & OBDD('1', ['a', 'b', 'c'])          # same diagram in a fresh OBDD: still fine
print('fresh OBDD  :', sorted(g.variables()))
