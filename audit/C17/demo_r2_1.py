# demo 1: a diagram that is against the ordering (or tests a foreign variable) only BELOW the root's children, in ONE
# branch, is accepted by OBDD(node, ordering); operations on it return diagrams that are not ordered
from pyModelChecking.BDD import OBDD, BDDNode
T, F = BDDNode(1), BDDNode(0)
O = ['a', 'b', 'c', 'd']
bad_low = BDDNode('b', BDDNode('d', F, BDDNode('c', F, T)), T)      # d ABOVE c, two levels below the root
root = BDDNode('a', bad_low, BDDNode('b', F, BDDNode('c', F, T)))   # the edges a->b and the whole high branch are fine
pos = {v: i for i, v in enumerate(O)}
def bad_edges(n):
    if not hasattr(n, 'var'):
        return set()
    here = set((n.var, s.var) for s in (n.low, n.high) if hasattr(s, 'var') and not pos.get(n.var, 99) < pos.get(s.var, 99))
    return here | bad_edges(n.low) | bad_edges(n.high)
for node, order in ((root, O), (BDDNode('a', BDDNode('b', BDDNode('zz', F, T), T), BDDNode('b', F, T)), ['a', 'b'])):
    try:
        f = OBDD(node, order)
    except (ValueError, RuntimeError, KeyError) as e:
        print('refused (correct):', type(e).__name__)
        continue
    print('ACCEPTED under', order, ':', f.root, '| variables() =', sorted(f.variables()))
    if order is O:
        h = f & OBDD('a | b | c | d', O)
        print('   f & (a|b|c|d) has father/son pairs against the ordering:', sorted(bad_edges(h.root)))
