# demo 3: with some 200 diagrams alive the unique-table lookup gives up -> twin nodes -> a result of | with a node whose
# two children are the same sub-diagram; variables() reports a variable the function does not depend on
from pyModelChecking.BDD import OBDD
ys = ['y%d' % i for i in range(60)]
O = ['x%d' % i for i in range(200)] + ['z'] + ys
keep = [OBDD(v, O) for v in O[:200]]             # 200 live literals: every one hangs below the two terminals
def ev(n, env):
    while hasattr(n, 'var'):
        n = n.high if env.get(n.var, 0) else n.low
    return int(bool(n.value))
bad = 0
for y in ys:
    f, g, z = OBDD(y, O), OBDD(y, O), OBDD('z', O)
    h = (z & f) | (~z & g)                       # = y, whatever z is
    assert [ev(h.root, {'z': a, y: b}) for a in (0, 1) for b in (0, 1)] == [0, 1, 0, 1]     # ... and so says the diagram
    if h.variables() != {y}:
        bad += 1
        r = h.root
        if bad == 1:
            print('h = (z & %s) | (~z & %s) =' % (y, y), r, '| variables() =', sorted(h.variables()), '| root tests', r.var,
                  ', low =', r.low, ', high =', r.high, ', low is high:', r.low is r.high, '| h == f:', h == f)
print('results with a redundant node: %d of %d' % (bad, len(ys)))
