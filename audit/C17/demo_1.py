# demo 1: f ^ f must denote the constant 0 on every assignment (same OBDD object on both sides)
import sys, itertools
sys.path.insert(0, '/root/work/aud_C17/lib')
from pyModelChecking.BDD import OBDD
from pyModelChecking.BDD.BDD import BDDTerminalNode

def ev(node, env):
    while not isinstance(node, BDDTerminalNode):
        node = node.high if env[node.var] else node.low
    return bool(node.value)

O = ['a', 'b']
f = OBDD('a & ~b', O)
g = f ^ f                      # the SAME object as both operands
bad = []
for va, vb in itertools.product([False, True], repeat=2):
    env = {'a': va, 'b': vb}
    want = ev(f.root, env) ^ ev(f.root, env)
    got = ev(g.root, env)
    if want != got:
        bad.append((env, want, got))
print('f ^ f =', g)
print('VIOLATION' if bad else 'ok', bad)
# control: an equal diagram held in a different object is fine
print('f ^ OBDD(same text) =', f ^ OBDD('a & ~b', O))
