# demo 3: the two OBDDs over the EMPTY ordering (constants 0 and 1) must combine like Boolean constants
import sys
sys.path.insert(0, '/root/work/aud_C17/lib')
from pyModelChecking.BDD import OBDD, BDDNode
from pyModelChecking.BDD.BDD import BDDTerminalNode

def const(o):
    assert isinstance(o.root, BDDTerminalNode)
    return bool(o.root.value)

bad = []
for x in (0, 1):
    for y in (0, 1):
        try:
            f, g = OBDD(str(x), []), OBDD(BDDNode(y), [])
            got = (const(f & g), const(f | g), const(f ^ g), const(~f), const(f.restrict('a', True)))
            want = (bool(x & y), bool(x | y), bool(x ^ y), not x, bool(x))
            if got != want:
                bad.append((x, y, got, want))
        except Exception as e:
            bad.append((x, y, type(e).__name__, str(e)[:60]))
print('VIOLATION' if bad else 'ok', bad[:2])
