# demo_3: Parser.__call__ memoises results and returns formula.clone() so that callers never share the cached tree.
# Formula.clone() is recursive (one Python frame per nesting level), so a formula nested deeper than the interpreter's
# recursion limit (default 1000) makes the PARSER raise RecursionError - neither a formula nor UnexpectedToken /
# UnexpectedCharacters.  The strings are in the language ('not'^n p is PL/CTLS/CTL/LTL; (E G)^n q is CTL/CTLS).
# The pristine parser (LALR, inline callbacks) is iterative and accepts all of them.
# run: PYTHONDONTWRITEBYTECODE=1 PYTHONPATH=/root/work/aud_C10/lib /venv/bin/python demo_3.py
import sys
import pyModelChecking.parser as pp
import pyModelChecking.PL as PL, pyModelChecking.CTLS as CTLS, pyModelChecking.CTL as CTL, pyModelChecking.LTL as LTL
print('recursion limit', sys.getrecursionlimit())
for s in ['not ' * 450 + 'p', 'not ' * 1200 + 'p', 'E G ' * 600 + 'q', '~' * 5000 + 'p']:
    print('input %r... (%d chars)' % (s[:16], len(s)))
    for M in (PL, CTLS, CTL, LTL):
        name = M.__name__.split('.')[-1]
        try:
            f = M.Parser()(s)
            print('   %-4s formula of class %s.%s' % (name, type(f).__module__, type(f).__name__))
        except (pp.UnexpectedToken, pp.UnexpectedCharacters) as e:
            print('   %-4s %s pos=%d (contract respected)' % (name, type(e).__name__, e.pos))
        except BaseException as e:
            print('   %-4s raised %s   <-- violation: another exception type' % (name, type(e).__name__))
