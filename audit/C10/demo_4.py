# demo_4: Parser.__call__ gained a result cache filled in a `finally:` clause, so a FAILED parse stores None.
# The first call on an out-of-language string raises the positioned error; every later call with the same string on
# the same Parser object silently returns None: no exception, no formula -> the parser "accepts" text that the
# documented grammar excludes ('A F G q' is not CTL, 'E F q' is not LTL: the two examples in the property statement).
# run: PYTHONDONTWRITEBYTECODE=1 PYTHONPATH=/root/work/aud_C10/lib /venv/bin/python demo_4.py
import pyModelChecking.parser as pp
import pyModelChecking.CTL as CTL, pyModelChecking.LTL as LTL, pyModelChecking.PL as PL
for M, s in ((CTL, 'A F G q'), (LTL, 'E F q'), (PL, 'p or'), (CTL, 'p #')):
    parser = M.Parser()
    for attempt in (1, 2, 3):
        try:
            r = parser(s)
            ok = isinstance(r, M.Formula)
            print('%s.Parser()(%r) call %d: returned %r%s' % (M.__name__.split('.')[-1], s, attempt, r,
                  '' if ok else '   <-- violation: no ParserError and not a formula'))
        except (pp.UnexpectedToken, pp.UnexpectedCharacters) as e:
            print('%s.Parser()(%r) call %d: %s pos=%d (contract respected)' % (M.__name__.split('.')[-1], s, attempt, type(e).__name__, e.pos))
