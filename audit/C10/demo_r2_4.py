# demo_4: Parser.__call__ gained an argument check written as `type(string) is not str` (identity) instead of isinstance.
# Instances of str SUBCLASSES are strings (isinstance(x, str)), and common ones reach a parser in practice: a str-mixin Enum of
# specifications, numpy.str_ items of an array / DataFrame column of formulas, lark Tokens, markupsafe/yaml string wrappers.
# For all of them the parser now raises a raw TypeError - for text inside AND outside the language - where the pristine parser
# returns the formula or raises the positioned ParserError.
# run: PYTHONDONTWRITEBYTECODE=1 PYTHONPATH=/root/work/aud_C10/lib /venv/bin/python demo_4.py
import enum
import pyModelChecking.parser as pp
import pyModelChecking.PL as PL, pyModelChecking.CTLS as CTLS, pyModelChecking.CTL as CTL, pyModelChecking.LTL as LTL
class Spec(str, enum.Enum):
    LIVENESS = 'A G (req --> A F ack)'
    BROKEN = 'A F G q'
class Text(str):
    pass
inputs = [Spec.LIVENESS, Spec.BROKEN, Text('E F q'), 'E F q']
try:
    import numpy
    inputs.insert(3, numpy.array(['p U q'])[0])
except ImportError:
    pass
for s in inputs:
    assert isinstance(s, str)
    for M in (PL, CTLS, CTL, LTL):
        name = M.__name__.split('.')[-1]
        what = '%s(%r)' % (type(s).__name__, str.__str__(s))
        try:
            f = M.Parser()(s)
            print('%-34s %-4s formula %s' % (what, name, f))
        except (pp.UnexpectedToken, pp.UnexpectedCharacters) as e:
            print('%-34s %-4s %s pos=%d (contract respected)' % (what, name, type(e).__name__, e.pos))
        except Exception as e:
            print('%-34s %-4s raised %s   <-- violation: another exception type' % (what, name, type(e).__name__))
