# demo_2: atom regex rewritten as /[a-z_][a-z_0-9]*/i ("same thing, shorter").  Under re.IGNORECASE on str patterns
# Python case-folds U+017F (LATIN SMALL LETTER LONG S) to 's' and U+212A (KELVIN SIGN) to 'k', so [a-z] matches them.
# Documented grammar: a_prop = /[a-zA-Z_][a-zA-Z_0-9]*/ or an ESCAPED_STRING -> these strings are outside every logic.
# run: PYTHONDONTWRITEBYTECODE=1 PYTHONPATH=/root/work/aud_C10/lib /venv/bin/python demo_2.py
import re
import pyModelChecking.PL as PL, pyModelChecking.CTLS as CTLS, pyModelChecking.CTL as CTL, pyModelChecking.LTL as LTL
DOC_ATOM = re.compile(r'[a-zA-Z_][a-zA-Z_0-9]*\Z')
for s in ['ſ', 'K', 'E F Kelvin', 'p U miſt']:
    atoms = [w for w in s.split() if w not in ('E', 'F', 'U')]
    print('input %a: atoms not matching the documented terminal: %a' % (s, [w for w in atoms if not DOC_ATOM.match(w)]))
    for M in (PL, CTLS, CTL, LTL):
        name = M.__name__.split('.')[-1]
        try:
            f = M.Parser()(s)
            print('   %-4s ACCEPTED -> %a   <-- violation' % (name, str(f)))
        except Exception as e:
            print('   %-4s rejected: %s pos=%s' % (name, type(e).__name__, getattr(e, 'pos', None)))
