# demo_2: Parser.__call__ remembers rejected inputs by the SHA-1 digest of their UTF-8 encoding.  A Python str may contain
# lone surrogates (os.fsdecode / surrogateescape file names and file contents, json.loads('"\ud800"'), broken UTF-16 input):
# such a str cannot be encoded, so the parser raises UnicodeEncodeError - neither a formula nor a positioned ParserError -
# before Lark even sees the text.  The pristine parser accepts such characters inside quoted atoms and rejects them with
# UnexpectedCharacters elsewhere.
# run: PYTHONDONTWRITEBYTECODE=1 PYTHONPATH=/root/work/aud_C10/lib /venv/bin/python demo_2.py
import json, os
import pyModelChecking.parser as pp
import pyModelChecking.PL as PL, pyModelChecking.CTLS as CTLS, pyModelChecking.CTL as CTL, pyModelChecking.LTL as LTL
inputs = ['A G "x\ud800"', 'p or \udcff', json.loads('"E F q\\udc80"'), 'A F G ' + os.fsdecode(b'q\xe9'), 'A F G q']
for s in inputs:
    for M in (PL, CTLS, CTL, LTL):
        name = M.__name__.split('.')[-1]
        try:
            f = M.Parser()(s)
            print('%-22s %-4s formula of %s' % (ascii(s), name, type(f).__module__))
        except (pp.UnexpectedToken, pp.UnexpectedCharacters) as e:
            print('%-22s %-4s %s pos=%d (contract respected)' % (ascii(s), name, type(e).__name__, e.pos))
        except Exception as e:
            print('%-22s %-4s raised %s   <-- violation: another exception type' % (ascii(s), name, type(e).__name__))
