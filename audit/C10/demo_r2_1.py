# demo_1: ParserError.__init__ now builds a message with %-formatting, the input text glued into the TEMPLATE:
#   ('cannot parse "' + string + '": error at position %d') % pos
# Any out-of-language input containing '%' makes the construction of the ParserError itself fail, so the parser raises a raw
# TypeError / ValueError instead of UnexpectedToken / UnexpectedCharacters.  '%' is legal inside a quoted atom, so it also
# happens for text that is ALMOST in the language ('"50%" or' - dangling operator) and for text of a neighbouring logic.
# run: PYTHONDONTWRITEBYTECODE=1 PYTHONPATH=/root/work/aud_C10/lib /venv/bin/python demo_1.py
import pyModelChecking.parser as pp
import pyModelChecking.PL as PL, pyModelChecking.CTLS as CTLS, pyModelChecking.CTL as CTL, pyModelChecking.LTL as LTL
for s in ['p % q', '"load>50%" or', 'A F G "cpu%"', 'E F "100%d"', 'p %s', '%', 'p or q']:
    for M in (PL, CTLS, CTL, LTL):
        name = M.__name__.split('.')[-1]
        try:
            f = M.Parser()(s)
            print('%-16r %-4s formula %s' % (s, name, f))
        except (pp.UnexpectedToken, pp.UnexpectedCharacters) as e:
            print('%-16r %-4s %s pos=%d (contract respected)' % (s, name, type(e).__name__, e.pos))
        except Exception as e:
            print('%-16r %-4s raised %s: %s   <-- violation: another exception type' % (s, name, type(e).__name__, e))
