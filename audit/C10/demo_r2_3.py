# demo_3: Parser.__call__ shifts the error position by one for every double-width (East Asian W/F) character in front of it,
# so that the caret of ParserError.__str__ lines up on a terminal.  Such characters are legal inside quoted atoms; when the
# text is rejected AFTER such an atom, .pos is no longer an index into the input: it can exceed len(input)
# ("whose position lies within the input" is violated; string[pos] raises IndexError).
# Needs three things at once: a quoted atom, wide characters in it, and an error later in the text.
# run: PYTHONDONTWRITEBYTECODE=1 PYTHONPATH=/root/work/aud_C10/lib /venv/bin/python demo_3.py
import pyModelChecking.parser as pp
import pyModelChecking.PL as PL, pyModelChecking.CTLS as CTLS, pyModelChecking.CTL as CTL, pyModelChecking.LTL as LTL
for s in ['"温度过高" U', 'A G ("温度过高" --> F "报警"))', 'E F "ｏｋ"', 'A F G "报警中"', '"ab" U']:
    for M in (PL, CTLS, CTL, LTL):
        name = M.__name__.split('.')[-1]
        try:
            f = M.Parser()(s)
            print('%-28s len=%-2d %-4s formula %s' % (s, len(s), name, f))
        except (pp.UnexpectedToken, pp.UnexpectedCharacters) as e:
            ok = 0 <= e.pos <= len(s)
            print('%-28s len=%-2d %-4s %s pos=%d%s' % (s, len(s), name, type(e).__name__, e.pos,
                  ' (within the input)' if ok else '   <-- violation: position outside the input'))
