# demo_1: atom regex 0-9 -> \d accepts non-ASCII decimal digits inside identifiers.
# Documented grammar: a_prop = /[a-zA-Z_][a-zA-Z_0-9]*/ (ASCII only) or an ESCAPED_STRING.
# run: PYTHONPATH=/root/work/aud_C10/lib /venv/bin/python demo_1.py
import re
import pyModelChecking.PL as PL, pyModelChecking.CTLS as CTLS, pyModelChecking.CTL as CTL, pyModelChecking.LTL as LTL
DOC_ATOM = re.compile(r'[a-zA-Z_][a-zA-Z_0-9]*\Z')          # the documented terminal, written down independently
for s in ['p٣', 'A G (x１ --> F y२)']:        # ARABIC-INDIC 3, FULLWIDTH 1, DEVANAGARI 2
    words = re.findall(r'[^\s()]+', s)
    outside = [w for w in words if w not in ('A', 'G', 'F', '-->') and not DOC_ATOM.match(w)]
    print('input %r: words outside the documented alphabet: %r' % (s, outside))
    for M in (PL, CTLS, CTL, LTL):
        try:
            f = M.Parser()(s)
            print('   %-4s ACCEPTED -> %r   <-- violation (documented grammar excludes the string)' % (M.__name__.split('.')[-1], f))
        except Exception as e:
            print('   %-4s rejected: %s pos=%s' % (M.__name__.split('.')[-1], type(e).__name__, getattr(e, 'pos', None)))
