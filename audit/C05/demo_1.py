# demo 1: a conjunction with ONE operand (legal: And(*constraints) with a 1-element list) is rewritten to its negation
import pyModelChecking.CTL as CTL, pyModelChecking.CTLS as CTLS, pyModelChecking.LTL as LTL
from pyModelChecking.kripke import Kripke

def ev(f, lab):
    """propositional meaning from first principles, on one state's label set"""
    n = type(f).__name__
    if n == 'Bool': return bool(f._value)
    if n == 'AtomicProposition': return f.name in lab
    v = [ev(g, lab) for g in f.subformulas()]
    return {'Not': lambda: not v[0], 'Or': lambda: any(v), 'And': lambda: all(v)}[n]()

for L in (CTL, CTLS, LTL):
    f = L.And('p')                       # "and p"  ==  p
    r = f.get_equivalent_restricted_formula()
    print(L.__name__.split('.')[-1], 'f =', f, ' restricted =', r,
          ' f on {p}:', ev(f, {'p'}), ' restricted on {p}:', ev(r, {'p'}))
    assert ev(f, {'p'}) == ev(r, {'p'}), 'restricted formula is NOT equivalent'
