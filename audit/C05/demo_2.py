# demo 2: a disjunction of 9 operands (the parser builds flat n-ary Or/And) loses its last operand when rewritten
import pyModelChecking.CTL as CTL, pyModelChecking.CTLS as CTLS

def ev(f, lab):
    """propositional meaning from first principles, on one state's label set"""
    n = type(f).__name__
    if n == 'Bool': return bool(f._value)
    if n == 'AtomicProposition': return f.name in lab
    v = [ev(g, lab) for g in f.subformulas()]
    return {'Not': lambda: not v[0], 'Or': lambda: any(v), 'And': lambda: all(v)}[n]()

text = ' or '.join('p%d' % i for i in range(1, 10))
for L in (CTL, CTLS):
    f = L.Parser()(text)
    r = f.get_equivalent_restricted_formula()
    print('f          =', f, '(%d operands)' % len(f.subformulas()))
    print('restricted =', r)
    print('on a state labelled {p9}: f', ev(f, {'p9'}), ' restricted', ev(r, {'p9'}))
    assert ev(f, {'p9'}) == ev(r, {'p9'}), 'restricted formula is NOT equivalent'
