# escape 1: restricted forms shared through a weak table keyed by (class NAME, printed form).
# The table only matters while an earlier RESULT is still alive - the check drops every result before building the next formula.
import sys
sys.path.insert(0, '/root/work/aud_C05/lib')
from pyModelChecking import CTL, LTL, Kripke

# (a) two logics, ordinary names: the LTL formula is rewritten into CTL objects
keep = CTL.And('p', 'q').get_equivalent_restricted_formula()          # a spec that is still in use
r = LTL.And('p', 'q').get_equivalent_restricted_formula()
print('LTL (p and q) ->', r, 'built from', type(r).__module__, '| is an LTL formula:', isinstance(r, LTL.Formula))

# (b) same logic: an atom whose name prints like a formula (any str is a legal name; the check's EXOTIC list has this one)
K = Kripke(S=[0], S0=[0], R=[(0, 0)], L={0: set(['p'])})               # 'p' holds, the atom '(p or q)' does not
f1 = CTL.Not(CTL.AtomicProposition('(p or q)'))                        # true at 0
f2 = CTL.Not(CTL.Or('p', 'q'))                                         # false at 0
r1 = f1.get_equivalent_restricted_formula()
r2 = f2.get_equivalent_restricted_formula()
print('f2 restricted operand is', type(r2.subformula(0)).__name__, '(expected Or)')
print('f2 =', f2, ': states satisfying f2 (via its restricted form):', CTL.modelcheck(K, r2), ' expected: set()')
assert isinstance(r, LTL.Formula) and type(r2.subformula(0)).__name__ == 'Or', 'property C05 violated'
