# demo 3: atoms with non-ASCII names (legal: any str) are renamed by the rewriting, so two different atoms are merged
import pyModelChecking.CTL as CTL
from pyModelChecking.kripke import Kripke

f = CTL.And('porta_è_aperta', CTL.Not('porta_é_aperta'))      # two DIFFERENT atoms (è / é): satisfiable
r = f.get_equivalent_restricted_formula()
print('f          =', f)
print('restricted =', r)
atoms = lambda g: {g.name} if type(g).__name__ == 'AtomicProposition' else set().union(*[atoms(h) for h in g.subformulas()])
print('atoms of f:', sorted(atoms(f)), ' atoms of restricted:', sorted(atoms(r)))
# first principles: in the state labelled {porta_è_aperta} f holds; the rewritten formula is (x and not x) = false everywhere
K = Kripke(S=[0], S0=[0], R=[(0, 0)], L={0: ['porta_è_aperta']})
print('library CTL.modelcheck(K, f) =', CTL.modelcheck(K, f), ' (f holds in state 0 by definition)')
assert atoms(f) == atoms(r), 'the rewriting changed the atoms of the formula'
