# escape 2: CTL A(.. R ..) remembers its restricted form on the object, but the R branch stores the formula WITHOUT the outer
# negation: the first call is right, every later call on the same object returns the complement.
import sys
sys.path.insert(0, '/root/work/aud_C05/lib')
from pyModelChecking import CTL, Kripke

K = Kripke(S=[0, 1], S0=[0], R=[(0, 1), (1, 1)], L={0: set(['q']), 1: set()})
f = CTL.A(CTL.R('p', 'q'))            # A(p R q): q must hold until (and including when) p releases it
# first principles: at state 1 q is false, so A(p R q) fails at 1; at 0 q holds but the only successor is 1, so it fails at 0 too
expected = set()
r1 = f.get_equivalent_restricted_formula()
r2 = f.get_equivalent_restricted_formula()      # same object, second call (e.g. the second modelcheck of one specification)
print('1st call:', r1, '->', CTL.modelcheck(K, r1))
print('2nd call:', r2, '->', CTL.modelcheck(K, r2), ' expected', expected)
print('modelcheck(K, f) now:', CTL.modelcheck(K, f))
assert str(r1) == str(r2) and CTL.modelcheck(K, r2) == expected, 'property C05 violated'
