# escape 3: formulas taller than 32 take an "unrolled" path in Not.get_equivalent_restricted_formula whose parity test is inverted.
# The quick tier never builds a formula deeper than 10 (random depth <= 5 plus contexts), the thorough tier neither.
import sys
sys.path.insert(0, '/root/work/aud_C05/lib')
from pyModelChecking import CTL, Kripke

g = CTL.AtomicProposition('p')
for _ in range(33):
    g = CTL.EX(g)                      # EX^33 p: on a self-loop labelled p it holds
f = CTL.Not(g)                         # so not EX^33 p is false there
K = Kripke(S=[0], S0=[0], R=[(0, 0)], L={0: set(['p'])})
r = f.get_equivalent_restricted_formula()
print('restricted form begins with:', type(r).__name__, '(expected Not)')
print('states satisfying the restricted form of not EX^33 p:', CTL.modelcheck(K, r), ' expected set()')
assert type(r).__name__ == 'Not' and CTL.modelcheck(K, r) == set(), 'property C05 violated'
