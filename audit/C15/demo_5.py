# demo 5: backward closure of the fair components written recursively: a long chain leading to a fair loop -> RecursionError
from pyModelChecking import Kripke, CTL
N = 3000
K = Kripke(R=[(i, i + 1) for i in range(N)] + [(N, N), (N + 1, N + 1), (N, N + 1), (N + 1, N)], L={N: {'p'}})
try:
    print(len(K.get_fair_states([{N}])), 'fair states (expected', N + 2, ')')
    print(len(CTL.modelcheck(K, CTL.E(CTL.F('p')), F=[{N}])))
except RecursionError as e:
    print('VIOLATION: internal error RecursionError')
