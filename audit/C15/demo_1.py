# demo 1: CTL.modelcheck given the formula as a STRING forgets the fairness constraints
from pyModelChecking import Kripke, CTL
# two disjoint components {0,1} (p everywhere) and {2,3}; every state has a self loop, no edge between the components
K = Kripke(R=[(0, 0), (1, 1), (0, 1), (1, 0), (2, 2), (3, 3), (2, 3), (3, 2)], L={0: {'p'}, 1: {'p'}})
F = [{2}]
# a fair path visits state 2 infinitely often; 0 and 1 cannot reach 2, so NO fair path starts there:
# under fairness E G p holds nowhere (p is false on 2,3; no fair path from 0,1)
assert K.get_fair_states(F) == {2, 3}
obj = CTL.modelcheck(K, CTL.E(CTL.G('p')), F=F)
txt = CTL.modelcheck(K, 'E G p', F=F)
print('object formula, F  :', obj)
print('string formula, F  :', txt)
print('string, no F       :', CTL.modelcheck(K, 'E G p'))
assert obj == set()
assert txt == set(), 'VIOLATION: F ignored for a string formula: %s' % (txt,)
