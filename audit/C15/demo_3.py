# demo 3: CTL A/E formulas remember their fairness rewriting, whatever the fresh label was -> re-using ONE formula object
# on a second structure whose labels already contain 'fair' gives a wrong answer
from pyModelChecking import Kripke, CTL
R = [(0, 0), (1, 1), (0, 1), (1, 0), (2, 2), (3, 3), (2, 3), (3, 2), (1, 2)]
F = [{2}]                                   # fair paths end up in {2,3}; all four states start one (1 -> 2)
K1 = Kripke(R=R, L={0: {'p'}, 1: {'p'}, 2: {'p'}, 3: {'p'}})
K2 = Kripke(R=R, L={0: {'p'}, 1: {'p'}, 2: {'p'}, 3: {'p', 'fair'}})     # the user's own atom 'fair' labels state 3 only
f = CTL.E(CTL.X('p'))
fresh = CTL.modelcheck(K2, CTL.E(CTL.X('p')), F=F)     # a fresh formula object on K2
CTL.modelcheck(K1, f, F=F)                             # f is first used on K1 (fresh label there: 'fair')
again = CTL.modelcheck(K2, f, F=F)                     # ... and then on K2 (fresh label there: 'fair0')
print('K2, fresh formula object :', fresh)             # {0,1,2,3}: every state has a fair successor satisfying p
print('K2, re-used formula object:', again)
assert fresh == {0, 1, 2, 3}
assert again == fresh, 'VIOLATION: answer depends on the history of the formula object'
