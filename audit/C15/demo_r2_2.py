# demo 2: CTL.modelcheck documents `formula: a type castable in a CTL.Formula`: a CTL-shaped formula built with the CTL*
# classes is accepted (and cast) without F; with F it must be answered over fair paths, not rejected
from pyModelChecking import Kripke, CTL, CTLS

# 0 <-> 1 (both with self loops), 0 -> 2, 2 sink with a self loop; p in 0 and 2, q in 1
K = Kripke(S=[0, 1, 2], R=[(0, 0), (0, 1), (1, 0), (1, 1), (0, 2), (2, 2)], L={0: {'p'}, 1: {'q'}, 2: {'p'}})
F = [{1}]                                    # fair = visits 1 infinitely often; fair paths start in 0 and 1 only
f_ctls = CTLS.E(CTLS.F(CTLS.AtomicProposition('q')))       # E F q written with CTL* classes
f_ctl = CTL.EF('q')
print('no F :', CTL.modelcheck(K, f_ctl), CTL.modelcheck(K, f_ctls))          # {0, 1} {0, 1}
print('F    :', CTL.modelcheck(K, f_ctl, F=F))                                # {0, 1}  (a fair path reaching q)
try:
    print('F    :', CTL.modelcheck(K, f_ctls, F=F))                           # must be {0, 1} as well
except Exception as e:
    print('F, CTL* object ->', type(e).__name__, e)
assert CTL.modelcheck(K, f_ctls, F=F) == {0, 1}
