# demo 5 (extra): K extended through the public add_edge (what the check's own 'evolving structures' stream does), then asked WITH F
from pyModelChecking import Kripke, CTL, CTLS
K = Kripke(S=[0, 1], R=[(0, 0), (0, 1), (1, 0), (1, 1)], L={0: {'p'}, 1: {'p'}})
K.add_edge(2, 0)
K.add_edge(1, 2)                       # new state 2 (no labels) on the cycle 1 -> 2 -> 0 -> 1
F = [{1}]
print(K.get_fair_states(F))            # {0, 1, 2}
print(CTL.modelcheck(K, 'E G p', F=F), CTLS.modelcheck(K, 'E G p', F=F))     # pristine library: {0, 1} {0, 1}; mutated: KeyError: 2
