# demo 3: the caller edits the labels of K between two calls with the same F (public API: K.labels(s) is the state's label set -
# the library's own CTL* checker edits labels this way - and replace_labelling_function)
from pyModelChecking import Kripke, CTL, LTL, CTLS

# 0 <-> 1, both with self loops; F = [{1}]: every state starts a fair path
K = Kripke(S=[0, 1], R=[(0, 0), (0, 1), (1, 0), (1, 1)], L={0: {'p'}, 1: set()})
F = [{1}]
print('before:', CTL.modelcheck(K, 'A G p', F=F), LTL.modelcheck(K, 'A G p', F=F), CTLS.modelcheck(K, 'A G p', F=F))   # p fails in 1: set()
K.labels(1).add('p')                              # now p holds everywhere
print('after K.labels(1).add("p"):', CTL.modelcheck(K, 'A G p', F=F), LTL.modelcheck(K, 'A G p', F=F), CTLS.modelcheck(K, 'A G p', F=F))
print('same K, no F / an equal fresh K with F:', CTL.modelcheck(K, 'A G p'), CTL.modelcheck(K.clone(), 'A G p', F=F))
assert CTL.modelcheck(K, 'A G p', F=F) == {0, 1}   # p everywhere: A G p holds on every (fair) path
K.replace_labelling_function({0: set(), 1: set()})  # p nowhere
assert CTL.modelcheck(K, 'E F p', F=F) == set()
