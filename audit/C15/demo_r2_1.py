# demo 1: states that are plain user objects (hashable by identity - any hashable object is a legal state)
from pyModelChecking import Kripke, CTL, LTL, CTLS

class Proc(object):                      # no __eq__/__hash__: identity
    def __init__(self, n): self.n = n
    def __repr__(self): return 'Proc(%s)' % self.n

a, b, c = Proc('a'), Proc('b'), Proc('c')
# a <-> b (both with self loops), a -> c, c sink with self loop; p holds in a, b, c
K = Kripke(S=[a, b, c], R=[(a, a), (a, b), (b, a), (b, b), (a, c), (c, c)], L={a: {'p'}, b: {'p'}, c: {'p'}})
F = [{b}]                                # fair paths visit b infinitely often: they exist from a and b, not from c
print('fair states      ', K.get_fair_states(F))                 # {a, b}: right
for name, M, f in (('CTL', CTL, 'E G p'), ('CTLS', CTLS, 'E G p'), ('LTL', LTL, 'A F not p')):
    r = M.modelcheck(K, f, F=F)
    print(name, f, '->', r, '| subset of K.states():', r <= set(K.states()))
# expected (first principles): some fair path along which p always holds starts at a and b  -> E G p = {a, b};
# A F not p: c has no fair path (vacuous) -> {c}.  All results must be states of K.
assert CTL.modelcheck(K, 'E G p', F=F) == {a, b}
