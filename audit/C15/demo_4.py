# demo 4: get_fair_states memoises its answer per F (invalidated by add_node/add_edge) but hands out the memoised set
# itself: a caller who edits the set he was given corrupts every later answer, modelcheck(..., F=F) included
from pyModelChecking import Kripke, CTL
K = Kripke(R=[(0, 0), (1, 1), (0, 1), (1, 0), (2, 2), (3, 3), (2, 3), (3, 2), (1, 2)],
           L={0: {'p'}, 1: {'p'}, 2: {'p'}, 3: {'p'}})
F = [{2}]
fs = K.get_fair_states(F)
print('fair states            :', fs)                  # {0,1,2,3}: 0 -> 1 -> 2, and {2,3} is a fair SCC
assert fs == {0, 1, 2, 3}
fs -= {2, 3}                                          # the caller keeps only the states he is interested in (HIS set)
again = K.get_fair_states([{2}])
print('fair states, asked again:', again)
assert again == {0, 1, 2, 3}, 'VIOLATION: get_fair_states(F) is not the set of fair states any more: %s' % (again,)
