# demo 4: the documented signature is modelcheck(kripke, formula, parser=None, F=None); a caller may pass both optional
# arguments by position
from pyModelChecking import Kripke, CTL, LTL, CTLS

# 0 <-> 1 (both with self loops), 0 -> 2, 2 sink with a self loop; p in 0 and 2, q in 1
K = Kripke(S=[0, 1, 2], R=[(0, 0), (0, 1), (1, 0), (1, 1), (0, 2), (2, 2)], L={0: {'p'}, 1: {'q'}, 2: {'p'}})
F = [{1}]                    # fair paths visit 1 infinitely often: none starts in 2, none stays in p forever
for M, f in ((CTL, CTL.EG('p')), (CTLS, CTLS.E(CTLS.G('p'))), (LTL, LTL.A(LTL.F('q')))):
    kw = M.modelcheck(K, f, F=F)
    pos = M.modelcheck(K, f, None, F)
    print(M.__name__, f, 'F by keyword:', kw, ' F by position:', pos)
    assert kw == pos, 'F passed by position was ignored'
