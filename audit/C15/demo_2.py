# demo 2: label_fair_states iterates the fair states in sorted order -> structures whose states are not mutually
# comparable (any hashable object is a legal state) make every modelcheck(..., F=F) raise
from pyModelChecking import Kripke, CTL, LTL, CTLS
# same shape as a 2+2 clustered structure, states named by an int and a str / a tuple
K = Kripke(R=[(0, 0), ('a', 'a'), (0, 'a'), ('a', 0), ((1, 2), 0), ((1, 2), (1, 2))], L={0: {'p'}, 'a': {'p'}})
F = [{'a'}]
print('fair states:', K.get_fair_states(F))            # all three states: {0,'a'} is a fair SCC, (1,2) reaches it
print('no F       :', CTL.modelcheck(K, CTL.E(CTL.G('p'))))
for M, f in ((CTL, CTL.E(CTL.G('p'))), (LTL, LTL.A(LTL.G('p'))), (CTLS, CTLS.E(CTLS.G(CTLS.F('p'))))):
    try:
        print(M.__name__, 'with F:', M.modelcheck(K, f, F=F))
    except Exception as e:
        print('VIOLATION: %s.modelcheck(K,f,F=F) raised %s: %s' % (M.__name__, type(e).__name__, str(e)[:80]))
