# escape 3: Kripke.label_fair_states walks sorted(fair states) ("reproducible order").  Every modelcheck(..., F=F) now needs
# mutually orderable state names: renaming the states by a bijection to mixed types / plain objects (which the no-fairness
# path handles) makes the fair query raise, while the same structure under int or str names answers.
# run: PYTHONPATH=/root/work/aud_C06/lib /venv/bin/python demo_3.py
from pyModelChecking import Kripke, CTL, LTL, CTLS

class Loc(object):
    pass

def present(nm):     # 0 <-> 1 -> 2 -> 2, self loops everywhere, p at 0 and 1 ; fairness: visit state 1 infinitely often
    K = Kripke(S=[nm[0], nm[1], nm[2]], S0=[nm[0]], R=[(nm[0], nm[0]), (nm[0], nm[1]), (nm[1], nm[1]), (nm[1], nm[0]), (nm[1], nm[2]), (nm[2], nm[2])],
               L={nm[0]: ['p'], nm[1]: ['p']})
    return K, [{nm[1]}]

bad = 0
for M, f in ((CTL, 'E G p'), (LTL, 'A F not p'), (CTLS, 'E G p')):
    res = []
    for nm in ([0, 1, 2], ['a', 'b', 'c'], [0, 's1', ('t', 2)], [Loc(), Loc(), Loc()]):
        K, F = present(nm)
        back = {s: i for i, s in enumerate(nm)}
        try:
            res.append(sorted(back[s] for s in M.modelcheck(K, f, F=F)))
        except Exception as e:
            res.append('%s: %s' % (type(e).__name__, str(e)[:40]))
    print(M.__name__, f, 'F=[{state 1}] ->', res)
    bad += any(r != res[0] for r in res)
print('PROPERTY VIOLATED (state renaming changes the fair answer)' if bad else 'ok: invariant under state renaming')
