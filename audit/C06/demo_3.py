# C06: renaming the states by ANY bijection (states are arbitrary hashables) must only rename the answer.
# Structure: a -> b -> b, p holds in b.   f = A X p (as a CTL* query): holds in a and in b.
from pyModelChecking import Kripke, CTLS, CTL
class Loc(object):                 # a plain user class: hashable, compared by identity (the default)
    def __init__(self, name): self.name = name
    def __repr__(self): return 'Loc(%s)' % self.name
def run(a, b):
    K = Kripke(S=[a, b], S0=[a], R=[(a, b), (b, b)], L={b: ['p']})
    res = CTLS.modelcheck(K, CTLS.A(CTLS.X(CTLS.AtomicProposition('p'))))
    return sorted('a' if s == a else 'b' if s == b else 'FOREIGN:%r' % (s,) for s in res), all(s in K.states() for s in res)
print('states 0, 1            :', run(0, 1))
print("states 'u', ('v', 2)   :", run('u', ('v', 2)))
print('states Loc(a), Loc(b)  :', run(Loc('a'), Loc('b')), '  <-- the answer must be {a, b} made of states of K')
