# C06: renaming the states by a bijection must rename the answer and nothing else.
# Structure: a -> b -> a, p holds in b only (a is unlabelled and, as usual, left out of L).
from pyModelChecking import Kripke, CTL, LTL, CTLS
def K(a, b):
    return Kripke(S=[a, b], S0=[a], R=[(a, b), (b, a)], L={b: ['p']})
def answers(a, b):
    back = {a: 'a', b: 'b'}
    r = [CTL.modelcheck(K(a, b), CTL.AtomicProposition('p')),
         LTL.modelcheck(K(a, b), LTL.A(LTL.X(LTL.Not('p')))),
         CTLS.modelcheck(K(a, b), CTLS.E(CTLS.G(CTLS.AtomicProposition('p'))))]
    return [sorted(back[s] for s in x) for x in r]
ref = answers(0, 1)                    # p: {b};  A X not p: {b};  E G p: {}
print('states 0, 1     :', ref)
for a, b in [('u', 'v'), ((0, 'x'), (1, 'y')), (1, '1')]:      # (1, '1'): an int and a string, distinct hashables
    got = answers(a, b)
    print('states %r, %r :' % (a, b), got, '' if got == ref else '   <-- differs: C06 violated')
