# escape 1: the identifier terminal "reserves" the word operators with a negative look-ahead that lacks \b, so an identifier
# that merely STARTS with true/false/not/or/and is split by the lexer ('notq' -> not q).  Renaming p -> notq, r -> q
# consistently in K and in the formula TEXT changes the answer (and 'orb', 'trueish' stop parsing).
# run: PYTHONPATH=/root/work/aud_C06/lib /venv/bin/python demo_1.py
from pyModelChecking import Kripke, CTL, LTL, CTLS

def K(r, p):        # 0 -> 1 -> 1 ; r and p hold at 0 only
    return Kripke(S=[0, 1], S0=[0], R=[(0, 1), (1, 1)], L={0: [r, p], 1: []})

bad = 0
for M in (CTL, LTL, CTLS):
    base = M.modelcheck(K('r', 'p'), 'A X p')                  # nobody has a p-successor: set()
    ren = M.modelcheck(K('q', 'notq'), 'A X notq')             # r -> q, p -> notq, in K and in the text
    obj = M.modelcheck(K('q', 'notq'), M.A(M.X(M.AtomicProposition('notq'))))
    print(M.__name__, ' A X p:', base, '| renamed text:', ren, '| renamed object:', obj)
    bad += (ren != base)
print('PROPERTY VIOLATED (consistent atom renaming changes the answer)' if bad else 'ok: renaming invariant')
