# C06: consistently renaming the atomic propositions in K and in f must not change the answer.
# Structure: 0 -> 1 -> 1, state 0 labelled {q}, state 1 labelled {p}.
#   f = A X not p          : every successor (always state 1) satisfies p  -> {}
#   g = (A X not p) or not q                                              -> {1}
from pyModelChecking import Kripke, CTLS
AP = CTLS.AtomicProposition
def run(p, q):
    K = Kripke(S=[0, 1], S0=[0], R=[(0, 1), (1, 1)], L={0: [q], 1: [p]})
    f = CTLS.A(CTLS.X(CTLS.Not(AP(p))))
    g = CTLS.Or(CTLS.A(CTLS.X(CTLS.Not(AP(p)))), CTLS.Not(AP(q)))
    return sorted(CTLS.modelcheck(K, f)), sorted(CTLS.modelcheck(K, g))
ref = run('p', 'q')
print('atoms p, q               :', ref)
print('atoms ready, busy        :', run('ready', 'busy'))
name = '[%s]' % CTLS.A(CTLS.X(CTLS.Not(AP('p'))))          # a legal atom name (any str is)
got = run('p', name)
print('atoms p, %-15r:' % name, got, '' if got == ref else '  <-- differs: C06 violated')
