# escape 4: DiGraph.get_reachable_set_from rewritten as a recursive depth-first visit.  Correct on every small structure,
# but the visit depth is the length of the longest simple path walked, so a structure with a long chain of states blows the
# interpreter's recursion limit: ADDING STATES THAT ARE UNREACHABLE from the queried ones (a 1500-state chain leading
# into the old structure) turns the answer for the old states into a RecursionError.  Sizes in the check stop at 6 + 3 states.
# run: PYTHONPATH=/root/work/aud_C06/lib /venv/bin/python demo_4.py
from pyModelChecking import Kripke, CTL, LTL, CTLS

S, R, L = [0, 1, 2], [(0, 1), (1, 0), (1, 2), (2, 2)], {0: ['p'], 1: ['p'], 2: ['q']}
N = 1500
new = ['u%d' % i for i in range(N)]                      # u0 -> u1 -> ... -> u1499 -> 0 : nothing old reaches a u
R2 = R + list(zip(new, new[1:])) + [(new[-1], 0)]
L2 = dict(L, **{u: ['p'] for u in new})
bad = 0
for M, f in ((CTL, 'E G p'), (CTL, 'E (p U q)'), (LTL, 'A G p'), (CTLS, 'E G F q')):
    base = M.modelcheck(Kripke(S=S, S0=[0], R=R, L=L), f)
    try:
        ext = M.modelcheck(Kripke(S=S + new, S0=[0], R=R2, L=L2), f) & set(S)
    except RecursionError as e:
        ext = 'RecursionError'
    print(M.__name__, f, ': old structure', base, '| with %d unreachable states added, restricted to the old states:' % N, ext)
    bad += (ext != base)
print('PROPERTY VIOLATED (adding unreachable states changes the outcome)' if bad else 'ok: unreachable states do not matter')
