# escape 2: Kripke.__init__ "accepts a single atomic proposition as L[state]": anything that is not a list / set is wrapped
# into a one-element list - so a label collection handed over as a tuple / frozenset / dict view becomes ONE label (the
# tuple itself).  The same structure presented with another container type for its label collections answers differently.
# run: PYTHONPATH=/root/work/aud_C06/lib /venv/bin/python demo_2.py
from pyModelChecking import Kripke, CTL, LTL, CTLS

R = [(0, 1), (1, 0), (1, 2), (2, 2)]
labs = {0: ['p', 'q'], 1: ['p'], 2: []}
queries = [(CTL, 'E G p'), (LTL, 'A (p U q)'), (CTLS, 'A F (q and E X p)')]
bad = 0
for M, f in queries:
    ans = {}
    for name, conv in (('list', list), ('set', set), ('tuple', tuple), ('frozenset', frozenset),
                       ('reversed tuple', lambda x: tuple(reversed(x)))):
        K = Kripke(S=[0, 1, 2], S0=[0], R=R, L={s: conv(a) for s, a in labs.items()})
        ans[name] = M.modelcheck(K, f)
    print(M.__name__, f, ans)
    bad += len({frozenset(a) for a in ans.values()}) > 1
print('PROPERTY VIOLATED (answer depends on how the label collections are presented)' if bad else 'ok: presentation invariant')
