# escape 1: clone() serves a memoised snapshot; the snapshot is dropped by every mutator METHOD
# (add_edge, add_node, replace_labelling_function, label_fair_states) but not when the structure is
# edited through the handles the API hands out: labels(s) (the library's own CTLS checker does
# `kripke.labels(s).add(atom)`), labelling_function(), the public attribute S0.
# Property C14: clone() returns a structure with the same labels on the retained states.
from pyModelChecking.kripke import Kripke

K = Kripke(S=[0, 1], S0=[0], R=[(0, 1), (1, 0)], L={0: ['p']})
K.clone()                                  # any earlier clone (every model checker makes one)
K.labels(1).add('q')                       # edit through the handed-out label set
K.S0.add(1)                                # edit the public S0
C = K.clone()
print('K: labels(1) =', K.labels(1), ' S0 =', K.S0)
print('C: labels(1) =', C.labels(1), ' S0 =', C.S0)
assert C.labels(1) == K.labels(1) and C.S0 == K.S0, 'clone() does not have the labels / S0 of the original'
