# demo 4: clone()/get_substructure must carry exactly the (induced) transitions of the structure they are called on (C14).
# The structure is edited with the public, inherited add_edge between two EXISTING states (it stays total and fully labelled).
# run: PYTHONPATH=/root/work/aud_C14/lib /venv/bin/python demo_4.py   (with escape_4.diff applied)
from pyModelChecking.kripke import Kripke
K = Kripke(S=[0, 1], S0=[0], R=[(0, 1), (1, 1)], L={0: ['p']})
print('transitions at construction:', sorted(K.transitions()))
K.add_edge(1, 0)
print('next(1) after add_edge(1,0) :', sorted(K.next(1)))
C = K.clone()
S = K.get_substructure({0, 1})
print('clone transitions           :', sorted(C.transitions()))
assert set(C.transitions()) == {(0, 1), (1, 1), (1, 0)}, 'VIOLATION: clone lost the transition (1,0) (stale cached list)'
assert set(S.transitions()) == {(0, 1), (1, 1), (1, 0)}
print('ok')
