# demo 3: get_substructure(V) must return the induced structure whenever the induced relation is total (C14).
# V = the state set of another structure, i.e. what Kripke.states() itself returns (a set-like dict keys view;
# the unmodified library accepts it because `V & set(...)` is defined for keys views).
# run: PYTHONPATH=/root/work/aud_C14/lib /venv/bin/python demo_3.py   (with escape_3.diff applied)
from pyModelChecking.kripke import Kripke
K = Kripke(S=[0, 1, 2], S0=[0], R=[(0, 1), (1, 1), (2, 0)], L={0: ['p'], 1: ['q']})
core = Kripke(R=[(1, 1), (0, 0)])
V = core.states()                          # states 0 and 1; induced relation on K: (0,1), (1,1) - total
try:
    sub = K.get_substructure(V)
except Exception as e:
    raise AssertionError('VIOLATION: induced relation is total but get_substructure raised %s: %s' % (type(e).__name__, e))
assert set(sub.states()) == {0, 1} and set(sub.transitions()) == {(0, 1), (1, 1)}
assert sub.labels(0) == {'p'} and sub.labels(1) == {'q'} and sub.S0 == {0}
print('ok', sub)
