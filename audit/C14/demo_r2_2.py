# escape 2: labels(state) tests membership in the labelling dict instead of the states.
# On a freshly constructed structure the two key sets coincide; after replace_labelling_function(L)
# (L is installed as is, extra keys included) labels(non-state) answers instead of raising.
# Property C14: labels(s) of a non-state raises RuntimeError.
from pyModelChecking.kripke import Kripke

K = Kripke(S=[0, 1], S0=[0], R=[(0, 1), (1, 0)], L={0: ['p']})
K.replace_labelling_function({0: {'p'}, 1: set(), 7: {'q'}})      # 7 is not a state
assert 7 not in K.states()
try:
    r = K.labels(7)
except RuntimeError as e:
    print('RuntimeError, as the property says')
else:
    raise AssertionError('labels(7) of a non-state returned %r instead of raising RuntimeError' % (r,))
