# demo 2: Kripke(S,S0,R,L) must succeed exactly when the relation is total (C14).
# run: PYTHONPATH=/root/work/aud_C14/lib /venv/bin/python demo_2.py   (with escape_2.diff applied)
from collections import defaultdict, OrderedDict
from pyModelChecking.kripke import Kripke
R = [(0, 1), (1, 0)]                      # total: every state has a successor
L = defaultdict(set)                      # a dict (subclass), the usual way to collect labels incrementally
L[0].add('p')
for lab in (dict(L), L, OrderedDict(L)):
    try:
        K = Kripke(S=[0, 1], S0=[0], R=R, L=lab)
        print(type(lab).__name__, '-> constructed, labels(0) =', K.labels(0), 'labels(1) =', K.labels(1))
    except RuntimeError as e:
        print(type(lab).__name__, '-> RuntimeError:', str(e)[:60])
        raise AssertionError('VIOLATION: total relation, dict labelling, but the constructor raised RuntimeError')
