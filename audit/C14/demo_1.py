# demo 1: get_substructure must keep the labels of the retained states (C14).
# run: PYTHONPATH=/root/work/aud_C14/lib /venv/bin/python demo_1.py   (with escape_1.diff applied)
from pyModelChecking.kripke import Kripke
K = Kripke(S=[0, 1], S0=[0], R=[(0, 1), (1, 1)], L={0: ['ready'], 1: ['done', 'p']})
sub = K.get_substructure({1})
print('original labels(1)     :', sorted(K.labels(1)))
print('substructure labels(1) :', sorted(sub.labels(1)))
assert sub.labels(1) == K.labels(1), 'VIOLATION: labels of a retained state differ (multi-character atoms split into characters)'
print('ok')
