# escape 3: the constructor no longer copies label values that already are sets; the private copy is made
# lazily, when the labelling of the new structure is first read.  get_substructure hands the original's own
# label sets to the constructor, so until somebody reads the sub-structure's labels it aliases the original.
# Property C14: get_substructure returns the same labels on the retained states, no label set shared.
from pyModelChecking.kripke import Kripke

K = Kripke(S=[0, 1], S0=[0], R=[(0, 1), (1, 0)], L={0: ['p'], 1: ['q']})
before = {s: set(K.labels(s)) for s in K.states()}
Sub = K.get_substructure({0, 1})           # taken now ...
K.labels(0).add('later')                   # ... the original is edited afterwards (as CTLS.modelcheck does)
after = {s: set(Sub.labels(s)) for s in Sub.states()}
print('labels of K when the sub-structure was taken:', before)
print('labels of the sub-structure                 :', after)
assert after == before, 'the sub-structure follows later edits of the original: its label sets were shared'
