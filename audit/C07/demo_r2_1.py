# escape 1: CTL.modelcheck caches the fairness translation per formula and forgets that it depends on the FRESH fairness
# label, which is 'fair' on most structures but 'fair0' on a structure where the caller already uses an atom called 'fair'
# run: PYTHONPATH=<lib> python demo_1.py
from pyModelChecking import Kripke, CTL

# same shape twice: a cycle 0 <-> 1 (with self loops), an exit 0 -> 2 and a sink 2; p holds in 0 and 1
R = [(0, 0), (0, 1), (1, 0), (1, 1), (2, 2), (0, 2)]
K1 = Kripke(S=[0, 1, 2], R=R, L={0: {'p'}, 1: {'p'}, 2: set()})
K2 = Kripke(S=[0, 1, 2], R=R, L={0: {'p'}, 1: {'p'}, 2: {'fair'}})   # the caller's own atom 'fair', on the sink only
f = CTL.E(CTL.G(CTL.AtomicProposition('p')))
F = [{0}]                                     # fair paths visit 0 infinitely often: they stay in the cycle, where p holds

r1 = CTL.modelcheck(K1, f, F=F)               # {0, 1}
r2 = CTL.modelcheck(K2, f, F=F)               # the caller's atom 'fair' is not mentioned by f: must be {0, 1} as well
r2_rev = CTL.modelcheck(K2, CTL.E(CTL.G(CTL.Not(CTL.Not('p')))), F=F)   # an equivalent formula that was never seen before
print('K1:', r1, ' K2 after K1:', r2, ' K2, equivalent unseen formula:', r2_rev)
assert r1 == {0, 1} and r2_rev == {0, 1}
assert r2 == {0, 1}, 'VIOLATION: CTL.modelcheck(K2, E G p, F=[{0}]) = %s because an earlier call on K1 used the same formula' % r2
print('pure')
