# C07: the result of modelcheck must depend only on its arguments (the structure AS IT IS NOW and the formula).
# Run: PYTHONPATH=/root/work/aud_C07/lib python demo_1.py   (apply escape_1.diff to the lib copy first)
from pyModelChecking import Kripke, CTL

def build(R):
    return Kripke(S=[0, 1], S0=[0], R=R, L={1: ['p']})

K = build([(0, 0), (1, 1)])
first = CTL.modelcheck(K, 'E X p')          # {1}: only state 1 has a p-successor
K.add_edge(0, 1)                            # the caller edits the structure (public, inherited DiGraph.add_edge)
again = CTL.modelcheck(K, 'E X p')          # same arguments as a call on the fresh equal structure below
fresh = CTL.modelcheck(build([(0, 0), (0, 1), (1, 1)]), 'E X p')
print('before edit', first, '| after edit', again, '| fresh equal structure', fresh)
assert sorted(K.transitions()) == sorted(build([(0, 0), (0, 1), (1, 1)]).transitions())
assert fresh == {0, 1}
assert again == fresh, 'VIOLATION: result depends on the call history (stale per-structure cache), not on the arguments'
print('pure')
