# escape 2: LTL.modelcheck keeps the fairness rewriting of a formula in a module-level table keyed by (formula, fairness label);
# formulas are compared by printed form, so a later look-alike formula inherits the entry of an earlier one
# run: PYTHONPATH=<lib> python demo_2.py
from pyModelChecking import Kripke, LTL

R = [(0, 0), (0, 1), (1, 0), (1, 1)]
K = Kripke(S=[0, 1], R=R, L={0: {'p'}, 1: {'p'}})           # p everywhere; no state carries an atom called '(p or q)'
F = [{0}]                                                    # every state starts a fair path
f1 = LTL.A(LTL.G(LTL.Or('p', 'q')))                          # A G (p or q): p holds everywhere, so it holds in 0 and 1
f2 = LTL.A(LTL.G(LTL.AtomicProposition('(p or q)')))         # A G <atom named '(p or q)'>: that atom holds nowhere -> set()
assert str(f1) == str(f2)

alone = LTL.modelcheck(Kripke(S=[0, 1], R=R, L={0: {'p'}, 1: {'p'}}), f1)   # no fairness: the table is not involved
r2 = LTL.modelcheck(K, f2, F=F)                              # another formula first ...
r1 = LTL.modelcheck(K, f1, F=F)                              # ... then f1 with fairness
print('f2:', r2, ' f1 after f2:', r1, ' (f1 without F:', alone, ')')
assert r2 == set()
assert r1 == {0, 1}, 'VIOLATION: LTL.modelcheck(K, A G (p or q), F=[{0}]) = %s after a call with a look-alike formula; p holds in every state' % r1
print('pure')
