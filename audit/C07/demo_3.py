# C07: the result of modelcheck must depend only on its arguments, not on structures checked (and discarded) earlier.
# Run: PYTHONPATH=/root/work/aud_C07/lib python demo_3.py   (apply escape_3.diff to the lib copy first)
from pyModelChecking import Kripke, CTL

def check(R):
    K = Kripke(S=[0, 1], S0=[0], R=R, L={1: ['p']})      # a short-lived structure, as in a loop over candidate designs
    return CTL.modelcheck(K, 'E X p')

designs = [[(0, 0), (1, 1)], [(0, 1), (1, 1)], [(0, 0), (1, 0)], [(0, 1), (1, 0)]]
expected = [{1}, {0, 1}, set(), {0}]                      # by hand: states with a successor labelled p
in_a_loop = [check(R) for R in designs]                   # every structure is garbage before the next one is built
print('in a loop :', in_a_loop)
print('expected  :', expected)
assert in_a_loop == expected, 'VIOLATION: answers depend on earlier calls on OTHER (dead) structures: cache keyed by id()'
print('pure')
