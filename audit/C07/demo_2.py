# C07: interleaving a call with other calls must not change its answer.
# Run: PYTHONPATH=/root/work/aud_C07/lib python demo_2.py   (apply escape_2.diff to the lib copy first)
from pyModelChecking import Kripke, CTL
from pyModelChecking.CTL import AtomicProposition as AP, Or, AG

def build():
    return Kripke(S=[0], S0=[0], R=[(0, 0)], L={0: ['p']})

f1 = AG(Or('p', 'q'))                 # true in 0
f2 = AG(AP('(p or q)'))               # another formula (one atom, which labels no state): false in 0
alone = CTL.modelcheck(build(), f2)   # the answer of the call on its own
K = build()
CTL.modelcheck(K, f1)                 # an unrelated earlier call on the same structure
after = CTL.modelcheck(K, f2)         # same arguments as `alone`
snapshot_ok = (sorted(K.transitions()), K.labelling_function()) == ([(0, 0)], {0: {'p'}})
print('alone', alone, '| after another call', after, '| structure untouched:', snapshot_ok)
assert alone == set()
assert after == alone, 'VIOLATION: the answer depends on an earlier call (memo table kept per structure across calls)'
print('pure')
