# demo 4: get_subgraph(X) fails when the node collection X names a node twice (a list is a legal 'collection of nodes';
# the original accepts it).  run: PYTHONPATH=/root/work/aud_C13/lib /venv/bin/python demo_4.py
from pyModelChecking.graph import DiGraph

G = DiGraph(V=[0, 1, 2], E=[(0, 1), (1, 2), (2, 0)])
X = [0, 1, 0]                                   # e.g. the concatenation of two result lists
Xs = set(X) & set(G.nodes())
want = (sorted(Xs), sorted((s, d) for (s, d) in G.edges() if s in Xs and d in Xs))   # ([0,1], [(0,1)])
print('get_subgraph([0, 1])    :', sorted(G.get_subgraph([0, 1]).edges()))
try:
    S = G.get_subgraph(X)
    got = (sorted(S.nodes()), sorted(S.edges()))
except Exception as e:
    got = 'raised %s: %s' % (type(e).__name__, e)
print('get_subgraph([0, 1, 0]) :', got)
print('expected                :', want)
assert got == want, 'PROPERTY VIOLATED: get_subgraph(X) is not the subgraph induced by X'
