# demo 2: get_subgraph(X) silently loses every edge when X is a one-shot iterable (a generator expression, filter(),
# map(), iter(..) or the library's own G.sources(), which IS a generator): X is walked twice.
# The original reads X once (set(nodes)) and is exact for these arguments.
# run: PYTHONPATH=/root/work/aud_C13/lib /venv/bin/python demo_2.py
from pyModelChecking.graph import DiGraph

G = DiGraph(V=[0, 1, 2, 3], E=[(0, 1), (1, 2), (2, 0), (2, 3)])
before = (sorted(G.nodes()), sorted(G.edges()))


def induced(X):
    Xs = set(X) & set(G.nodes())
    return (sorted(Xs), sorted((s, d) for (s, d) in G.edges() if s in Xs and d in Xs))


bad = []
for what, mk in (('list [0, 1, 2]', lambda: [0, 1, 2]),
                 ('generator (v for v in G.nodes() if v != 3)', lambda: (v for v in G.nodes() if v != 3)),
                 ('filter(lambda v: v != 3, G.nodes())', lambda: filter(lambda v: v != 3, G.nodes())),
                 ('G.sources()  [the nodes with a successor]', lambda: G.sources())):
    S = G.get_subgraph(mk())
    got, want = (sorted(S.nodes()), sorted(S.edges())), induced(mk())
    print('%-48s nodes %s edges %s%s' % (what, got[0], got[1], '' if got == want else '   <-- expected edges %s' % want[1]))
    if got != want:
        bad.append(what)
assert (sorted(G.nodes()), sorted(G.edges())) == before
assert not bad, 'PROPERTY VIOLATED: get_subgraph(X) misses edges of G with both ends in X, for X = %s' % bad
