# demo 1: clone() is not "equal" to G - the clone forgets the predecessor map, so reversing a clone fails / is wrong
# run: PYTHONPATH=/root/work/aud_C13/lib /venv/bin/python demo_1.py
from pyModelChecking.graph import DiGraph

G = DiGraph(V=[0, 1, 2], E=[(0, 1), (1, 2)])
expected = sorted((d, s) for (s, d) in G.edges())           # flipped edges of G: [(1,0),(2,1)]
print('reversed(G) edges      :', sorted(G.get_reversed_graph().edges()), 'expected', expected)
C = G.clone()
print('clone has G\'s edges    :', sorted(C.edges()) == sorted(G.edges()))
try:
    got = sorted(C.get_reversed_graph().edges())
except Exception as e:
    got = 'raised %s: %r' % (type(e).__name__, e)
print('reversed(clone) edges  :', got)
# a clone edited through the public API and then reversed loses every copied edge
C2 = G.clone()
try:
    C2.add_edge(2, 0)
    got2 = sorted(C2.get_reversed_graph().edges())
except Exception as e:
    got2 = 'raised %s: %r' % (type(e).__name__, e)
print('reversed(clone+(2,0))  :', got2, 'expected', sorted(expected + [(0, 2)]))
assert got == expected, 'PROPERTY VIOLATED: clone() is not equal to G (its reversal differs)'
