# demo 2: clone() is not independent - the clone shares G's reachability memo, so a question asked on the
# (edited) clone changes what G answers.  run: PYTHONPATH=/root/work/aud_C13/lib /venv/bin/python demo_2.py
from pyModelChecking.graph import DiGraph

G = DiGraph(V=[0, 1, 2], E=[(0, 1)])            # 2 is NOT reachable from 0
truth = {0, 1}
print('G.reach([0]) before      :', sorted(G.get_reachable_set_from([0])))
C = G.clone()
C.add_edge(1, 2)                                  # edit the clone only (public API)
print('C.reach([0]) (edited)    :', sorted(C.get_reachable_set_from([0])))
print('G edges (unchanged)      :', sorted(G.edges()))
got = G.get_reachable_set_from([0])
print('G.reach([0]) afterwards  :', sorted(got), 'expected', sorted(truth))
assert got == truth, 'PROPERTY VIOLATED: reach on G is not exact after the clone was used (clone not independent)'
