# demo 3: on a graph with more than ~16 times as many nodes as requested, get_subgraph(X) drops every requested node
# that keeps no edge (the "few nodes" shortcut builds the result from the edges alone).
# run: PYTHONPATH=/root/work/aud_C13/lib /venv/bin/python demo_3.py
from pyModelChecking.graph import DiGraph

n = 64
G = DiGraph(V=range(n), E=[(i, (i + 1) % n) for i in range(n)] + [(5, 5)])     # a ring of 64 nodes, one self-loop
X = [5, 6, 20]
Xs = set(X) & set(G.nodes())
want = (sorted(Xs), sorted((s, d) for (s, d) in G.edges() if s in Xs and d in Xs))   # ([5, 6, 20], [(5, 5), (5, 6)])
S = G.get_subgraph(X)
got = (sorted(S.nodes()), sorted(S.edges()))
print('get_subgraph(%s) on a ring of %d nodes: nodes %s edges %s' % (X, n, got[0], got[1]))
print('expected                                  : nodes %s edges %s' % want)
small = DiGraph(V=range(12), E=[(i, (i + 1) % 12) for i in range(12)]).get_subgraph([3])
print('same call on a ring of 12 nodes, X=[3]    : nodes %s (right: the shortcut is not taken)' % sorted(small.nodes()))
assert got == want, 'PROPERTY VIOLATED: the nodes of get_subgraph(X) are not X intersect V'
