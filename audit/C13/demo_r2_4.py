# demo 4: clone() of a directed graph that is an instance of a class DERIVED from DiGraph fails as soon as the derived
# constructor needs an argument - e.g. the library's own tableau graph (LTL/model_checking.py, class _Tableu(DiGraph)).
# The original returns a DiGraph that is equal to G and independent of it.
# run: PYTHONPATH=/root/work/aud_C13/lib /venv/bin/python demo_4.py
from pyModelChecking.graph import DiGraph
from pyModelChecking.kripke import Kripke
from pyModelChecking.LTL.model_checking import _Tableu
from pyModelChecking import CTLS


class RoadMap(DiGraph):
    def __init__(self, name, V=None, E=None):
        super(RoadMap, self).__init__(V, E)
        self.name = name


K = Kripke(S=[0, 1], S0=[0], R=[(0, 1), (1, 0), (1, 1)], L={0: ['p'], 1: []})
graphs = [('DiGraph', DiGraph(V=[0, 1, 2], E=[(0, 1), (1, 2)])),
          ('RoadMap(DiGraph)', RoadMap('north', V=[0, 1, 2], E=[(0, 1), (1, 2)])),
          ('_Tableu(DiGraph) of the library', _Tableu(K, formula=CTLS.X(CTLS.AtomicProposition('p'))))]
bad = []
for what, G in graphs:
    want = (sorted(G.nodes()), sorted(G.edges()))
    try:
        C = G.clone()
        got = (sorted(C.nodes()), sorted(C.edges()))
        C.add_edge(('fresh', 0), ('fresh', 1))                      # independent
        ok = got == want and (sorted(G.nodes()), sorted(G.edges())) == want
    except Exception as e:
        got, ok = 'raised %s: %s' % (type(e).__name__, e), False
    print('%-32s clone(): %s' % (what, got if not ok else 'equal to G, independent'))
    if not ok:
        bad.append(what)
assert not bad, 'PROPERTY VIOLATED: clone() is not an equal, independent copy for G of class %s' % bad
