# demo 5: get_reachable_set_from remembers its answers under a key made of the str() of the nodes: two different node
# sets whose members print alike (1 and '1'; 'a b' and 'a','b') get each other's answer.
# run: PYTHONPATH=/root/work/aud_C13/lib /venv/bin/python demo_5.py
from pyModelChecking.graph import DiGraph

G = DiGraph(V=[1, '1', 2, 3], E=[(1, 2), ('1', 3)])          # 1 -> 2   and   '1' -> 3


def truth(X):
    R, todo = set(X), list(X)
    while todo:
        for d in G.next(todo.pop()):
            if d not in R:
                R.add(d)
                todo.append(d)
    return R


bad = []
for X in ([1], ['1']):
    got = G.get_reachable_set_from(X)
    print('get_reachable_set_from(%r) = %r   expected %r' % (X, got, truth(X)))
    if got != truth(X):
        bad.append(X)
assert not bad, 'PROPERTY VIOLATED: reach(X) is not X plus the nodes reachable from X for X = %s' % bad
