# demo 3: the set returned by get_reachable_set_from is the graph's reused work set: a LATER call rewrites the
# result the caller already holds.  run: PYTHONPATH=/root/work/aud_C13/lib /venv/bin/python demo_3.py
from pyModelChecking.graph import DiGraph

G = DiGraph(V=[0, 1, 2, 3], E=[(0, 1), (2, 3)])
r0 = G.get_reachable_set_from([0])
print('reach([0])                 :', sorted(r0))             # [0, 1]  (right at this moment)
r2 = G.get_reachable_set_from([2])
print('reach([2])                 :', sorted(r2))             # [2, 3]
print('reach([0]) held by caller  :', sorted(r0), 'expected [0, 1]')
print('same object                :', r0 is r2)
# the usual EU/EG-style composition  reach(X) | reach(Y)  computed from two results is wrong:
print('union of the two results   :', sorted(r0 | r2), 'expected [0, 1, 2, 3]')
assert r0 == {0, 1}, 'PROPERTY VIOLATED: the value returned for X=[0] is no longer X plus the nodes reachable from X'
