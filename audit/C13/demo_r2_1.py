# demo 1: get_reachable_set_from(X) fails for node collections that are not list/tuple/set/frozenset
# (a dict keys view such as G.nodes() itself, a range, a deque, a dict): X is taken for ONE node.
# run: PYTHONPATH=/root/work/aud_C13/lib /venv/bin/python demo_1.py
import collections
from pyModelChecking.graph import DiGraph

G = DiGraph(V=[0, 1, 2, 3], E=[(0, 1), (1, 2)])
truth = {0, 1, 2}                                   # X = {0, 1} plus everything reachable from it
print('list  [0, 1]          :', sorted(G.get_reachable_set_from([0, 1])))
bad = []
for what, X in (('range(2)', range(2)), ('deque([0, 1])', collections.deque([0, 1])),
                ('dict {0:.., 1:..}', {0: 'a', 1: 'b'}), ('keys view of a dict', {0: 'a', 1: 'b'}.keys()),
                ('G.get_subgraph([0, 1]).nodes()', G.get_subgraph([0, 1]).nodes())):
    try:
        got = G.get_reachable_set_from(X)
    except Exception as e:
        got = 'raised %s: %s' % (type(e).__name__, str(e)[:60])
    print('%-30s: %s' % (what, sorted(got) if isinstance(got, set) else got))
    if got != truth:
        bad.append(what)
print('G.nodes() as X (all nodes)    :', end=' ')
try:
    print(sorted(G.get_reachable_set_from(G.nodes())))
except Exception as e:
    bad.append('G.nodes()')
    print('raised %s' % type(e).__name__)
assert not bad, 'PROPERTY VIOLATED: reach(X) is not X plus the nodes reachable from X for X given as %s' % bad
