# demo_3: a structure whose labels happen to contain a bracketed name (e.g. states pre-labelled by an earlier analysis).
# CTL.modelcheck, LTL.modelcheck and CTLS.modelcheck must agree on 'A G p' / 'E G p' (C04: agreement).
from pyModelChecking import Kripke
import pyModelChecking.CTL as CTL, pyModelChecking.LTL as LTL, pyModelChecking.CTLS as CTLS

# two isolated self-loops; p holds at 0 only; state 1 carries a label that looks like the name CTL* invents
K = Kripke(S=[0, 1], R=[(0, 0), (1, 1)], L={0: ['p'], 1: ['[E(G(p))]', '[A(G(p))]']})
ok = True
for text in ('E G p', 'A G p'):
    c, s = CTL.modelcheck(K, text), CTLS.modelcheck(K, text)
    l = LTL.modelcheck(K, text) if text[0] == 'A' else None
    print('%-6s CTL: %s  CTLS: %s  LTL: %s   (truth: {0})' % (text, c, s, l))
    ok &= c == s == {0} and l in (None, {0})
n = CTLS.modelcheck(K, 'not E G p')
print('CTLS not E G p:', n, ' (complement of CTLS E G p expected, i.e. {1})')
ok &= n == {1}
print('PROPERTY HOLDS' if ok else 'VIOLATION: CTL* disagrees with CTL / LTL')
raise SystemExit(0 if ok else 1)
