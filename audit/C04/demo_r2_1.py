"""C04: 'and' is intersection (also of ONE operand), modelcheck(not f) is the complement, and the three checkers agree.
And(f) with a single operand is accepted by every language module (the n-ary constructor) and means f."""
from pyModelChecking import Kripke
import pyModelChecking.CTL as CTL, pyModelChecking.CTLS as CTLS, pyModelChecking.LTL as LTL

K = Kripke(S=[0, 1], R=[(0, 1), (1, 1)], L={0: ['p'], 1: []})
S = set(K.states())
for name, M, f, conj in (('CTL', CTL, CTL.EX('p'), CTL.And(CTL.EX('p'))),
                         ('CTLS', CTLS, CTLS.E(CTLS.X('p')), CTLS.And(CTLS.E(CTLS.X('p')))),
                         ('CTL p', CTL, CTL.AtomicProposition('p'), CTL.And('p'))):
    rf, rc = M.modelcheck(K, f), M.modelcheck(K, conj)
    print('%-5s f=%s -> %s   And(f)=%s -> %s' % (name, f, rf, conj, rc))
    assert rc == rf, 'VIOLATION: modelcheck(And(f)) is not the intersection of [modelcheck(f)] (it is the complement)'
g, cg = LTL.A(LTL.G('p')), LTL.A(LTL.And(LTL.G('p')))
K2 = Kripke(S=[0, 1], R=[(0, 0), (1, 0)], L={0: ['p'], 1: []})
assert LTL.modelcheck(K2, cg) == LTL.modelcheck(K2, g) == CTL.modelcheck(K2, CTL.AG(CTL.And('p'))), 'VIOLATION (LTL)'
print('ok')
