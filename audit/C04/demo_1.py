# demo_1: the same formula OBJECT evaluated by two checkers (CTL* first, then CTL): the answers must be equal (C04: agreement).
# Run with PYTHONPATH=<lib copy>.
import io, contextlib
from pyModelChecking import Kripke
import pyModelChecking.CTL as CTL, pyModelChecking.CTLS as CTLS

K = Kripke(S=[0, 1], R=[(0, 1), (1, 1)], L={0: ['p'], 1: []})
mk = lambda: CTL.Not(CTL.EX(CTL.Not('p')))        # = AX p ; state 1 -> 1 and 1 has no p: nobody satisfies it
f = mk()
print('formula before        :', f)
truth = CTL.modelcheck(K, mk())                   # fresh object: set()
a = CTLS.modelcheck(K, f)                         # CTL* entry point on object f
print('formula after CTLS run:', f)               # with the patch: not [E(X(not p))]  (caller's object was rewritten)
b = CTL.modelcheck(K, f)                          # SAME object through the CTL entry point
c = CTLS.modelcheck(K, f)                         # and CTL* again
print('CTL fresh  :', truth, ' CTLS(f):', a, ' then CTL(f):', b, ' then CTLS(f):', c)
ok = (a == b == c == truth) and str(f) == str(mk())
print('PROPERTY HOLDS' if ok else 'VIOLATION: one formula object, three different answers / the object was modified')
raise SystemExit(0 if ok else 1)
