# demo_2: several queries on ONE Kripke object.  (a) the caller consumes a result set; (b) the caller edits K between two queries.
# In both cases the three checkers must still agree on the CURRENT K and 'not' must be the complement (C04).
from pyModelChecking import Kripke
import pyModelChecking.CTL as CTL, pyModelChecking.LTL as LTL, pyModelChecking.CTLS as CTLS

ok = True
# (a) results belong to the caller
K = Kripke(S=[0, 1], R=[(0, 1), (1, 0)], L={0: ['p'], 1: []})
r = CTL.modelcheck(K, 'E F p')                   # {0, 1}
r.clear()                                        # caller reuses its own result set
n = CTL.modelcheck(K, 'not E F p')               # must be states - {0,1} = set()
print('(a) CTL not EF p =', n, '  CTLS:', CTLS.modelcheck(K, 'not E F p'))
ok &= n == set() == CTLS.modelcheck(K, 'not E F p')
# (b) K edited between two queries
K = Kripke(S=[0, 1], R=[(0, 1), (1, 1)], L={0: ['p'], 1: []})
first = CTL.modelcheck(K, 'A G p')               # set(): state 1 has no p
K.labels(1).add('p')                             # legal edit: now p holds everywhere
c, l, s = CTL.modelcheck(K, 'A G p'), LTL.modelcheck(K, 'A G p'), CTLS.modelcheck(K, 'A G p')
print('(b) after the edit  CTL:', c, ' LTL:', l, ' CTLS:', s)
ok &= c == l == s == {0, 1}
print('PROPERTY HOLDS' if ok else 'VIOLATION: checkers disagree on the same K / not is no complement')
raise SystemExit(0 if ok else 1)
