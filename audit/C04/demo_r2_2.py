"""C04: modelcheck(f and g) = modelcheck(f) & modelcheck(g).  The library documents '&', '|', '~' on formulas, with raw
strings / bools as shorthand for atoms / constants: 'p' & g is the conjunction And('p', g) (Formula.__rand__)."""
from pyModelChecking import Kripke
import pyModelChecking.CTL as CTL, pyModelChecking.CTLS as CTLS

K = Kripke(S=[0, 1, 2], R=[(0, 1), (1, 2), (2, 2)], L={0: ['p'], 1: ['p', 'q'], 2: ['q']})
for M, g in ((CTL, CTL.EX('q')), (CTLS, CTLS.E(CTLS.X('q')))):
    conj = 'p' & g                        # str.__and__ does not exist -> g.__rand__('p')
    rp, rg, rc = M.modelcheck(K, 'p'), M.modelcheck(K, g), M.modelcheck(K, conj)
    print(M.__name__, 'p:', rp, ' g:', rg, " 'p' & g =", conj, ':', rc, ' And(p, g):', M.modelcheck(K, M.And('p', g)))
    assert rc == rp & rg, "VIOLATION: modelcheck('p' & g) is not the intersection"
    assert M.modelcheck(K, True & g) == rg, 'VIOLATION: true and g'
print('ok')
