"""C04: CTL.modelcheck and CTLS.modelcheck must return the same set for a formula of both logics.
States are objects hashed by identity (a plain class instance is a legal, hashable state)."""
from pyModelChecking import Kripke
import pyModelChecking.CTL as CTL, pyModelChecking.CTLS as CTLS, pyModelChecking.LTL as LTL


class Node(object):                      # default __eq__/__hash__: identity
    def __init__(self, name): self.name = name
    def __repr__(self): return self.name


a, b = Node('a'), Node('b')
K = Kripke(S=[a, b], R=[(a, b), (b, b)], L={a: ['p'], b: []})
f = 'A G (p or not p)'                   # holds everywhere; a formula of CTL, LTL and CTL*
r_ctl, r_ltl, r_ctls = CTL.modelcheck(K, f), LTL.modelcheck(K, f), CTLS.modelcheck(K, 'A(G(p or not p))')
print('CTL ', r_ctl, ' LTL ', r_ltl, ' CTLS', r_ctls)
print('CTLS result consists of states of K:', r_ctls <= set(K.states()))
assert r_ctl == r_ltl == set(K.states())
assert r_ctls == r_ctl, 'VIOLATION: CTLS.modelcheck returns a different set (copies of the states, not the states of K)'
print('ok')
