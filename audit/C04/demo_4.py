# demo_4: atom names with a digit / underscore (legal identifiers of the documented grammar).  Text and object must give the same
# set, and CTL and CTL* must agree on the same text (C04: text = object, agreement).
from pyModelChecking import Kripke
import pyModelChecking.CTL as CTL, pyModelChecking.CTLS as CTLS

K = Kripke(S=[0, 1], R=[(0, 1), (1, 1)], L={0: ['req_1'], 1: ['req_1', 'ack2']})
ok = True
for text, obj in (('A G req_1', CTL.AG('req_1')), ('E F ack2', CTL.EF('ack2')), ('not ack2', CTL.Not('ack2'))):
    o = CTL.modelcheck(K, obj)
    s = CTLS.modelcheck(K, text)
    try:
        t = CTL.modelcheck(K, text)
    except Exception as e:
        t = 'raises ' + type(e).__name__
    print('%-10s CTL object: %s  CTL text: %s  CTLS text: %s' % (text, o, t, s))
    ok &= (o == t == s)
print('PROPERTY HOLDS' if ok else 'VIOLATION: text and object differ / CTL and CTL* differ on the same text')
raise SystemExit(0 if ok else 1)
