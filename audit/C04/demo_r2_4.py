"""C04: A F p is a formula of CTL, LTL and CTL*: the three modelcheck functions return the same set on EVERY structure,
also on one with 1500 states (a chain 0 -> 1 -> ... -> 1499 -> 1499, p on the last state)."""
from pyModelChecking import Kripke
import pyModelChecking.CTL as CTL, pyModelChecking.CTLS as CTLS, pyModelChecking.LTL as LTL

n = 1500
K = Kripke(S=list(range(n)), R=[(i, i + 1) for i in range(n - 1)] + [(n - 1, n - 1)], L={n - 1: ['p']})
res = {}
for name, M, f in (('CTL', CTL, 'A F p'), ('CTLS', CTLS, 'A F p'), ('LTL', LTL, 'A F p'), ('CTL EF', CTL, 'E F p')):
    try:
        res[name] = len(M.modelcheck(K, f))
    except Exception as e:              # noqa
        res[name] = type(e).__name__
print(res)                               # every state satisfies A F p (and E F p)
assert res == {'CTL': n, 'CTLS': n, 'LTL': n, 'CTL EF': n}, 'VIOLATION: the checkers do not return the same set'
print('ok')
