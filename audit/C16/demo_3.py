# demo_3: in-place operators added "for efficiency": `f &= g` now rewrites f.root instead of rebinding the name,
# so an OBDD obtained by PARSING 'a' silently becomes another function for every holder of that object.
# run: PYTHONPATH=/root/work/aud_C16/lib /venv/bin/python demo_3.py
from pyModelChecking.BDD import OBDD
O = ['a', 'b']
pa = OBDD('a', O)                 # obtained by parsing 'a'
table = {'pa': pa}                # somebody else keeps it (a cache, a list of sub-results, ...)
acc = pa                          # the usual accumulation idiom
acc &= OBDD('b', O)               # before the change: acc is rebound to a NEW OBDD, pa untouched
kept = table['pa']
print('kept (parsed from "a") prints as:', kept)
print('kept == OBDD("a")      :', kept == OBDD('a', O), ' (must be True)')
print('kept == OBDD("a & b")  :', kept == OBDD('a & b', O), ' (must be False)')
assert kept == OBDD('a', O), 'C16 violated: the OBDD parsed from "a" no longer equals a fresh parse of "a"'
