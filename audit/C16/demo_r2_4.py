# escape 4: OBDD made hashable, but the hash depends on the identity of the ordering object: equal OBDDs hash differently
from pyModelChecking.BDD import OBDD
O = ['a', 'b']
f, g = OBDD('a & b', O), OBDD('~(~a | ~b)', O)      # same function, same ordering, built independently
h = f & f                                           # derived from f: shares f's ordering object
print('f == g:', f == g, '| root identical:', f.root is g.root)
print('hash(f) == hash(h):', hash(f) == hash(h), '| hash(f) == hash(g):', hash(f) == hash(g))
seen = {f}
print('g in [f]:', g in [f], '| g in {f}:', g in seen, '| len({f, g, h}) =', len({f, g, h}))
assert f == g and hash(f) == hash(g) and g in seen, 'VIOLATION: equal OBDDs are distinct members of a set / distinct dict keys'
