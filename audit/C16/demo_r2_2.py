# escape 2: find_isomorph iterates WeakSet.data directly; a garbage collection that runs DURING the lookup
# (automatic collection is on by default in every Python process) frees nodes of a dropped OBDD -> the set changes size
import gc
from pyModelChecking.BDD import OBDD
O = ['a', 'b', 'c', 'd']
fs = ['a&b', 'a&c', 'a&d', 'a&b&c', 'a&(b|c)', 'a&(c|d)', 'a&~b', 'a&~c&d', 'a&(b|~d)', 'a&b&~d']
assert gc.isenabled()       # the automatic collector is on, as in every ordinary Python process (the check's worker turns it off)
gc.set_threshold(101)       # public tuning knob; the failure needs a collection to START inside a lookup: phase dependent (101, 703 fail at once; 700 did not in 20000 rounds of THIS loop)
keep = OBDD('a & b & c & d', O)
for round in range(300):
    # dropped OBDDs that sit in a reference cycle (e.g. objects of an application that refer to one another):
    # only the cyclic collector frees them, whenever it happens to run
    try:
        for f in fs:
            cell = [OBDD(f, O)]
            cell.append(cell)
        del cell
        x = OBDD('(a | b) & (c | d)', O) ^ OBDD('a & d | b & c', O)
    except RuntimeError as e:
        print('round %d: VIOLATION: parsing / ^ of OBDDs raised RuntimeError: %s' % (round, e))
        raise SystemExit(1)
    assert x == OBDD('((a | b) & (c | d)) & ~(a & d | b & c) | ~((a | b) & (c | d)) & (a & d | b & c)', O)
print('no failure in 300 rounds')
