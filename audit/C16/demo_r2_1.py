# escape 1: with > 16 parents on both children the "intersection" lookup of find_isomorph forgets the variable
import itertools
from pyModelChecking.BDD import OBDD
O = ['a', 'b', 'c', 'd']
def tt(o):                       # truth table from first principles: walk the diagram
    out = ''
    for bits in itertools.product([0, 1], repeat=4):
        env, n = dict(zip(O, bits)), o.root
        while hasattr(n, 'var'):
            n = n.high if env[n.var] else n.low
        out += '1' if n.value else '0'
    return out
# a pool of 32 live OBDDs over 4 variables (the quick tier never has more than 15 parents on a terminal)
fs = ['b', 'c', '~b', '~c', 'b&c', 'b&~c', '~b&c', '~b&~c', 'b|c', 'b|~c', '~b|c', '~b|~c', 'b&c|~b&~c', 'b&~c|~b&c']
pool = [OBDD('a & (%s)' % f, O) for f in fs] + [OBDD('a | (%s)' % f, O) for f in fs] + [OBDD('a', O), OBDD('~a', O)]
pool += [OBDD('(%s) & b' % f, ['c', 'b', 'a', 'd']) for f in ['c', '~c']]      # any other ordering may be alive too
c = OBDD('c', O)
d = OBDD('d', O)                 # (d, 0, 1) is looked up: the intersection holds (c, 0, 1) [and (b,0,1)...]
print('tt(c) =', tt(c)); print('tt(d) =', tt(d), ' expected 0101010101010101')
print('c == d:', c == d, ' root identical:', c.root is d.root, ' d.root.var =', d.root.var)
assert tt(d) == '01' * 8, 'VIOLATION: OBDD("d") does not denote d'
