# demo_2: OBDD gets an explicit __ne__ (as Ordering already has) with a De Morgan slip: `and` instead of `or`.
# `==` is untouched, but `!=` answers False for two different functions under one ordering.
# run: PYTHONPATH=/root/work/aud_C16/lib /venv/bin/python demo_2.py
from pyModelChecking.BDD import OBDD
O = ['a', 'b']
x, y = OBDD('a & b', O), OBDD('a | b', O)      # different functions (they differ at a=1,b=0)
z = OBDD('~(~a | ~b)', O)                      # the same function as x
print('x == y:', x == y, '  x != y:', x != y, '  roots identical:', x.root is y.root)
print('x == z:', x == z, '  x != z:', x != z, '  roots identical:', x.root is z.root)
assert (x == z) and not (x != z)
assert not (x == y)
assert x != y, 'C16 violated: "a & b" and "a | b" are neither == nor != (compare as not-different although the functions differ)'
