# demo_4: a module-level weak cache of parsed roots keyed by the expression TEXT only (the ordering is not in the key).
# While an OBDD of 'a & b' under [a,b] is alive, parsing the same text under [b,a] hands back the diagram ordered a<b.
# run: PYTHONPATH=/root/work/aud_C16/lib /venv/bin/python demo_4.py
from pyModelChecking.BDD import OBDD
O1, O2 = ['a', 'b', 'c'], ['c', 'b', 'a']
keep = OBDD('a & b | c', O1)                 # stays alive: the cache entry stays
x = OBDD('a & b | c', O2)                    # same text, other ordering  -> served from the cache
y = OBDD('c | b & a', O2)                    # same function, same ordering O2, other spelling -> really built
def tt(o):
    out = ''
    for m in range(8):
        env = {'a': m & 1, 'b': (m >> 1) & 1, 'c': (m >> 2) & 1}
        n = o.root
        while hasattr(n, 'var'):
            n = n.high if env[n.var] else n.low
        out += '1' if n.value else '0'
    return out
print('x:', x, ' tt', tt(x), ' top variable', x.root.var)
print('y:', y, ' tt', tt(y), ' top variable', y.root.var)
print('same function:', tt(x) == tt(y), '  x == y:', x == y, '  same root:', x.root is y.root)
assert tt(x) == tt(y)
assert x == y, 'C16 violated: one ordering, one function, two different diagrams (x is not even ordered by [c,b,a])'
