# escape 3: OBDD == 0 answers True for every non-constant function
from pyModelChecking.BDD import OBDD
O = ['a', 'b']
f = OBDD('a & b', O)
zero, one = OBDD('0', O), OBDD('1', O)
# first principles: f is 1 at a=b=1, so it is not the constant 0
n = f.root
for v in (1, 1):
    n = n.high if v else n.low
print('f(1,1) =', n.value, '| f == OBDD("0"):', f == zero, '| f == 0:', f == 0, '| f == False:', f == False)
print('f == 1:', f == 1, '| zero == 0:', zero == 0, '| one == 1:', one == 1)
assert (f == 0) is False and (f == zero) is False, 'VIOLATION: a satisfiable function compares equal to the constant 0'
