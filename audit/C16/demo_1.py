# demo_1: restrict() generalised to "a name or a collection of names"; a str is itself a collection of
# characters, so `bdd.var in var` is a SUBSTRING test: restricting 'ab' also restricts 'a' and 'b'.
# run: PYTHONPATH=/root/work/aud_C16/lib /venv/bin/python demo_1.py
from pyModelChecking.BDD import OBDD
O = ['a', 'ab']
f = OBDD('a & ab', O)
r = f.restrict('ab', True)            # (a & ab)[ab:=1]  is the function  a
want = OBDD('a', O)
def tt(o):                            # truth table from first principles: walk the diagram
    out = ''
    for m in range(4):
        env = {'a': m & 1, 'ab': (m >> 1) & 1}
        n = o.root
        while hasattr(n, 'var'):
            n = n.high if env[n.var] else n.low
        out += '1' if n.value else '0'
    return out
print('restrict result :', r, ' tt', tt(r))
print('expected        :', want, ' tt', tt(want))
print('r == OBDD("a")  :', r == want, ' (must be True: same function, same ordering)')
print('r == OBDD("1")  :', r == OBDD('1', O), ' (must be False)')
assert r == want, 'C16 violated: (a & ab).restrict("ab",1) and "a" denote the same function but differ'
