# demo 1: CTLS.modelcheck answers from a per-structure cache that is not invalidated when the structure changes
from pyModelChecking import Kripke, CTLS
K = Kripke(R=[(0, 1), (1, 1)], L={0: set(), 1: {'p'}})
f = CTLS.E(CTLS.F(CTLS.And('q', CTLS.X('p'))))      # E F (q and X p)  - not CTL, goes through the LTL back end
r1 = CTLS.modelcheck(K, f)
print('before relabelling:', sorted(r1), '(exact: [] - no state carries q)')
K.replace_labelling_function({0: {'q'}, 1: {'p'}})   # documented mutator; K is now a different structure
r2 = CTLS.modelcheck(K, f)
# first principles: state 0 has q and its only successor 1 has p, so "q and X p" holds at 0 on the path 0 1 1 1 ...
exact = [0]
print('after  relabelling:', sorted(r2), '(exact: %s)' % exact)
K2 = Kripke(R=[(0, 1), (1, 1)], L={0: {'q'}, 1: {'p'}})   # an equal structure built from scratch
print('fresh equal structure:', sorted(CTLS.modelcheck(K2, f)))
assert sorted(r2) == exact, 'VIOLATION of C03: CTLS.modelcheck(K, f) is not the set of states satisfying f'
