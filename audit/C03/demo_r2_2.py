# A chain of n states ending in a loop: 0 -> 1 -> ... -> n-1 -> n-1, q everywhere except at the last state.
# Every path from every state reaches n-1 and stays there, where q is false: E G q holds nowhere,
# hence  (E G q) or (A X true)  == A X true  holds everywhere.  The size of K is irrelevant to the semantics.
from pyModelChecking import Kripke
from pyModelChecking.CTLS import modelcheck

for n in (5, 50, 3000):
    K = Kripke(R=[(i, i + 1) for i in range(n - 1)] + [(n - 1, n - 1)],
               L={i: {'q'} for i in range(n - 1)})
    for text, want in (('E G q', set()), ('A F not q', set(range(n))), ('A(F not q and X true)', set(range(n)))):
        try:
            got = modelcheck(K, text)
        except BaseException as e:
            got = 'raised %s' % type(e).__name__
        ok = got == want
        print('n=%-5d %-24s %s' % (n, text, 'ok' if ok else 'VIOLATION: got %s, expected %d states' % (got if isinstance(got, str) else '%d states' % len(got), len(want))))
