# A structure grown through the public API: the state 2 is created by add_edge and never labelled.
# It is a finite total Kripke structure (state 2 carries no atomic proposition).
from pyModelChecking import Kripke
from pyModelChecking.CTLS import modelcheck, A, E, G, F, X, And

K = Kripke(R=[(0, 1), (1, 0)], L={0: {'p'}, 1: {'p'}})
K.add_edge(1, 2)            # new state 2 ...
K.add_edge(2, 2)            # ... with a self loop: the relation stays total
# first principles: the only path from 2 is 2,2,2,... (never p); 0 and 1 can loop 0,1,0,1,... (always p)
#   E(G p and F X p)  holds exactly at 0 and 1  (non-CTL body: CTL* route)
#   A F G not p  fails at 0, 1 (loop 0,1,0,1 keeps p), holds at 2
f = E(And(G('p'), F(X('p'))))
want = {0, 1}
try:
    got = modelcheck(K, f)
except Exception as e:
    got = 'raised %s: %s' % (type(e).__name__, e)
print('CTLS.modelcheck(K, %s) = %s   expected %s' % (f, got, want))
print('VIOLATION' if got != want else 'ok')
