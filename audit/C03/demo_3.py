# demo 3: Kripke.clone copies each label container with .copy(): a labelling installed with immutable (frozenset) label sets
# survives into the working clone of CTLS.modelcheck, which then cannot add its fresh atoms ('[E(X(p))]')
from pyModelChecking import Kripke, CTLS
K = Kripke(R=[(0, 1), (1, 1), (1, 0)])
K.replace_labelling_function({0: frozenset(), 1: frozenset({'p'})})    # documented mutator, takes "a dict"
print('labels:', K.labels(0), K.labels(1), ' all:', K.labels())
# first principles: every state has 1 among its successors and 1 carries p => E X p holds at 0 and 1
try:
    r = CTLS.modelcheck(K, CTLS.E(CTLS.X('p')))
    print('E X p:', sorted(r), 'exact: [0, 1]')
    assert sorted(r) == [0, 1]
    print('OK')
except AttributeError as e:
    print('E X p: raised AttributeError:', e, ' (exact answer: [0, 1])  => VIOLATION of C03')
    raise SystemExit(1)
