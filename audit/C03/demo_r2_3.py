# States may be any hashable objects; here they are plain objects (hashed by identity), e.g. the
# nodes of the caller's own design data base.
from pyModelChecking import Kripke
from pyModelChecking.CTLS import modelcheck, E, A, G, F, X, And


class Node(object):
    def __init__(self, name):
        self.name = name

    def __repr__(self):
        return 'Node(%s)' % self.name


a, b = Node('a'), Node('b')
K = Kripke(R=[(a, b), (b, b)], L={a: {'p'}, b: set()})
# paths: a,b,b,b,...  and  b,b,b,...   p holds only at a.
#   E(p and X not p): true at a (p now, next state b has no p), false at b    -> exactly {a}
f = E(And('p', X(~E(F('p')))))
got = modelcheck(K, f)
print('answer  :', got)
print('expected:', {a})
print('every returned object is a state of K:', all(s in K.states() for s in got))
print('VIOLATION' if got != {a} else 'ok')
