# The theorem has no hypothesis on the labels of K: labels spelled like the checker's private names are
# ordinary atomic propositions that the formula does not mention.
from pyModelChecking import Kripke
from pyModelChecking.CTLS import modelcheck, E, X

# two isolated self loops; p holds at 0 only, so E X p holds exactly at 0
K = Kripke(R=[(0, 0), (1, 1)],
           L={0: {'p'}, 1: {'[E(X(p))]', '[[E(X(p))](3)]'}})   # 3 distinct labels in K
got = modelcheck(K, E(X('p')))
print('answer', got, 'expected', {0})
print('VIOLATION' if got != {0} else 'ok')
