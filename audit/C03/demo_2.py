# demo 2: CTLS.modelcheck rewrites the caller's formula object in place (nested quantifiers -> fresh atoms);
# the first answer is right, every later use of the same formula object is answered wrongly
from pyModelChecking import Kripke, CTLS
K = Kripke(R=[(0, 1), (1, 1), (1, 0)], L={0: set(), 1: {'p'}})
f = CTLS.E(CTLS.F(CTLS.A(CTLS.X('p'))))        # E F A X p
print('formula:', f)
r1 = CTLS.modelcheck(K, f)
# first principles: successors of 0 = {1} (p) so A X p holds at 0; 0 is reachable from 0 and from 1 => E F A X p holds at 0 and 1
exact = [0, 1]
print('1st call:', sorted(r1), 'exact:', exact)
r2 = CTLS.modelcheck(K, f)                      # same K, same formula object
print('2nd call:', sorted(r2), 'exact:', exact)
print('formula now:', f)
g = CTLS.E(CTLS.F(CTLS.A(CTLS.X('p'))))
print('equal formula built afresh:', sorted(CTLS.modelcheck(K, g)))
assert sorted(r1) == exact
assert sorted(r2) == exact, 'VIOLATION of C03 on the second call'
