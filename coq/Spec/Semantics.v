(* Semantics.v — the documented CTL* semantics (doc/source/logics.rst), stated over
   infinite paths, independent of any algorithm. *)
From PMC Require Export Model.Kripke Model.Syntax Spec.GraphSpec.

Definition path := nat -> nat.
Definition is_path (K : kripke) (p : path) : Prop := forall i, edge (kg K) (p i) (p (S i)).
Definition suffix (p : path) (k : nat) : path := fun i => p (k + i).
Definition labelled (K : kripke) (s : nat) (a : atom) : Prop := In a (labels_of K s).

(* K, pi |= f, clause by clause as in logics.rst; a state formula is evaluated at the
   first state of the path *)
Fixpoint sat (K : kripke) (p : path) (f : form) {struct f} : Prop :=
  match f with
  | FBool b => b = true
  | FAtom a => labelled K (p 0) a
  | FNot g => ~ sat K p g
  | FOr fs => fold_right (fun g acc => sat K p g \/ acc) False fs
  | FAnd fs => fold_right (fun g acc => sat K p g /\ acc) True fs
  | FImp g h => ~ sat K p g \/ sat K p h
  | FX g => sat K (suffix p 1) g
  | FF g => exists k, sat K (suffix p k) g
  | FG g => forall k, sat K (suffix p k) g
  | FU g h => exists k, sat K (suffix p k) h /\ forall j, j < k -> sat K (suffix p j) g
  | FR g h => forall k, (forall j, j < k -> ~ sat K (suffix p j) g) -> sat K (suffix p k) h
  | FA g => forall q, is_path K q -> q 0 = p 0 -> sat K q g
  | FE g => exists q, is_path K q /\ q 0 = p 0 /\ sat K q g
  end.

(* K, s |= f for a state formula: some (equivalently every) path from s *)
Definition holds (K : kripke) (s : nat) (f : form) : Prop :=
  exists p, is_path K p /\ p 0 = s /\ sat K p f.

(* well-formed total Kripke structure: what every Kripke object satisfies *)
Definition total (K : kripke) : Prop := forall s, In s (states K) -> succs (kg K) s <> [].
Definition wf_kripke (K : kripke) : Prop := wf_graph (kg K) /\ total K.
