(* GraphSpec.v — what "right" means for graph.py, independent of any algorithm. *)
From PMC Require Export Model.Graph.

Definition edge (g : graph) (x y : nat) : Prop := In y (succs g x).

(* reflexive-transitive closure of the edge relation *)
Inductive reaches (g : graph) : nat -> nat -> Prop :=
| r_refl x : reaches g x x
| r_step x y z : reaches g x y -> edge g y z -> reaches g x z.

Definition mutual (g : graph) (x y : nat) : Prop := reaches g x y /\ reaches g y x.

(* a well-formed adjacency structure: what every DiGraph object satisfies
   (dict keys are unique, successor sets have no duplicates, every destination
   is a key) *)
Definition wf_graph (g : graph) : Prop :=
  NoDup (nodes g) /\
  (forall x, NoDup (succs g x)) /\
  (forall x y, edge g x y -> In x (nodes g) /\ In y (nodes g)).

(* the specification of compute_SCCs: the yielded lists partition the nodes and two
   nodes share a list exactly when they are mutually reachable *)
Definition scc_spec (g : graph) (cs : list (list nat)) : Prop :=
  NoDup (concat cs) /\
  (forall x, In x (nodes g) <-> In x (concat cs)) /\
  (forall c x, In c cs -> In x c -> forall y, In y c <-> mutual g x y).

(* same set of elements *)
Definition same_set {A} (a b : list A) : Prop := forall x, In x a <-> In x b.
