(* Grammar.v — the DOCUMENTED grammars of the four parsers of pyModelChecking, read as plain
   context-free grammars (specification; definitions only).

   Sources: the `grammar` class attributes of PL/parser.py, CTLS/parser.py, CTL/parser.py and
   LTL/parser.py, whose `{}` holes are filled by `init_submodule` with the symbol alternatives
   of the operator classes (language.py / CTLS/language.py):
       Bool: "true" "false"    Not: ("not"|"~")    Or: ("or"|"|")    And: ("and"|"&")
       Imply: ("-->")   A: ("A")  E: ("E")  X: ("X")  F: ("F")  G: ("G")  U: ("U")  R: ("R")

   Reading.  The grammars are read WITHOUT Lark's LALR(1) parser and contextual lexer, i.e. as
   what they denote (what Lark's Earley parser with the dynamic lexer explores): a string is in
   the language iff it can be cut into terminal texts, optionally separated by ignored white
   space (%ignore WS), such that the sequence of terminals is derived by the start rule
   `formula`.  Tokenisation is free: no maximal munch, no white space required between two
   terminals, and a text may be read as ANY terminal whose pattern it matches (the text "or"
   is the keyword terminal of Or and also matches the identifier regex of a_prop).

   The derivation relations also compute the value built by the transformers
   (AST_to_PropositionalLogics / AST_to_TemporalLogics): a rule without alias passes its only
   child through (anonymous tokens such as "(" and the keywords are filtered out by Lark);
   or_formula / and_formula receive ALL the operands of the `( op x )+` repetition and build
   one n-ary node; a_prop gives an atomic proposition (e_string strips the two quotes and
   does not unescape).

   This file does not mention the parser functions of Model/Parse.v; it only reuses its
   character classes (is_ws, is_word_start, is_word_char) and the types of Model/Syntax.v. *)
From PMC Require Import Model.Parse.
From Coq Require Import String Ascii.
Local Open Scope string_scope.
Local Open Scope list_scope.      (* "++" is list append; string append is written (_ ++ _)%string *)

(* ------------------------------------------------------------------------------------ *)
(* terminals and their concrete texts                                                    *)
(* ------------------------------------------------------------------------------------ *)
Inductive kw := KTrue | KFalse | KNot | KOr | KAnd | KImp | KA | KE | KX | KF | KG | KU | KR.

Inductive term :=
| TId (s : string)          (* /[a-zA-Z_][a-zA-Z_0-9]*/ matching the text s *)
| TQ (s : string)           (* ESCAPED_STRING whose text is  "s"  (s = raw text between the quotes) *)
| TLpar | TRpar             (* "("  ")" *)
| TKw (k : kw).             (* the keyword terminals filled in by init_submodule *)

(* the alternatives `symbols` of each operator class *)
Definition kw_texts (k : kw) : list string :=
  match k with
  | KTrue => ["true"] | KFalse => ["false"]
  | KNot => ["not"; "~"] | KOr => ["or"; "|"] | KAnd => ["and"; "&"] | KImp => ["-->"]
  | KA => ["A"] | KE => ["E"] | KX => ["X"] | KF => ["F"] | KG => ["G"] | KU => ["U"] | KR => ["R"]
  end.

(* [a-zA-Z_][a-zA-Z_0-9]* *)
Fixpoint all_word_char (s : string) : bool :=
  match s with
  | EmptyString => true
  | String c r => is_word_char c && all_word_char r
  end.
Definition is_id_word (s : string) : bool :=
  match s with
  | EmptyString => false
  | String c r => is_word_start c && all_word_char r
  end.

(* common.ESCAPED_STRING = "\"" /.*?/ /(?<!\\)(\\\\)*?/ "\"" as Python's `re` matches it (and as
   Model/Parse.v lexes it): the closing quote is the first quote preceded by an even number of
   backslashes, and "." does not match a newline.  [q_scan esc s] scans the text between the
   quotes, esc = "the previous character is an unescaped backslash"; None = s contains a
   newline or an unescaped quote. *)
Fixpoint q_scan (esc : bool) (s : string) : option bool :=
  match s with
  | EmptyString => Some esc
  | String c r =>
      if Ascii.eqb c "010" then None
      else if esc then q_scan false r
      else if Ascii.eqb c "\" then q_scan true r
      else if Ascii.eqb c """" then None
      else q_scan false r
  end.
Definition q_ok (s : string) : Prop := q_scan false s = Some false.
Definition quote (s : string) : string := String """" (s ++ String """" "")%string.

(* [spell t x]: the text x realises the terminal t *)
Definition spell (t : term) (x : string) : Prop :=
  match t with
  | TId s => x = s /\ is_id_word s = true
  | TQ s => x = quote s /\ q_ok s
  | TLpar => x = "("
  | TRpar => x = ")"
  | TKw k => In x (kw_texts k)
  end.

(* common.WS = /[ \t\f\r\n]/+ , ignored *)
Fixpoint all_ws (s : string) : bool :=
  match s with
  | EmptyString => true
  | String c r => is_ws c && all_ws r
  end.

(* s = ws x1 ws x2 ... ws xn ws  where xi spells the i-th terminal and each ws is a possibly
   empty run of white space *)
Inductive tokenises : string -> list term -> Prop :=
| tk_nil : forall w, all_ws w = true -> tokenises w []
| tk_cons : forall w x s t ts,
    all_ws w = true -> spell t x -> tokenises s ts -> tokenises (w ++ x ++ s)%string (t :: ts).

(* ------------------------------------------------------------------------------------ *)
(* PL/parser.py                                                                          *)
(* ------------------------------------------------------------------------------------ *)
(* [pl_rep k] is the repetition  ( k u_formula )+  and yields the list of its operands *)
Inductive pl_s : list term -> form -> Prop :=
(* s_formula: "true" -> true *)
| pl_s_true : pl_s [TKw KTrue] (FBool true)
(*          | "false" -> false *)
| pl_s_false : pl_s [TKw KFalse] (FBool false)
(*          | a_prop          with  a_prop: /[a-zA-Z_][a-zA-Z_0-9]*/ -> string *)
| pl_s_id : forall a, pl_s [TId a] (FAtom a)
(*                                        | ESCAPED_STRING -> e_string *)
| pl_s_q : forall a, pl_s [TQ a] (FAtom a)
(*          | "(" s_formula ")" *)
| pl_s_par : forall ts f, pl_s ts f -> pl_s (TLpar :: ts ++ [TRpar]) f
with pl_u : list term -> form -> Prop :=
(* u_formula: ("not"|"~") u_formula -> not_formula *)
| pl_u_not : forall ts f, pl_u ts f -> pl_u (TKw KNot :: ts) (FNot f)
(*          | "(" b_formula ")" *)
| pl_u_par : forall ts f, pl_b ts f -> pl_u (TLpar :: ts ++ [TRpar]) f
(*          | s_formula *)
| pl_u_s : forall ts f, pl_s ts f -> pl_u ts f
with pl_b : list term -> form -> Prop :=
(* b_formula: u_formula *)
| pl_b_u : forall ts f, pl_u ts f -> pl_b ts f
(*          | u_formula ( ("or"|"|") u_formula )+ -> or_formula *)
| pl_b_or : forall ts f ts' fs, pl_u ts f -> pl_rep KOr ts' fs -> pl_b (ts ++ ts') (FOr (f :: fs))
(*          | u_formula ( ("and"|"&") u_formula )+ -> and_formula *)
| pl_b_and : forall ts f ts' fs, pl_u ts f -> pl_rep KAnd ts' fs -> pl_b (ts ++ ts') (FAnd (f :: fs))
(*          | u_formula ("-->") u_formula -> imply_formula *)
| pl_b_imp : forall ts f ts' g, pl_u ts f -> pl_u ts' g -> pl_b (ts ++ TKw KImp :: ts') (FImp f g)
with pl_rep : kw -> list term -> list form -> Prop :=
| pl_rep_one : forall k ts f, pl_u ts f -> pl_rep k (TKw k :: ts) [f]
| pl_rep_more : forall k ts f ts' fs,
    pl_u ts f -> pl_rep k ts' fs -> pl_rep k (TKw k :: ts ++ ts') (f :: fs).
(* formula: b_formula *)
Definition pl_formula : list term -> form -> Prop := pl_b.

(* ------------------------------------------------------------------------------------ *)
(* CTLS/parser.py                                                                        *)
(* ------------------------------------------------------------------------------------ *)
Inductive ctls_s : list term -> form -> Prop :=
(* s_formula: "true" -> true *)
| ctls_s_true : ctls_s [TKw KTrue] (FBool true)
(*          | "false" -> false *)
| ctls_s_false : ctls_s [TKw KFalse] (FBool false)
(*          | a_prop *)
| ctls_s_id : forall a, ctls_s [TId a] (FAtom a)
| ctls_s_q : forall a, ctls_s [TQ a] (FAtom a)
(*          | ("A") u_formula -> forall_formula *)
| ctls_s_A : forall ts f, ctls_u ts f -> ctls_s (TKw KA :: ts) (FA f)
(*          | ("E") u_formula -> exists_formula *)
| ctls_s_E : forall ts f, ctls_u ts f -> ctls_s (TKw KE :: ts) (FE f)
(*          | "(" s_formula ")" *)
| ctls_s_par : forall ts f, ctls_s ts f -> ctls_s (TLpar :: ts ++ [TRpar]) f
with ctls_u : list term -> form -> Prop :=
(* u_formula: ("X") u_formula -> next_formula *)
| ctls_u_X : forall ts f, ctls_u ts f -> ctls_u (TKw KX :: ts) (FX f)
(*          | ("F") u_formula -> eventually_formula *)
| ctls_u_F : forall ts f, ctls_u ts f -> ctls_u (TKw KF :: ts) (FF f)
(*          | ("G") u_formula -> globally_formula *)
| ctls_u_G : forall ts f, ctls_u ts f -> ctls_u (TKw KG :: ts) (FG f)
(*          | ("not"|"~") u_formula -> not_formula *)
| ctls_u_not : forall ts f, ctls_u ts f -> ctls_u (TKw KNot :: ts) (FNot f)
(*          | "(" p_formula ")" *)
| ctls_u_par : forall ts f, ctls_p ts f -> ctls_u (TLpar :: ts ++ [TRpar]) f
(*          | s_formula *)
| ctls_u_s : forall ts f, ctls_s ts f -> ctls_u ts f
with ctls_p : list term -> form -> Prop :=
(* p_formula: u_formula *)
| ctls_p_u : forall ts f, ctls_u ts f -> ctls_p ts f
(*          | u_formula ( ("or"|"|") u_formula )+ -> or_formula *)
| ctls_p_or : forall ts f ts' fs,
    ctls_u ts f -> ctls_rep KOr ts' fs -> ctls_p (ts ++ ts') (FOr (f :: fs))
(*          | u_formula ( ("and"|"&") u_formula )+ -> and_formula *)
| ctls_p_and : forall ts f ts' fs,
    ctls_u ts f -> ctls_rep KAnd ts' fs -> ctls_p (ts ++ ts') (FAnd (f :: fs))
(*          | u_formula ("-->") u_formula -> imply_formula *)
| ctls_p_imp : forall ts f ts' g,
    ctls_u ts f -> ctls_u ts' g -> ctls_p (ts ++ TKw KImp :: ts') (FImp f g)
(*          | u_formula ("U") u_formula -> until_formula *)
| ctls_p_U : forall ts f ts' g,
    ctls_u ts f -> ctls_u ts' g -> ctls_p (ts ++ TKw KU :: ts') (FU f g)
(*          | u_formula ("R") u_formula -> release_formula *)
| ctls_p_R : forall ts f ts' g,
    ctls_u ts f -> ctls_u ts' g -> ctls_p (ts ++ TKw KR :: ts') (FR f g)
with ctls_rep : kw -> list term -> list form -> Prop :=
| ctls_rep_one : forall k ts f, ctls_u ts f -> ctls_rep k (TKw k :: ts) [f]
| ctls_rep_more : forall k ts f ts' fs,
    ctls_u ts f -> ctls_rep k ts' fs -> ctls_rep k (TKw k :: ts ++ ts') (f :: fs).
(* formula: p_formula *)
Definition ctls_formula : list term -> form -> Prop := ctls_p.

(* ------------------------------------------------------------------------------------ *)
(* CTL/parser.py                                                                         *)
(* ------------------------------------------------------------------------------------ *)
(* here the repetitions are  ( k s_formula )+ *)
Inductive ctl_s : list term -> form -> Prop :=
(* s_formula: "true" -> true *)
| ctl_s_true : ctl_s [TKw KTrue] (FBool true)
(*          | "false" -> false *)
| ctl_s_false : ctl_s [TKw KFalse] (FBool false)
(*          | a_prop *)
| ctl_s_id : forall a, ctl_s [TId a] (FAtom a)
| ctl_s_q : forall a, ctl_s [TQ a] (FAtom a)
(*          | ("A") p_formula -> forall_formula *)
| ctl_s_A : forall ts f, ctl_p ts f -> ctl_s (TKw KA :: ts) (FA f)
(*          | ("E") p_formula -> exists_formula *)
| ctl_s_E : forall ts f, ctl_p ts f -> ctl_s (TKw KE :: ts) (FE f)
(*          | ("not"|"~") s_formula -> not_formula *)
| ctl_s_not : forall ts f, ctl_s ts f -> ctl_s (TKw KNot :: ts) (FNot f)
(*          | "(" u_formula ")" *)
| ctl_s_par : forall ts f, ctl_u ts f -> ctl_s (TLpar :: ts ++ [TRpar]) f
with ctl_u : list term -> form -> Prop :=
(* u_formula: s_formula *)
| ctl_u_s : forall ts f, ctl_s ts f -> ctl_u ts f
(*          | s_formula ( ("or"|"|") s_formula )+ -> or_formula *)
| ctl_u_or : forall ts f ts' fs,
    ctl_s ts f -> ctl_rep KOr ts' fs -> ctl_u (ts ++ ts') (FOr (f :: fs))
(*          | s_formula ( ("and"|"&") s_formula )+ -> and_formula *)
| ctl_u_and : forall ts f ts' fs,
    ctl_s ts f -> ctl_rep KAnd ts' fs -> ctl_u (ts ++ ts') (FAnd (f :: fs))
(*          | s_formula ("-->") s_formula -> imply_formula *)
| ctl_u_imp : forall ts f ts' g,
    ctl_s ts f -> ctl_s ts' g -> ctl_u (ts ++ TKw KImp :: ts') (FImp f g)
with ctl_p : list term -> form -> Prop :=
(* p_formula: ("X") s_formula -> next_formula *)
| ctl_p_X : forall ts f, ctl_s ts f -> ctl_p (TKw KX :: ts) (FX f)
(*          | ("F") s_formula -> eventually_formula *)
| ctl_p_F : forall ts f, ctl_s ts f -> ctl_p (TKw KF :: ts) (FF f)
(*          | ("G") s_formula -> globally_formula *)
| ctl_p_G : forall ts f, ctl_s ts f -> ctl_p (TKw KG :: ts) (FG f)
(*          | s_formula ("U") s_formula -> until_formula *)
| ctl_p_U : forall ts f ts' g,
    ctl_s ts f -> ctl_s ts' g -> ctl_p (ts ++ TKw KU :: ts') (FU f g)
(*          | s_formula ("R") s_formula -> release_formula *)
| ctl_p_R : forall ts f ts' g,
    ctl_s ts f -> ctl_s ts' g -> ctl_p (ts ++ TKw KR :: ts') (FR f g)
(*          | "(" p_formula ")" *)
| ctl_p_par : forall ts f, ctl_p ts f -> ctl_p (TLpar :: ts ++ [TRpar]) f
with ctl_rep : kw -> list term -> list form -> Prop :=
| ctl_rep_one : forall k ts f, ctl_s ts f -> ctl_rep k (TKw k :: ts) [f]
| ctl_rep_more : forall k ts f ts' fs,
    ctl_s ts f -> ctl_rep k ts' fs -> ctl_rep k (TKw k :: ts ++ ts') (f :: fs).
(* formula: p_formula | u_formula *)
Inductive ctl_formula : list term -> form -> Prop :=
| ctl_formula_p : forall ts f, ctl_p ts f -> ctl_formula ts f
| ctl_formula_u : forall ts f, ctl_u ts f -> ctl_formula ts f.

(* ------------------------------------------------------------------------------------ *)
(* LTL/parser.py                                                                         *)
(* ------------------------------------------------------------------------------------ *)
Inductive ltl_p : list term -> form -> Prop :=
(* p_formula: u_formula ( ("or"|"|") u_formula )+ -> or_formula *)
| ltl_p_or : forall ts f ts' fs,
    ltl_u ts f -> ltl_rep KOr ts' fs -> ltl_p (ts ++ ts') (FOr (f :: fs))
(*          | u_formula ( ("and"|"&") u_formula )+ -> and_formula *)
| ltl_p_and : forall ts f ts' fs,
    ltl_u ts f -> ltl_rep KAnd ts' fs -> ltl_p (ts ++ ts') (FAnd (f :: fs))
(*          | u_formula ("-->") u_formula -> imply_formula *)
| ltl_p_imp : forall ts f ts' g,
    ltl_u ts f -> ltl_u ts' g -> ltl_p (ts ++ TKw KImp :: ts') (FImp f g)
(*          | u_formula ("U") u_formula -> until_formula *)
| ltl_p_U : forall ts f ts' g,
    ltl_u ts f -> ltl_u ts' g -> ltl_p (ts ++ TKw KU :: ts') (FU f g)
(*          | u_formula ("R") u_formula -> release_formula *)
| ltl_p_R : forall ts f ts' g,
    ltl_u ts f -> ltl_u ts' g -> ltl_p (ts ++ TKw KR :: ts') (FR f g)
(*          | u_formula *)
| ltl_p_u : forall ts f, ltl_u ts f -> ltl_p ts f
with ltl_u : list term -> form -> Prop :=
(* u_formula: "true" -> true *)
| ltl_u_true : ltl_u [TKw KTrue] (FBool true)
(*          | "false" -> false *)
| ltl_u_false : ltl_u [TKw KFalse] (FBool false)
(*          | a_prop *)
| ltl_u_id : forall a, ltl_u [TId a] (FAtom a)
| ltl_u_q : forall a, ltl_u [TQ a] (FAtom a)
(*          | "(" p_formula ")" *)
| ltl_u_par : forall ts f, ltl_p ts f -> ltl_u (TLpar :: ts ++ [TRpar]) f
(*          | ("not"|"~") u_formula -> not_formula *)
| ltl_u_not : forall ts f, ltl_u ts f -> ltl_u (TKw KNot :: ts) (FNot f)
(*          | ("X") u_formula -> next_formula *)
| ltl_u_X : forall ts f, ltl_u ts f -> ltl_u (TKw KX :: ts) (FX f)
(*          | ("F") u_formula -> eventually_formula *)
| ltl_u_F : forall ts f, ltl_u ts f -> ltl_u (TKw KF :: ts) (FF f)
(*          | ("G") u_formula -> globally_formula *)
| ltl_u_G : forall ts f, ltl_u ts f -> ltl_u (TKw KG :: ts) (FG f)
with ltl_rep : kw -> list term -> list form -> Prop :=
| ltl_rep_one : forall k ts f, ltl_u ts f -> ltl_rep k (TKw k :: ts) [f]
| ltl_rep_more : forall k ts f ts' fs,
    ltl_u ts f -> ltl_rep k ts' fs -> ltl_rep k (TKw k :: ts ++ ts') (f :: fs).
(* s_formula: ("A") u_formula -> forall_formula *)
Inductive ltl_s : list term -> form -> Prop :=
| ltl_s_A : forall ts f, ltl_u ts f -> ltl_s (TKw KA :: ts) (FA f).
(* formula: s_formula | p_formula *)
Inductive ltl_formula : list term -> form -> Prop :=
| ltl_formula_s : forall ts f, ltl_s ts f -> ltl_formula ts f
| ltl_formula_p : forall ts f, ltl_p ts f -> ltl_formula ts f.

(* ------------------------------------------------------------------------------------ *)
(* the language of each parser: start rule `formula`                                     *)
(* ------------------------------------------------------------------------------------ *)
Definition derives (L : lang) : list term -> form -> Prop :=
  match L with
  | PL => pl_formula
  | CTLS => ctls_formula
  | CTL => ctl_formula
  | LTL => ltl_formula
  end.

Definition in_language (L : lang) (s : string) (f : form) : Prop :=
  exists ts, tokenises s ts /\ derives L ts f.
