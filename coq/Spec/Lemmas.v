(* Lemmas.v — the exact statements of the load-bearing lemmas, as Props.
   A proof file proves  [foo : foo_stmt];  a file that only *uses* foo can be developed
   independently inside a Section with  [Hypothesis foo : foo_stmt]  and is instantiated
   with the real lemma when the development is assembled.  No proofs here. *)
From PMC Require Export Spec.GraphSpec Spec.Semantics Spec.BoolFun.
From PMC Require Export Model.CTLmc Model.LTLmc Model.CTLSmc Model.Fair Model.BddHist.

(* ---------------- graphs (graph.py) ---------------- *)
Definition reach_exact_stmt : Prop :=
  forall g X, wf_graph g -> incl X (nodes g) ->
    NoDup (reach g X) /\
    forall y, In y (reach g X) <-> exists x, In x X /\ reaches g x y.

Definition mk_graph_spec_stmt : Prop :=
  forall V E, wf_graph (mk_graph V E) /\
    (forall x, In x (nodes (mk_graph V E)) <-> In x V \/ exists y, In (x, y) E \/ In (y, x) E) /\
    (forall x y, edge (mk_graph V E) x y <-> In (x, y) E).

Definition edges_spec_stmt : Prop :=
  forall g x y, wf_graph g -> (In (x, y) (edges g) <-> edge g x y).

Definition reversed_spec_stmt : Prop :=
  forall g, wf_graph g ->
    wf_graph (reversed g) /\
    (forall x, In x (nodes (reversed g)) <-> In x (nodes g)) /\
    (forall x y, edge (reversed g) x y <-> edge g y x).

Definition subgraph_spec_stmt : Prop :=
  forall g X, wf_graph g ->
    wf_graph (subgraph g X) /\
    (forall x, In x (nodes (subgraph g X)) <-> In x X /\ In x (nodes g)) /\
    (forall x y, edge (subgraph g X) x y <-> edge g x y /\ In x X /\ In y X).

Definition add_node_spec_stmt : Prop :=
  forall g v, wf_graph g ->
    wf_graph (add_node g v) /\
    (forall x, In x (nodes (add_node g v)) <-> In x (nodes g) \/ x = v) /\
    (forall x y, edge (add_node g v) x y <-> edge g x y).

Definition add_edge_silent_spec_stmt : Prop :=
  forall g s d, wf_graph g ->
    wf_graph (add_edge_silent g s d) /\
    (forall x, In x (nodes (add_edge_silent g s d)) <-> In x (nodes g) \/ x = s \/ x = d) /\
    (forall x y, edge (add_edge_silent g s d) x y <-> edge g x y \/ (x = s /\ y = d)).

(* ---------------- SCCs ---------------- *)
Definition scc_correct_stmt : Prop := forall g, wf_graph g -> scc_spec g (compute_SCCs g).

(* infinite walks in a finite graph and generalised Buechi acceptance *)
Definition gpath (g : graph) (p : nat -> nat) : Prop := forall i, edge g (p i) (p (S i)).
Definition inf_often (p : nat -> nat) (P : list nat) : Prop := forall i, exists j, i <= j /\ In (p j) P.
Definition gba_stmt : Prop :=
  forall g cs Ps v, wf_graph g -> scc_spec g cs -> In v (nodes g) ->
    ((exists p, gpath g p /\ p 0 = v /\ forall P, In P Ps -> inf_often p P) <->
     (exists C, In C cs /\ nontrivial g C = true /\
                (forall P, In P Ps -> exists x, In x C /\ In x P) /\
                exists c, In c C /\ reaches g v c)).

(* ---------------- rewriting (language.py, CTLS/language.py, CTL/language.py) ---------------- *)
Definition LNot_sem_stmt : Prop := forall K p f, sat K p (LNot f) <-> ~ sat K p f.
Definition restrict_sem_stmt : Prop := forall K p f, sat K p (restrict f) <-> sat K p f.

(* the restricted alphabets *)
Fixpoint restricted (f : form) : bool :=            (* {true, false, atoms, not, or, X, U, E} *)
  match f with
  | FBool _ | FAtom _ => true
  | FNot g | FX g | FE g => restricted g
  | FOr fs => forallb restricted fs
  | FU g h => restricted g && restricted h
  | _ => false
  end.
Fixpoint restricted_ctl (f : form) : bool :=        (* {true, false, atoms, not, or, EX, EU, EG} *)
  match f with
  | FBool _ | FAtom _ => true
  | FNot g => restricted_ctl g
  | FOr fs => forallb restricted_ctl fs
  | FE (FX g) | FE (FG g) => restricted_ctl g
  | FE (FU g h) => restricted_ctl g && restricted_ctl h
  | _ => false
  end.
Definition starts_with_two_nots (f : form) : bool :=
  match f with FNot (FNot _) => true | _ => false end.

Definition restrict_ctl_spec_stmt : Prop :=
  forall f, ctl_state f = true ->
    exists r, restrict_ctl f = Some r /\ restricted_ctl r = true /\ ctl_state r = true /\
              height r <= 3 * height f /\
              forall K p, sat K p r <-> sat K p f.

(* ---------------- the three checkers ---------------- *)
Definition C01_stmt : Prop :=
  forall K f, wf_kripke K -> ctl_state f = true ->
    exists S, ctl_modelcheck K f = Ok S /\ NoDup S /\
              forall s, In s S <-> (In s (states K) /\ holds K s f).

Definition C02_stmt : Prop :=
  forall K g, wf_kripke K -> ltl_path g = true ->
    exists S, ltl_modelcheck K (FA g) = Ok S /\
              forall s, In s S <-> (In s (states K) /\
                                    forall p, is_path K p -> p 0 = s -> sat K p g).
