(* FairSemantics.v — the fair CTL* semantics of Clarke, Grumberg and Peled
   (Model Checking, ch. 4.3 / 6.x): the path quantifiers range over FAIR paths only.
   A fairness constraint F is a list of sets of states; a path is fair when it
   visits each set of F infinitely often.  Definitions only. *)
From PMC Require Export Spec.Semantics Spec.Lemmas.

(* p visits every P in F infinitely often *)
Definition fair_path (F : list (list nat)) (p : path) : Prop :=
  forall P, In P F -> inf_often p P.

(* s is the first state of some fair path *)
Definition fair_state (K : kripke) (F : list (list nat)) (s : nat) : Prop :=
  exists p, is_path K p /\ p 0 = s /\ fair_path F p.

(* K, pi |=_F f.  Same clauses as [sat] except:
     - A / E range over the fair paths that start at the first state of pi;
     - an atom a holds at s iff a labels s AND s is a fair state (CGP: "s |=_F p iff there
       is a fair path from s and p in L(s)").
   CGP treats [true] as an atom too; we keep [FBool b => b = true] so that the
   definition stays neutral on that point (E true, i.e. "there is a fair path", is then
   [FE (FBool true)], which is [fair_state]). *)
Fixpoint fsat (K : kripke) (F : list (list nat)) (p : path) (f : form) {struct f} : Prop :=
  match f with
  | FBool b => b = true
  | FAtom a => labelled K (p 0) a /\ fair_state K F (p 0)
  | FNot g => ~ fsat K F p g
  | FOr fs => fold_right (fun g acc => fsat K F p g \/ acc) False fs
  | FAnd fs => fold_right (fun g acc => fsat K F p g /\ acc) True fs
  | FImp g h => ~ fsat K F p g \/ fsat K F p h
  | FX g => fsat K F (suffix p 1) g
  | FF g => exists k, fsat K F (suffix p k) g
  | FG g => forall k, fsat K F (suffix p k) g
  | FU g h => exists k, fsat K F (suffix p k) h /\ forall j, j < k -> fsat K F (suffix p j) g
  | FR g h => forall k, (forall j, j < k -> ~ fsat K F (suffix p j) g) -> fsat K F (suffix p k) h
  | FA g => forall q, is_path K q -> q 0 = p 0 -> fair_path F q -> fsat K F q g
  | FE g => exists q, is_path K q /\ q 0 = p 0 /\ fair_path F q /\ fsat K F q g
  end.

(* K, s |=_F f for a state formula: evaluated on some FAIR path from s *)
Definition fholds (K : kripke) (F : list (list nat)) (s : nat) (f : form) : Prop :=
  exists p, is_path K p /\ p 0 = s /\ fair_path F p /\ fsat K F p f.
