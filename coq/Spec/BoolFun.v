(* BoolFun.v — specification side for the BDD library: Boolean functions are
   [(var -> bool) -> bool]; the meaning of a diagram is [denote] (Model/Bdd.v). *)
From PMC Require Export Model.Bdd Model.BExp.

Definition env := var -> bool.
Definition env_upd (e : env) (v : var) (b : bool) : env := fun x => if Nat.eqb x v then b else e x.

(* meaning of an expression (and/or/not are synonyms of & | ~) *)
Fixpoint beval (e : bexp) (en : env) : bool :=
  match e with
  | BVar v => en v
  | BConst b => b
  | BNot e1 => negb (beval e1 en)
  | BAnd e1 e2 => beval e1 en && beval e2 en
  | BOr e1 e2 => beval e1 en || beval e2 en
  | BAndL es => forallb (fun x => beval x en) es
  | BOrL es => existsb (fun x => beval x en) es
  | BBad => false
  end.
