(* FormHeapP.v — clone() and __hash__ of MUTABLE formula objects, proved on the heap model
   of formula nodes (Model/FormHeap.v):
     FRESHNESS     the constructors put every node in a cell that did not exist;
     FRAME         no cell that existed before is changed;
     READ-BACK     the new object's tree is the formula that was built;
     CLONE         clone() returns an equal formula none of whose nodes is a node of the
                   original; leaf edits (renaming an atom, flipping a Bool) of one never
                   change the tree of the other;
     HASH          __eq__ / __hash__ read the CURRENT tree: equal objects hash equally
                   whatever edits happened before;
     NON-VACUITY   with a shallow clone (copy.copy) or a cached hash this fails.
   Axiom-free. *)
From Coq Require Import List Arith Lia Bool.
Import ListNotations.
From PMC Require Import Model.FormHeap.
From PMC Require Import Proofs.BaseP Proofs.SyntaxP Proofs.PrintP.

(* ------------------------------------------------------------------ *)
(* 0. heaps                                                            *)
(* ------------------------------------------------------------------ *)
Definition fallocated (h : fheap) (l : loc) : Prop := In l (map fst h).

Lemma fallocatedb_iff h l : fallocatedb h l = true <-> fallocated h l.
Proof. unfold fallocatedb, fallocated. apply memb_In. Qed.

Lemma fallocated_iff_fget h l : fallocated h l <-> exists c, fget h l = Some c.
Proof.
  unfold fallocated. induction h as [|[x c] r IH]; simpl.
  - split; [tauto|]. intros [c H]. discriminate H.
  - destruct (Nat.eqb x l) eqn:E.
    + apply Nat.eqb_eq in E. split; [eauto|auto].
    + apply Nat.eqb_neq in E. rewrite <- IH. tauto.
Qed.

Lemma fget_unallocated h l : ~ fallocated h l -> fget h l = None.
Proof.
  intros H. destruct (fget h l) as [c|] eqn:E; [|reflexivity].
  exfalso. apply H. apply fallocated_iff_fget. eauto.
Qed.

Lemma fget_fset_same h l c : fget (fset h l c) l = Some c.
Proof. unfold fset. simpl. rewrite Nat.eqb_refl. reflexivity. Qed.

Lemma fget_fset_other h l c l' : l' <> l -> fget (fset h l c) l' = fget h l'.
Proof.
  intros H. unfold fset. simpl. destruct (Nat.eqb l l') eqn:E; auto.
  apply Nat.eqb_eq in E. congruence.
Qed.

Lemma fallocated_fset h l c l' : fallocated (fset h l c) l' <-> l = l' \/ fallocated h l'.
Proof. unfold fallocated, fset. simpl. tauto. Qed.

Lemma fallocated_lt_ffresh h l : fallocated h l -> l < ffresh h.
Proof.
  unfold fallocated, ffresh. induction (map fst h) as [|x r IH]; simpl; intros H; [tauto|].
  destruct H as [H|H]; [subst; lia|]. apply IH in H. lia.
Qed.

Lemma ffresh_not_allocated h : ~ fallocated h (ffresh h).
Proof. intros H. apply fallocated_lt_ffresh in H. lia. Qed.

Lemma ge_ffresh_not_allocated h x : ffresh h <= x -> ~ fallocated h x.
Proof. intros H Ha. apply fallocated_lt_ffresh in Ha. lia. Qed.

Lemma fget_ge_ffresh h x : ffresh h <= x -> fget h x = None.
Proof. intros H. apply fget_unallocated. apply ge_ffresh_not_allocated. exact H. Qed.

Lemma fget_Some_lt_ffresh h x c : fget h x = Some c -> x < ffresh h.
Proof. intros H. apply fallocated_lt_ffresh. apply fallocated_iff_fget. eauto. Qed.

Lemma ffresh_fset_ffresh h c : ffresh (fset h (ffresh h) c) = S (ffresh h).
Proof.
  unfold ffresh, fset. cbn [map fst fold_right].
  generalize (fold_right Nat.max 0 (map fst h)). intros m. lia.
Qed.

Lemma falloc_eq h c : falloc h c = (fset h (ffresh h) c, ffresh h).
Proof. reflexivity. Qed.
Local Opaque ffresh.

(* every cell that existed in h still exists in h' with the same contents *)
Definition fframe (h h' : fheap) : Prop :=
  (forall l, fallocated h l -> fget h' l = fget h l) /\
  (forall l, fallocated h l -> fallocated h' l).

(* h' extends h as a partial map *)
Definition fagree (h h' : fheap) : Prop := forall x c, fget h x = Some c -> fget h' x = Some c.

Lemma fagree_refl h : fagree h h.
Proof. intros x c H. exact H. Qed.

Lemma fagree_fframe h h' : fagree h h' -> fframe h h'.
Proof.
  intros H. split; intros l Hl; apply fallocated_iff_fget in Hl; destruct Hl as [c Hc].
  - rewrite Hc. apply H. exact Hc.
  - apply fallocated_iff_fget. exists c. apply H. exact Hc.
Qed.

Lemma fframe_fagree h h' : fframe h h' -> fagree h h'.
Proof.
  intros [A _] x c H. rewrite A; [exact H|]. apply fallocated_iff_fget. eauto.
Qed.

(* h' only ADDS cells, at locations that were beyond every cell of h *)
Definition fext (h h' : fheap) : Prop :=
  ffresh h <= ffresh h' /\ forall x, x < ffresh h -> fget h' x = fget h x.

Lemma fext_refl h : fext h h.
Proof. split; auto. Qed.

Lemma fext_trans h1 h2 h3 : fext h1 h2 -> fext h2 h3 -> fext h1 h3.
Proof.
  intros [A1 B1] [A2 B2]. split; [lia|]. intros x Hx.
  rewrite B2 by lia. apply B1. exact Hx.
Qed.

Lemma fext_fagree h h' : fext h h' -> fagree h h'.
Proof.
  intros [_ B] x c H. rewrite B; [exact H|]. eapply fget_Some_lt_ffresh; eauto.
Qed.

Lemma fext_falloc h c : fext h (fset h (ffresh h) c).
Proof.
  split.
  - rewrite ffresh_fset_ffresh. lia.
  - intros x Hx. apply fget_fset_other. lia.
Qed.

(* ------------------------------------------------------------------ *)
(* 1. trees: reading with fuel, the nodes of an object                 *)
(* ------------------------------------------------------------------ *)
Lemma fabs_S n h l :
  fabs (S n) h l =
  match fget h l with
  | None => None
  | Some (CBool b) => Some (FBool b)
  | Some (CAtom a) => Some (FAtom a)
  | Some (COp t kids) =>
      match fabs_all n h kids with
      | Some fs => build_op t fs
      | None => None
      end
  end.
Proof. reflexivity. Qed.

Lemma omap_all_Forall2 {A B} (g : A -> option B) ks : forall fs,
  omap_all g ks = Some fs <-> Forall2 (fun k f => g k = Some f) ks fs.
Proof.
  induction ks as [|k r IH]; intros fs; simpl.
  - split; intros H.
    + inversion H; subst. constructor.
    + inversion H; subst. reflexivity.
  - split; intros H.
    + destruct (g k) as [y|] eqn:E1; [|discriminate H].
      destruct (omap_all g r) as [ys|] eqn:E2; [|discriminate H].
      inversion H; subst. constructor; [exact E1|]. apply IH. reflexivity.
    + inversion H as [|k' f' r' fs' H1 H2]; subst.
      rewrite H1. apply IH in H2. rewrite H2. reflexivity.
Qed.

Lemma omap_all_ext_In {A B} (g g' : A -> option B) l :
  (forall x, In x l -> g x = g' x) -> omap_all g l = omap_all g' l.
Proof.
  induction l as [|x r IH]; simpl; intros H; [reflexivity|].
  rewrite (H x) by auto. rewrite IH; [reflexivity|]. intros y Hy. apply H. auto.
Qed.

Lemma Forall2_impl_In {A B} (R1 R2 : A -> B -> Prop) l l' :
  Forall2 R1 l l' -> (forall a b, In a l -> In b l' -> R1 a b -> R2 a b) -> Forall2 R2 l l'.
Proof.
  induction 1 as [|a b r r' Hab Hr IH]; intros H; constructor.
  - apply H; simpl; auto.
  - apply IH. intros a' b' Ha Hb. apply H; simpl; auto.
Qed.

Lemma Forall2_In_r {A B} (R : A -> B -> Prop) l l' b :
  Forall2 R l l' -> In b l' -> exists a, In a l /\ R a b.
Proof.
  induction 1 as [|a b' r r' Hab Hr IH]; simpl; intros H; [tauto|].
  destruct H as [H|H].
  - subst. exists a. auto.
  - destruct (IH H) as (a' & Ha & HR). exists a'. auto.
Qed.

Lemma Forall2_In_l {A B} (R : A -> B -> Prop) l l' a :
  Forall2 R l l' -> In a l -> exists b, In b l' /\ R a b.
Proof.
  induction 1 as [|a' b r r' Hab Hr IH]; simpl; intros H; [tauto|].
  destruct H as [H|H].
  - subst. exists b. auto.
  - destruct (IH H) as (b' & Hb & HR). exists b'. auto.
Qed.

(* more fuel and more cells never hurt *)
Lemma fabs_agree_mono n : forall m h h' l f,
  fabs n h l = Some f -> n <= m -> fagree h h' -> fabs m h' l = Some f.
Proof.
  induction n as [|n IH]; intros m h h' l f H Hle Hag; [discriminate H|].
  destruct m as [|m]; [lia|]. rewrite fabs_S in *.
  destruct (fget h l) as [c|] eqn:Eg; [|discriminate H].
  rewrite (Hag _ _ Eg). destruct c as [b|a|t kids]; auto.
  destruct (fabs_all n h kids) as [fs|] eqn:E; [|discriminate H].
  assert (E' : fabs_all m h' kids = Some fs).
  { unfold fabs_all in *. apply omap_all_Forall2. apply omap_all_Forall2 in E.
    eapply Forall2_impl_In; [exact E|]. cbv beta. intros k g _ _ Hk.
    apply (IH m h h'); auto. lia. }
  rewrite E'. exact H.
Qed.

Lemma fabs_mono n m h l f : fabs n h l = Some f -> n <= m -> fabs m h l = Some f.
Proof. intros H Hle. eapply fabs_agree_mono; eauto. apply fagree_refl. Qed.

Lemma fabs_agree n h h' l f : fabs n h l = Some f -> fagree h h' -> fabs n h' l = Some f.
Proof. intros H Hag. eapply fabs_agree_mono; eauto. Qed.

(* the nodes of the object at l: l itself and, transitively, the operands *)
Inductive freach (h : fheap) : loc -> loc -> Prop :=
| FR_refl l : freach h l l
| FR_step l t kids k x :
    fget h l = Some (COp t kids) -> In k kids -> freach h k x -> freach h l x.

(* the tree only depends on the contents of the object's nodes *)
Lemma fabs_reach_eq n : forall h h' l,
  (forall x, freach h l x -> fget h' x = fget h x) -> fabs n h' l = fabs n h l.
Proof.
  induction n as [|n IH]; intros h h' l H; [reflexivity|].
  rewrite !fabs_S. rewrite (H l (FR_refl _ _)).
  destruct (fget h l) as [[b|a|t kids]|] eqn:E; auto.
  assert (E' : fabs_all n h' kids = fabs_all n h kids).
  { unfold fabs_all. apply omap_all_ext_In. intros k Hk. apply IH.
    intros x Hx. apply H. eapply FR_step; eauto. }
  rewrite E'. reflexivity.
Qed.

(* every node of a readable object exists (also seen from a larger heap) *)
Lemma freach_readable_allocated h h' l x : freach h' l x ->
  forall n f, fabs n h l = Some f -> fagree h h' -> fallocated h x.
Proof.
  induction 1 as [l|l t kids k x Hg Hk Hr IH]; intros n f H Hag.
  - destruct n as [|n]; [discriminate H|]. rewrite fabs_S in H.
    destruct (fget h l) as [c|] eqn:E; [|discriminate H].
    apply fallocated_iff_fget. eauto.
  - destruct n as [|n]; [discriminate H|]. rewrite fabs_S in H.
    destruct (fget h l) as [c|] eqn:E; [|discriminate H].
    pose proof (Hag _ _ E) as E'. rewrite Hg in E'. inversion E'; subst c. clear E'.
    destruct (fabs_all n h kids) as [fs|] eqn:Ea; [|discriminate H].
    unfold fabs_all in Ea. apply omap_all_Forall2 in Ea.
    destruct (Forall2_In_l _ _ _ _ Ea Hk) as (g & _ & Hg').
    eapply IH; eauto.
Qed.

(* ---- the fuel a tree needs ---- *)
Fixpoint fdepth (f : form) : nat :=
  match f with
  | FBool _ | FAtom _ => 1
  | FNot g | FX g | FF g | FG g | FA g | FE g => S (fdepth g)
  | FOr fs | FAnd fs => S (fold_right (fun g m => Nat.max (fdepth g) m) 0 fs)
  | FImp g k | FU g k | FR g k => S (Nat.max (fdepth g) (fdepth k))
  end.

Definition maxdepth (fs : list form) : nat := fold_right (fun g m => Nat.max (fdepth g) m) 0 fs.

Lemma maxdepth_In fs g : In g fs -> fdepth g <= maxdepth fs.
Proof.
  unfold maxdepth. induction fs as [|x r IH]; simpl; intros H; [tauto|].
  destruct H as [H|H]; [subst; lia|]. apply IH in H. lia.
Qed.

Lemma maxdepth_le fs n : Forall (fun g => fdepth g <= n) fs -> maxdepth fs <= n.
Proof.
  unfold maxdepth. induction 1 as [|x r Hx Hr IH]; simpl; lia.
Qed.

(* the root operator of a non-leaf *)
Definition ftag (f : form) : option optag :=
  match f with
  | FBool _ | FAtom _ => None
  | FNot _ => Some TNot | FOr _ => Some TOr | FAnd _ => Some TAnd | FImp _ _ => Some TImp
  | FX _ => Some TX | FF _ => Some TF | FG _ => Some TG | FU _ _ => Some TU
  | FR _ _ => Some TR | FA _ => Some TA | FE _ => Some TE
  end.

Lemma ftag_build f t : ftag f = Some t -> build_op t (children f) = Some f.
Proof. destruct f; simpl; intros H; inversion H; reflexivity. Qed.

Lemma ftag_depth f t : ftag f = Some t -> fdepth f = S (maxdepth (children f)).
Proof.
  unfold maxdepth. destruct f; simpl; intros H; inversion H; try reflexivity; lia.
Qed.

Lemma build_op_depth t fs f : build_op t fs = Some f -> fdepth f = S (maxdepth fs).
Proof.
  unfold maxdepth.
  destruct t; simpl; intros H; try (inversion H; subst; reflexivity);
    destruct fs as [|g [|k [|x r]]]; try discriminate H; inversion H; subst; simpl; lia.
Qed.

Lemma fabs_depth n : forall h l f, fabs n h l = Some f -> fdepth f <= n.
Proof.
  induction n as [|n IH]; intros h l f H; [discriminate H|].
  rewrite fabs_S in H.
  destruct (fget h l) as [[b|a|t kids]|]; try discriminate H.
  - inversion H; subst. simpl. lia.
  - inversion H; subst. simpl. lia.
  - destruct (fabs_all n h kids) as [fs|] eqn:E; [|discriminate H].
    rewrite (build_op_depth _ _ _ H). apply le_n_S. apply maxdepth_le.
    unfold fabs_all in E. apply omap_all_Forall2 in E. apply Forall_forall.
    intros g Hg. destruct (Forall2_In_r _ _ _ _ E Hg) as (k & _ & Hk).
    eapply IH; eauto.
Qed.

Lemma fdepth_le_height f : fdepth f <= S (height f).
Proof.
  induction f as [b|a|g IHg|fs IHfs|fs IHfs|g k IHg IHk|g IHg|g IHg|g IHg|g k IHg IHk
                 |g k IHg IHk|g IHg|g IHg] using form_ind'; simpl; try lia.
  - apply le_n_S. induction IHfs as [|x r Hx Hr IH]; simpl; lia.
  - apply le_n_S. induction IHfs as [|x r Hx Hr IH]; simpl; lia.
Qed.

(* induction on the list of operands *)
Lemma form_children_ind (P : form -> Prop) :
  (forall f, Forall P (children f) -> P f) -> forall f, P f.
Proof.
  intros H.
  induction f as [b|a|g IHg|fs IHfs|fs IHfs|g k IHg IHk|g IHg|g IHg|g IHg|g k IHg IHk
                 |g k IHg IHk|g IHg|g IHg] using form_ind'; apply H; simpl; auto.
Qed.

(* ------------------------------------------------------------------ *)
(* 2. the constructor                                                  *)
(* ------------------------------------------------------------------ *)
Lemma falloc_forms_nil h : falloc_forms h [] = (h, []).
Proof. reflexivity. Qed.

Lemma falloc_forms_cons h g r :
  falloc_forms h (g :: r) =
  let '(h1, l) := falloc_form h g in
  let '(h2, ls) := falloc_forms h1 r in
  (h2, l :: ls).
Proof. reflexivity. Qed.

(* an operator node: first the operands, then the node *)
Lemma falloc_form_op h f t : ftag f = Some t ->
  falloc_form h f = let '(h1, ls) := falloc_forms h (children f) in falloc h1 (COp t ls).
Proof.
  destruct f as [b|a|g|fs|fs|g k|g|g|g|g k|g k|g|g]; simpl; intros H; inversion H; subst;
    try reflexivity;
    destruct (falloc_form h g) as [h1 l1]; try reflexivity;
    destruct (falloc_form h1 k) as [h2 l2]; reflexivity.
Qed.

(* operator cells allocated at or beyond b only point to cells at or beyond b *)
Definition fclosed (b : nat) (h : fheap) : Prop :=
  forall x t kids k, b <= x -> fget h x = Some (COp t kids) -> In k kids -> b <= k.

Lemma fclosed_ffresh h : fclosed (ffresh h) h.
Proof. intros x t kids k Hx Hg. rewrite fget_ge_ffresh in Hg by exact Hx. discriminate Hg. Qed.

Definition ckids (c : fcell) : list loc := match c with COp _ ks => ks | _ => [] end.

Lemma fclosed_fset b h l c :
  fclosed b h -> (forall k, In k (ckids c) -> b <= k) -> fclosed b (fset h l c).
Proof.
  intros H Hc x t kids k Hx Hg Hk. unfold fset in Hg. simpl in Hg.
  destruct (Nat.eqb l x).
  - inversion Hg; subst c. apply Hc. exact Hk.
  - eapply H; eauto.
Qed.

Lemma freach_closed b h l x : fclosed b h -> freach h l x -> b <= l -> b <= x.
Proof.
  intros Hc. induction 1 as [l|l t kids k x Hg Hk Hr IH]; intros Hb; [exact Hb|].
  apply IH. eapply Hc; eauto.
Qed.

Definition fspec (f : form) : Prop := forall h h' l, falloc_form h f = (h', l) ->
  fext h h' /\ ffresh h <= l /\
  (forall b, b <= ffresh h -> fclosed b h -> fclosed b h') /\
  fabs (fdepth f) h' l = Some f.

Lemma falloc_forms_full fs : Forall fspec fs -> forall h h' ls,
  falloc_forms h fs = (h', ls) ->
  fext h h' /\ (forall l, In l ls -> ffresh h <= l) /\
  (forall b, b <= ffresh h -> fclosed b h -> fclosed b h') /\
  Forall2 (fun l g => fabs (fdepth g) h' l = Some g) ls fs.
Proof.
  induction 1 as [|g r Hg Hr IH]; intros h h' ls H.
  - rewrite falloc_forms_nil in H. inversion H; subst.
    split; [apply fext_refl|]. split; [intros l []|]. split; [auto|constructor].
  - rewrite falloc_forms_cons in H.
    destruct (falloc_form h g) as [h1 l] eqn:E1.
    destruct (falloc_forms h1 r) as [h2 ls2] eqn:E2.
    inversion H; subst. clear H.
    destruct (Hg _ _ _ E1) as (X1 & L1 & C1 & A1).
    destruct (IH _ _ _ E2) as (X2 & L2 & C2 & A2).
    pose proof X1 as [F1 _].
    split; [eapply fext_trans; eauto|]. split; [|split].
    + intros x [Hx|Hx]; [subst; exact L1|]. apply L2 in Hx. lia.
    + intros b Hb Hc. apply C2; [lia|]. apply C1; auto.
    + constructor; [|exact A2]. eapply fabs_agree; [exact A1|]. apply fext_fagree. exact X2.
Qed.

Lemma falloc_form_full : forall f, fspec f.
Proof.
  apply form_children_ind. intros f IH h h' l H.
  destruct (ftag f) as [t|] eqn:Et.
  - rewrite (falloc_form_op _ _ _ Et) in H.
    destruct (falloc_forms h (children f)) as [h1 ls] eqn:E1.
    rewrite falloc_eq in H. inversion H; subst. clear H.
    destruct (falloc_forms_full _ IH _ _ _ E1) as (X1 & L1 & C1 & A1).
    pose proof X1 as [F1 _].
    pose proof (fext_falloc h1 (COp t ls)) as X2.
    split; [eapply fext_trans; eauto|]. split; [exact F1|]. split.
    + intros b Hb Hc. apply fclosed_fset; [auto|].
      simpl. intros k Hk. apply L1 in Hk. lia.
    + rewrite (ftag_depth _ _ Et), fabs_S, fget_fset_same.
      assert (E : fabs_all (maxdepth (children f)) (fset h1 (ffresh h1) (COp t ls)) ls
                  = Some (children f)).
      { unfold fabs_all. apply omap_all_Forall2.
        eapply Forall2_impl_In; [exact A1|]. cbv beta. intros k g _ Hg Hk.
        eapply fabs_agree_mono; [exact Hk| |apply fext_fagree; exact X2].
        apply maxdepth_In. exact Hg. }
      rewrite E. apply ftag_build. exact Et.
  - destruct f as [b|a|g|fs|fs|g k|g|g|g|g k|g k|g|g]; try discriminate Et;
      simpl in H; rewrite falloc_eq in H; inversion H; subst; clear H.
    + split; [apply fext_falloc|]. split; [lia|]. split.
      * intros b0 Hb Hc. apply fclosed_fset; [auto|]. simpl. intros k [].
      * simpl fdepth. rewrite fabs_S, fget_fset_same. reflexivity.
    + split; [apply fext_falloc|]. split; [lia|]. split.
      * intros b0 Hb Hc. apply fclosed_fset; [auto|]. simpl. intros k [].
      * simpl fdepth. rewrite fabs_S, fget_fset_same. reflexivity.
Qed.

(* 1. the constructor: every cell it writes is fresh, every node of the result is a fresh
   cell, the result reads back as f, nothing that existed is touched *)
Theorem falloc_form_spec f h h' l : falloc_form h f = (h', l) ->
  (forall x, fget h' x <> fget h x -> ~ fallocated h x) /\
  (forall x, freach h' l x -> ~ fallocated h x) /\
  fabs (S (height f)) h' l = Some f /\
  (forall n, fdepth f <= n -> fabs n h' l = Some f) /\
  fframe h h'.
Proof.
  intros H. destruct (falloc_form_full f _ _ _ H) as (X & L & C & A).
  split; [|split; [|split; [|split]]].
  - intros x Hx Ha. apply Hx. destruct X as [_ B]. apply B.
    apply fallocated_lt_ffresh. exact Ha.
  - intros x Hx. apply ge_ffresh_not_allocated.
    eapply freach_closed; [|exact Hx|exact L]. apply C; [lia|]. apply fclosed_ffresh.
  - eapply fabs_mono; [exact A|]. apply fdepth_le_height.
  - intros n Hn. eapply fabs_mono; eauto.
  - apply fagree_fframe. apply fext_fagree. exact X.
Qed.

(* ------------------------------------------------------------------ *)
(* 3. clone()                                                          *)
(* ------------------------------------------------------------------ *)
(* 2. clone: an equal formula (readable with the same fuel), every node of the clone is a
   fresh cell — so no node is shared with the original —, the original is untouched *)
Theorem clone_fh_spec fuel h l f : fabs fuel h l = Some f ->
  exists h' l', clone_fh fuel h l = Some (h', l') /\
    fabs fuel h' l' = Some f /\
    fabs (S (height f)) h' l' = Some f /\
    (forall x, freach h' l' x -> ~ fallocated h x) /\
    (forall x, freach h' l' x -> ~ freach h' l x) /\
    fabs fuel h' l = Some f /\
    fframe h h'.
Proof.
  intros H. unfold clone_fh. rewrite H.
  destruct (falloc_form h f) as [h' l'] eqn:E. exists h', l'.
  destruct (falloc_form_spec _ _ _ _ E) as (_ & R & A1 & A2 & F).
  split; [reflexivity|]. split; [|split; [|split; [|split; [|split]]]].
  - apply A2. eapply fabs_depth; eauto.
  - exact A1.
  - exact R.
  - intros x Hx Hx'. apply (R x Hx).
    eapply freach_readable_allocated; [exact Hx'|exact H|]. apply fframe_fagree. exact F.
  - eapply fabs_agree; [exact H|]. apply fframe_fagree. exact F.
  - exact F.
Qed.

(* ---- the caller's leaf edits ---- *)
Lemma apply_fwrites_cons h w ws : apply_fwrites h (w :: ws) = apply_fwrites (apply_fwrite h w) ws.
Proof. reflexivity. Qed.

Lemma fget_apply_fwrite_other h w x : x <> wloc w -> fget (apply_fwrite h w) x = fget h x.
Proof.
  destruct w as [l a|l]; simpl; intros Hx;
    destruct (fget h l) as [[b|a'|t ks]|]; auto; apply fget_fset_other; exact Hx.
Qed.

Lemma fget_apply_fwrites_other ws : forall h x,
  (forall w, In w ws -> wloc w <> x) -> fget (apply_fwrites h ws) x = fget h x.
Proof.
  induction ws as [|w r IH]; intros h x H; [reflexivity|].
  rewrite apply_fwrites_cons, IH.
  - apply fget_apply_fwrite_other. intros E. apply (H w); simpl; auto.
  - intros w' Hw'. apply H. simpl. auto.
Qed.

Lemma fallocated_apply_fwrite h w x : fallocated (apply_fwrite h w) x <-> fallocated h x.
Proof.
  destruct w as [l a|l]; simpl;
    destruct (fget h l) as [[b|a'|t ks]|] eqn:E; try tauto;
    rewrite fallocated_fset; (split; [intros [<-|Hx]; auto; apply fallocated_iff_fget; eauto|auto]).
Qed.

Lemma fallocated_apply_fwrites ws : forall h x,
  fallocated (apply_fwrites h ws) x <-> fallocated h x.
Proof.
  induction ws as [|w r IH]; intros h x; [tauto|].
  rewrite apply_fwrites_cons, IH. apply fallocated_apply_fwrite.
Qed.

(* the edits are real: renaming an atom object / flipping a Bool object changes its tree *)
Lemma fabs_rename h l a a' n : fget h l = Some (CAtom a) ->
  fabs (S n) (apply_fwrite h (WRename l a')) l = Some (FAtom a').
Proof. intros H. simpl apply_fwrite. rewrite H, fabs_S, fget_fset_same. reflexivity. Qed.

Lemma fabs_flip h l b n : fget h l = Some (CBool b) ->
  fabs (S n) (apply_fwrite h (WFlip l)) l = Some (FBool (negb b)).
Proof. intros H. simpl apply_fwrite. rewrite H, fabs_S, fget_fset_same. reflexivity. Qed.

(* writes that avoid the nodes of an object do not change its tree *)
Lemma fabs_apply_fwrites_disjoint n h ws l :
  (forall w, In w ws -> ~ freach h l (wloc w)) ->
  fabs n (apply_fwrites h ws) l = fabs n h l.
Proof.
  intros H. apply fabs_reach_eq. intros x Hx. apply fget_apply_fwrites_other.
  intros w Hw E. apply (H w Hw). rewrite E. exact Hx.
Qed.

(* 3. after clone: ANY leaf writes to cells that existed before the clone (in particular
   to the nodes of the original) leave the clone's tree unchanged; ANY leaf writes to
   cells that did not exist before (in particular to the nodes of the clone) leave the
   original's tree unchanged *)
Theorem clone_independent fuel h l f h' l' :
  fabs fuel h l = Some f -> clone_fh fuel h l = Some (h', l') ->
  (forall ws, (forall w, In w ws -> fallocated h (wloc w)) ->
     fabs fuel (apply_fwrites h' ws) l' = Some f) /\
  (forall ws, (forall w, In w ws -> freach h' l (wloc w)) ->
     fabs fuel (apply_fwrites h' ws) l' = Some f) /\
  (forall ws, (forall w, In w ws -> ~ fallocated h (wloc w)) ->
     fabs fuel (apply_fwrites h' ws) l = Some f) /\
  (forall ws, (forall w, In w ws -> freach h' l' (wloc w)) ->
     fabs fuel (apply_fwrites h' ws) l = Some f).
Proof.
  intros H Hc. destruct (clone_fh_spec _ _ _ _ H) as (h2 & l2 & Hc2 & A & _ & R & _ & B & F).
  rewrite Hc in Hc2. inversion Hc2; subst h2 l2. clear Hc2.
  pose proof (fframe_fagree _ _ F) as Hag.
  assert (P1 : forall ws, (forall w, In w ws -> fallocated h (wloc w)) ->
                 fabs fuel (apply_fwrites h' ws) l' = Some f).
  { intros ws Hws. rewrite fabs_apply_fwrites_disjoint; [exact A|].
    intros w Hw Hr. apply (R _ Hr). apply Hws. exact Hw. }
  assert (P3 : forall ws, (forall w, In w ws -> ~ fallocated h (wloc w)) ->
                 fabs fuel (apply_fwrites h' ws) l = Some f).
  { intros ws Hws. eapply fabs_agree; [exact H|]. intros x c Hx.
    rewrite fget_apply_fwrites_other; [apply Hag; exact Hx|].
    intros w Hw E. apply (Hws w Hw). rewrite E. apply fallocated_iff_fget. eauto. }
  split; [exact P1|]. split; [|split; [exact P3|]].
  - intros ws Hws. apply P1. intros w Hw.
    eapply freach_readable_allocated; [apply Hws; exact Hw|exact H|exact Hag].
  - intros ws Hws. apply P3. intros w Hw. apply R. apply Hws. exact Hw.
Qed.

(* ------------------------------------------------------------------ *)
(* 4. __eq__ / __hash__ read the current tree                          *)
(* ------------------------------------------------------------------ *)
(* 4. in EVERY heap — whatever was written before — equality and hash of objects are those
   of their current trees *)
Theorem edited_hash_coherent L fuel h a b f g :
  fabs fuel h a = Some f -> fabs fuel h b = Some g ->
  eq_fh L fuel h a b = eq_obj (L, f) (L, g) /\
  hash_fh L fuel h a = Some (hash_obj (L, f)).
Proof. intros Ha Hb. unfold eq_fh, hash_fh. rewrite Ha, Hb. auto. Qed.

Corollary edited_eq_same_hash L fuel h a b f g :
  fabs fuel h a = Some f -> fabs fuel h b = Some g ->
  eq_fh L fuel h a b = true -> good L f = true -> good L g = true ->
  hash_fh L fuel h a = hash_fh L fuel h b.
Proof.
  intros Ha Hb He Gf Gg.
  destruct (edited_hash_coherent L fuel h a b f g Ha Hb) as [E1 E2].
  destruct (edited_hash_coherent L fuel h b a g f Hb Ha) as [_ E3].
  rewrite E2, E3. f_equal. apply eq_obj_hash; auto. rewrite <- E1. exact He.
Qed.

(* in particular after any leaf edits of a heap *)
Corollary edited_eq_same_hash_after_writes L fuel h0 ws a b f g :
  let h := apply_fwrites h0 ws in
  fabs fuel h a = Some f -> fabs fuel h b = Some g ->
  eq_fh L fuel h a b = true -> good L f = true -> good L g = true ->
  hash_fh L fuel h a = hash_fh L fuel h b.
Proof. intros h. apply edited_eq_same_hash. Qed.

(* ------------------------------------------------------------------ *)
(* 5. NON-VACUITY                                                      *)
(* ------------------------------------------------------------------ *)
Module FExamples.
Import String.
Local Open Scope string_scope.

Definition f_and : form := FAnd [FAtom "p"; FAtom "q"].

(* And(p, q) lives in cells 1 (p), 2 (q), 3 (and).  copy.copy gives a new root, cell 4,
   with the SAME operand list [1; 2]: renaming the atom reached through the clone renames
   it in the original *)
Example shallow_clone_not_independent :
  let '(h1, l) := falloc_form [] f_and in
  match clone_shallow_fh h1 l with
  | Some (h2, l2) =>
      match fget h2 l2 with
      | Some (COp _ (k :: _)) =>
          let h3 := apply_fwrite h2 (WRename k "r") in
          l2 <> l /\
          fabs 2 h2 l2 = Some f_and /\
          fabs 2 h2 l = Some f_and /\
          fabs 2 h3 l2 = Some (FAnd [FAtom "r"; FAtom "q"]) /\
          fabs 2 h3 l = Some (FAnd [FAtom "r"; FAtom "q"]) /\
          fabs 2 h3 l <> fabs 2 h2 l /\
          freach h2 l k /\ freach h2 l2 k
      | _ => False
      end
  | None => False
  end.
Proof.
  vm_compute. repeat split; try reflexivity.
  - intros H. discriminate H.
  - intros H. discriminate H.
  - eapply FR_step; [reflexivity|left; reflexivity|apply FR_refl].
  - eapply FR_step; [reflexivity|left; reflexivity|apply FR_refl].
Qed.

(* hence the independence theorem is false of the shallow clone *)
Example shallow_clone_refutes_independence :
  ~ (forall fuel h l f h' l' ws, fabs fuel h l = Some f -> clone_shallow_fh h l = Some (h', l') ->
       (forall w, In w ws -> freach h' l' (wloc w)) ->
       fabs fuel (apply_fwrites h' ws) l = Some f).
Proof.
  intros H.
  specialize (H 2 (fst (falloc_form [] f_and)) 3 f_and _ _ [WRename 1 "r"] eq_refl eq_refl).
  assert (Hr : forall w, In w [WRename 1 "r"] ->
                 freach (fset (fst (falloc_form [] f_and)) 4 (COp TAnd [1; 2])) 4 (wloc w)).
  { intros w [<-|[]]. eapply FR_step; [reflexivity|left; reflexivity|apply FR_refl]. }
  specialize (H Hr). vm_compute in H. discriminate H.
Qed.

(* a cached __hash__: hash p; rename it to q; it is now equal to a fresh atom q and the
   real __hash__ agrees, but the cached one still answers "p" *)
Example cached_hash_incoherent :
  let '(h1, l) := falloc_form [] (FAtom "p") in
  let '(o1, s1) := hash_cached_fh PL 1 h1 (l, None) in
  let h2 := apply_fwrite h1 (WRename l "q") in
  let '(h3, l3) := falloc_form h2 (FAtom "q") in
  let '(o2, s2) := hash_cached_fh PL 1 h3 o1 in
  let '(o4, s4) := hash_cached_fh PL 1 h3 (l3, None) in
  s1 = Some "p" /\
  l3 <> l /\
  fabs 1 h3 l = Some (FAtom "q") /\
  eq_fh PL 1 h3 l l3 = true /\
  hash_fh PL 1 h3 l = hash_fh PL 1 h3 l3 /\
  hash_fh PL 1 h3 l3 = Some "q" /\
  s4 = Some "q" /\
  s2 = Some "p" /\
  s2 <> s4 /\
  s2 <> hash_fh PL 1 h3 l3.
Proof.
  vm_compute. repeat split; try reflexivity; intros H; discriminate H.
Qed.

(* (p or not q or true) --> A G p : depth 3 below the root, a ternary Or.
   The original lives in cells 1..9 (root 9), the clone in cells 10..18 (root 18) *)
Definition f_ex : form :=
  FImp (FOr [FAtom "p"; FNot (FAtom "q"); FBool true]) (FA (FG (FAtom "p"))).

Definition h_ex : fheap := fst (falloc_form [] f_ex).
Definition l_ex : loc := snd (falloc_form [] f_ex).

(* edits of the original: flip the Bool (cell 4), rename q (cell 2); a WRename of an
   operator cell (5) and a WFlip of an atom cell (1) do nothing *)
Definition ws_orig : list fwrite := [WFlip 4; WRename 2 "s"; WRename 5 "x"; WFlip 1].
(* edits of the clone: rename its first p (cell 10), flip its Bool (cell 13) twice and once more *)
Definition ws_clone : list fwrite := [WRename 10 "z"; WFlip 13; WFlip 13; WFlip 13; WRename 15 "y"].

Example clone_example :
  2 < height f_ex /\
  fabs 4 h_ex l_ex = Some f_ex /\
  match clone_fh 4 h_ex l_ex with
  | Some (h', l') =>
      l' <> l_ex /\
      fabs 4 h' l' = Some f_ex /\
      fabs 4 h' l_ex = Some f_ex /\
      eq_fh CTLS 4 h' l_ex l' = true /\
      (* the hypotheses of clone_independent hold of the two lists of edits *)
      forallb (fun w => fallocatedb h_ex (wloc w)) ws_orig = true /\
      forallb (fun w => negb (fallocatedb h_ex (wloc w))) ws_clone = true /\
      (* edits of the original: the original changes as expected, the clone does not *)
      fabs 4 (apply_fwrites h' ws_orig) l_ex =
        Some (FImp (FOr [FAtom "p"; FNot (FAtom "s"); FBool false]) (FA (FG (FAtom "p")))) /\
      fabs 4 (apply_fwrites h' ws_orig) l' = Some f_ex /\
      (* edits of the clone: the clone changes as expected, the original does not *)
      fabs 4 (apply_fwrites h' ws_clone) l' =
        Some (FImp (FOr [FAtom "z"; FNot (FAtom "q"); FBool false]) (FA (FG (FAtom "y")))) /\
      fabs 4 (apply_fwrites h' ws_clone) l_ex = Some f_ex /\
      (* both *)
      fabs 4 (apply_fwrites h' (ws_orig ++ ws_clone)%list) l_ex =
        Some (FImp (FOr [FAtom "p"; FNot (FAtom "s"); FBool false]) (FA (FG (FAtom "p")))) /\
      fabs 4 (apply_fwrites h' (ws_orig ++ ws_clone)%list) l' =
        Some (FImp (FOr [FAtom "z"; FNot (FAtom "q"); FBool false]) (FA (FG (FAtom "y")))) /\
      eq_fh CTLS 4 (apply_fwrites h' (ws_orig ++ ws_clone)%list) l_ex l' = false
  | None => False
  end.
Proof.
  vm_compute. repeat split; try reflexivity; lia.
Qed.

(* the general theorems apply to the example (their hypotheses are satisfiable) *)
Example clone_example_by_theorem :
  forall h' l', clone_fh 4 h_ex l_ex = Some (h', l') ->
    fabs 4 (apply_fwrites h' ws_orig) l' = Some f_ex /\
    fabs 4 (apply_fwrites h' ws_clone) l_ex = Some f_ex.
Proof.
  intros h' l' Hc.
  assert (H : fabs 4 h_ex l_ex = Some f_ex) by (vm_compute; reflexivity).
  destruct (clone_independent _ _ _ _ _ _ H Hc) as (P1 & _ & P3 & _). split.
  - apply P1. intros w Hw. apply fallocatedb_iff.
    assert (E : forallb (fun w => fallocatedb h_ex (wloc w)) ws_orig = true)
      by (vm_compute; reflexivity).
    rewrite forallb_forall in E. apply E. exact Hw.
  - apply P3. intros w Hw Ha. apply fallocatedb_iff in Ha.
    assert (E : forallb (fun w => negb (fallocatedb h_ex (wloc w))) ws_clone = true)
      by (vm_compute; reflexivity).
    rewrite forallb_forall in E. apply E in Hw. rewrite Ha in Hw. discriminate Hw.
Qed.

End FExamples.

Print Assumptions falloc_form_spec.
Print Assumptions clone_fh_spec.
Print Assumptions clone_independent.
Print Assumptions edited_hash_coherent.
Print Assumptions edited_eq_same_hash.
Print Assumptions edited_eq_same_hash_after_writes.
Print Assumptions FExamples.shallow_clone_not_independent.
Print Assumptions FExamples.shallow_clone_refutes_independence.
Print Assumptions FExamples.cached_hash_incoherent.
Print Assumptions FExamples.clone_example.
Print Assumptions FExamples.clone_example_by_theorem.
